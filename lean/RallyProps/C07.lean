import RallyModel.Samples
import RallyProofs.Samples
import RallyProofs.SamplesFlush
import RallyProofs.SamplesJoin
import RallyModel.ShipJoin
import RallyProofs.ShipJoin
/-!
# C07 — every request sample reaches the metrics store exactly once

Theorems about `RallyModel/Samples.lean` for every sequence of pipeline events of any length: any interleaving of
requests, shipments, deliveries, periodic or step-boundary post-processing calls, hand-overs and their delivery,
any number of workers, any queue capacity and any down-sampling factor.  `s.accepted.count a` is how often sample
`a` was accepted by a worker's queue (once, when the harness hands out fresh ids).
-/
namespace C07
open Samples

/-- **sample_conservation** — in every reachable state each accepted sample is in exactly as many places as it was
    accepted: sampler queue, shipment in flight, raw_samples, driver store, hand-over in flight, race-control store
    (or its request records were removed by down-sampling).  Never lost, never duplicated. -/
theorem sample_conservation (cfg : Cfg) (evs : List Event) (s : State) (h : run cfg init evs = some s) (a : Sid) :
    located a s = s.accepted.count a :=
  run_induction (cfg := cfg) (fun s => located a s = s.accepted.count a)
    (fun _ _ _ hs hp => step_located hs a hp) evs init s h rfl

/-- fresh sample ids ⇒ every accepted sample is in exactly one place -/
theorem each_sample_in_exactly_one_place (cfg : Cfg) (evs : List Event) (s : State) (h : run cfg init evs = some s)
    (hfresh : s.accepted.Nodup) (a : Sid) (ha : a ∈ s.accepted) : located a s = 1 := by
  rw [sample_conservation cfg evs s h a]
  rw [List.Nodup.count hfresh]
  simp [ha]

/-- **records_exact_at_end** — with the default factor 1, once everything has been shipped, post-processed, handed
    over and delivered, race control's store holds the records of every accepted sample exactly as often as it
    was accepted (a permutation of `accepted`). -/
theorem records_exact_at_end (cfg : Cfg) (hf : cfg.factor = 1) (evs : List Event) (s : State)
    (h : run cfg init evs = some s)
    (hq : s.samplers = []) (hw : s.w2d = []) (hr : s.raw = []) (hd : s.dstore = []) (hh : s.d2r = []) :
    s.rstore.Perm s.accepted := by
  have hds : s.downsampled = [] :=
    run_induction (cfg := cfg) (fun s => s.downsampled = []) (fun _ _ _ hs hp => step_downsampled hf hs hp) evs init s h rfl
  rw [List.perm_iff_count]
  intro a
  have := sample_conservation cfg evs s h a
  simp only [located, hq, hw, hr, hd, hh, hds] at this
  simpa using this

/-- **only_queue_or_downsampling_reduce** — for any factor: at the end the store holds exactly the accepted samples
    minus those removed by down-sampling, and a down-sampled sample is one at a position ≢ 0 (mod factor) of some
    post-processing call; the only other way a request yields no record is a full queue (`dropped`). -/
theorem only_queue_or_downsampling_reduce (cfg : Cfg) (evs : List Event) (s : State)
    (h : run cfg init evs = some s)
    (hq : s.samplers = []) (hw : s.w2d = []) (hr : s.raw = []) (hd : s.dstore = []) (hh : s.d2r = []) (a : Sid) :
    s.rstore.count a + s.downsampled.count a = s.accepted.count a := by
  have := sample_conservation cfg evs s h a
  simp only [located, hq, hw, hr, hd, hh] at this
  simpa using this

/-- one post-processing call keeps exactly the positions ≡ 0 (mod factor) and loses the others -/
theorem downsampling_positions (f : Nat) (l : List Sid) (a : Sid) :
    (keep f l).count a + (lose f l).count a = l.count a ∧ keep 1 l = l ∧ lose 1 l = [] :=
  ⟨keep_lose_count f l a, keep_one l, lose_one l⟩

/-- **throughput_uses_all** — whatever the factor, the throughput calculator has been fed every post-processed
    sample exactly once (kept or down-sampled alike). -/
theorem throughput_uses_all (cfg : Cfg) (evs : List Event) (s : State) (h : run cfg init evs = some s) (a : Sid) :
    s.fed.count a = s.dstore.count a + s.d2r.flatten.count a + s.rstore.count a + s.downsampled.count a :=
  run_induction (cfg := cfg) (fun s => s.fed.count a = processed a s)
    (fun _ _ _ hs hp => step_fed hs a hp) evs init s h rfl

/-- **flush_delivers_everything** — the pipeline cannot get stuck: from every reachable state, the flush of that state
    (every worker ships, the driver receives the shipments in sending order, post-processes once and hands over,
    race control receives every hand-over — what the end of a step does) is enabled to its end, contains no new
    request, and leaves nothing in flight; with the default factor, race control's store then holds exactly the
    accepted samples. -/
theorem flush_delivers_everything (cfg : Cfg) (hf : cfg.factor = 1) (evs : List Event) (s : State)
    (h : run cfg init evs = some s) :
    ∃ s', run cfg init (evs ++ flush s) = some s' ∧ drained s' ∧ s'.rstore.Perm s.accepted ∧
      s'.dropped = s.dropped ∧ ∀ e ∈ flush s, e.isRequest = false := by
  obtain ⟨s', hr, hd, hacc, hdr⟩ := flush_drains cfg s
  have hrun : run cfg init (evs ++ flush s) = some s' := by rw [run_append, h]; exact hr
  refine ⟨s', hrun, hd, ?_, hdr, flush_no_request s⟩
  rw [← hacc]
  exact records_exact_at_end cfg hf _ s' hrun hd.1 hd.2.1 hd.2.2.1 hd.2.2.2.1 hd.2.2.2.2

/-- the same for any factor: after the flush every accepted sample is in the store or was down-sampled -/
theorem flush_delivers_all_but_downsampled (cfg : Cfg) (evs : List Event) (s : State)
    (h : run cfg init evs = some s) :
    ∃ s', run cfg init (evs ++ flush s) = some s' ∧ drained s' ∧
      ∀ a, s'.rstore.count a + s'.downsampled.count a = s.accepted.count a := by
  obtain ⟨s', hr, hd, hacc, _⟩ := flush_drains cfg s
  have hrun : run cfg init (evs ++ flush s) = some s' := by rw [run_append, h]; exact hr
  refine ⟨s', hrun, hd, fun a => ?_⟩
  rw [← hacc]
  exact only_queue_or_downsampling_reduce cfg _ s' hrun hd.1 hd.2.1 hd.2.2.1 hd.2.2.2.1 hd.2.2.2.2 a

/-- **one_record_of_each_kind_per_request** — the records stored for one sample: exactly one latency and one
    processing_time record with the sample's own operation labels, one service_time record with them followed by
    one service_time record per dependent timing with that timing's labels; every one of them carries the sample's
    client id, task and sample type. -/
theorem one_record_of_each_kind_per_request (i : Info) :
    ((recordsOf i).filter fun r => r.name == .latency) = [⟨.latency, i.client, i.task, i.op, i.opType, i.normal⟩] ∧
    ((recordsOf i).filter fun r => r.name == .processingTime) = [⟨.processingTime, i.client, i.task, i.op, i.opType, i.normal⟩] ∧
    ((recordsOf i).filter fun r => r.name == .serviceTime) =
      ⟨.serviceTime, i.client, i.task, i.op, i.opType, i.normal⟩ :: i.deps.map (fun d => ⟨.serviceTime, i.client, i.task, d.1, d.2, i.normal⟩) ∧
    (∀ r ∈ recordsOf i, r.client = i.client ∧ r.task = i.task ∧ r.normal = i.normal) :=
  recordsOf_shape i

/-- **records_at_end** — with the default factor, once the pipeline is drained, the request records in race control's
    store are exactly (a permutation of) the records of the accepted samples: three per request plus one per
    dependent timing, none lost, none twice. -/
theorem records_at_end (cfg : Cfg) (hf : cfg.factor = 1) (info : Sid → Info) (evs : List Event) (s : State)
    (h : run cfg init evs = some s) (hd : drained s) :
    (records info s.rstore).Perm (records info s.accepted) :=
  records_perm info (records_exact_at_end cfg hf evs s h hd.1 hd.2.1 hd.2.2.1 hd.2.2.2.1 hd.2.2.2.2)

/-- … hence, per client and task, as many latency records as accepted requests of that client and task -/
theorem latency_records_per_client_and_task (cfg : Cfg) (hf : cfg.factor = 1) (info : Sid → Info) (evs : List Event) (s : State)
    (h : run cfg init evs = some s) (hd : drained s) (c : Nat) (t : String) :
    recCount info .latency c t s.rstore = s.accepted.countP fun a => (info a).client == c && (info a).task == t := by
  have hp := records_exact_at_end cfg hf evs s h hd.1 hd.2.1 hd.2.2.1 hd.2.2.2.1 hd.2.2.2.2
  rw [← hp.countP_eq, ← latency_count]

/-- **periodic_postprocessing_never_starves** — the driver's timer grows by the wake-up interval `w > 0` per wake-up of an
    unfinished race and post-processing fires when it reaches the interval `p`: from ANY timer value below `p`, within
    `⌈p / w⌉` wake-ups post-processing has fired (raw samples never wait longer than that), and the timer stays below `p`. -/
theorem periodic_postprocessing_never_starves (w p : Nat) (hw : 0 < w) (hp : 0 < p) (t : Nat) (ht : t < p) :
    1 ≤ (wakes w p ((p + w - 1) / w) t).2 ∧ ∀ n, (wakes w p n t).1 < p := by
  refine ⟨wakes_fire_within w p _ t ht ?_, fun n => wakes_timer_lt w p hp n t ht⟩
  have : p ≤ (p + w - 1) / w * w := by
    have h1 := Nat.div_add_mod (p + w - 1) w
    have h2 := Nat.mod_lt (p + w - 1) hw
    have h3 : w * ((p + w - 1) / w) = (p + w - 1) / w * w := Nat.mul_comm _ _
    omega
  omega

/-- … and not more often: starting from a fresh timer, no post-processing before the interval is reached -/
theorem periodic_postprocessing_not_before (w p n : Nat) (h : n * w < p) : (wakes w p n 0).2 = 0 :=
  (wakes_not_before w p n 0 (by omega)).1

/-! ### the step boundary: `Driver.joinpoint_reached` decides when the store is handed over -/

/-- **step_boundary_hands_over_whole_store** — from ANY driver state (whatever periodic ticks, shipments or earlier steps left
    behind — in particular with `raw_samples` empty because a periodic tick has just post-processed everything), the join point
    message of the last worker is enabled and puts exactly one hand-over in flight that contains the WHOLE store plus what the
    post-processing call at the join point kept; afterwards `raw_samples` and the store are empty, nothing is lost, and the
    store is closed exactly at the last step. -/
theorem step_boundary_hands_over_whole_store (c : DCfg) (d : DState) (hf : d.stepNo ≠ c.steps) (hw : d.completed + 1 = c.workers) :
    ∃ d', dstep c d .joinpoint = some d' ∧ d'.s.d2r = d.s.d2r ++ [d.s.dstore ++ keep c.cfg.factor d.s.raw] ∧
      d'.s.raw = [] ∧ d'.s.dstore = [] ∧ d'.lost = d.lost ∧ d'.stepNo = d.stepNo + 1 ∧ d'.completed = 0 ∧
      d'.s.rstore = d.s.rstore ∧ d'.s.samplers = d.s.samplers ∧ d'.s.w2d = d.s.w2d ∧
      (d'.closed = true ↔ (d.stepNo + 1 = c.steps ∨ d.closed = true)) := by
  have hf' : c.finished d = false := by simpa [DCfg.finished] using hf
  refine ⟨_, dstep_joinpoint_last c d hf' hw, rfl, rfl, rfl, rfl, rfl, rfl, rfl, rfl, rfl, ?_⟩
  simp

/-- **nothing_in_store_when_closed** — for every sequence of driver-layer events (any interleaving of requests, shipments,
    deliveries, periodic ticks and join point messages, any number of workers and steps): no record is in the driver's store
    when it is closed, and every accepted sample is still in exactly as many places as it was accepted. -/
theorem nothing_in_store_when_closed (c : DCfg) (evs : List DEvent) (d : DState) (h : drun c dinit evs = some d) (a : Sid) :
    d.lost = [] ∧ located a d.s = d.s.accepted.count a := by
  obtain ⟨⟨es, hr⟩, hl⟩ := drun_run evs dinit d h
  exact ⟨hl, sample_conservation c.cfg es d.s hr a⟩

/-- **last_join_point_delivers_everything** — with the default factor: after ANY history `evs` of the driver layer (periodic
    ticks anywhere, also between the last shipment and the last join point message) in which all workers but one have reported
    the last join point and every sample has been shipped and received by the driver (a worker ships before it reports, messages
    of one sender arrive in sending order), the last join point message followed by race control receiving the hand-overs in
    flight leaves nothing anywhere: race control's store holds exactly the accepted samples, the store was empty when closed. -/
theorem last_join_point_delivers_everything (c : DCfg) (hfac : c.cfg.factor = 1) (evs : List DEvent) (d : DState)
    (h : drun c dinit evs = some d) (hq : d.s.samplers = []) (hw2 : d.s.w2d = [])
    (hlast : d.stepNo + 1 = c.steps) (hw : d.completed + 1 = c.workers) :
    ∃ d', drun c dinit (evs ++ [.joinpoint] ++ List.replicate (d.s.d2r.length + 1) (.pipe .deliverR)) = some d' ∧
      drained d'.s ∧ d'.s.rstore.Perm d.s.accepted ∧ d'.lost = [] ∧ d'.closed = true ∧ c.finished d' = true := by
  have hf' : c.finished d = false := by simp [DCfg.finished]; omega
  let s1 : State := { d.s with raw := [], dstore := [], d2r := d.s.d2r ++ [d.s.dstore ++ keep c.cfg.factor d.s.raw],
                               downsampled := d.s.downsampled ++ lose c.cfg.factor d.s.raw, fed := d.s.fed ++ d.s.raw }
  let d1 : DState := { s := s1, completed := 0, stepNo := d.stepNo + 1, lost := d.lost,
                       closed := (d.stepNo + 1 == c.steps) || d.closed }
  have hj : dstep c d .joinpoint = some d1 := dstep_joinpoint_last c d hf' hw
  obtain ⟨s4, hr4, c1, c2, c3, c4, c5, c6, c7, _, _, _⟩ := receive_stage c.cfg s1.d2r s1 rfl
  have hlen : s1.d2r.length = d.s.d2r.length + 1 := by simp [s1]
  rw [hlen] at hr4
  have hd4 := drun_deliverR c (d.s.d2r.length + 1) d1 s4 hr4
  have hrun : drun c dinit (evs ++ [.joinpoint] ++ List.replicate (d.s.d2r.length + 1) (.pipe .deliverR)) = some { d1 with s := s4 } := by
    rw [drun_append, drun_append, h]
    simp only [Option.bind_some, drun, hj]
    exact hd4
  obtain ⟨⟨es, hes⟩, hl⟩ := drun_run _ dinit _ hrun
  have hdr : drained s4 := ⟨by rw [c2]; exact hq, by rw [c3]; exact hw2, by rw [c4], by rw [c5], c1⟩
  refine ⟨_, hrun, hdr, ?_, hl, by simp [d1, hlast], by simp [DCfg.finished, d1, hlast]⟩
  have hp := records_exact_at_end c.cfg hfac es s4 hes hdr.1 hdr.2.1 hdr.2.2.1 hdr.2.2.2.1 hdr.2.2.2.2
  rw [c7] at hp
  exact hp

/-! ### the worker's side of a step end: wake-up handler and `drive()` against the load generator thread (`RallyModel/ShipJoin.lean`) -/

/-- Every interleaving of the wake-up handler's and `drive()`'s atomic steps with the load generator thread's (any number of samples, any
number of wake-ups, the thread finishing at any moment): what has been shipped followed by what is queued is exactly what the thread has
added, in order — nothing twice, nothing dropped with the sampler. -/
theorem shipped_and_queued_is_added (todo : List Nat) (evs : List ShipJoin.Ev) (s : ShipJoin.St)
    (h : ShipJoin.run true evs (ShipJoin.init todo) = some s) :
    ShipJoin.shipped s.sent ++ s.q = s.added ∧ s.lost = [] ∧ s.added ++ s.todo = todo := by
  have hi := ShipJoin.inv_run (ShipJoin.inv_init todo) h
  exact ⟨hi.cons, hi.lost, by simpa [ShipJoin.init] using ShipJoin.added_todo_run h⟩

/-- … and once `JoinPointReached` is among the messages sent, the thread has finished, the queue is empty, and the `UpdateSamples`
messages sent BEFORE it carry exactly the samples the thread added, each once (ids of the script are distinct); it is the last message. -/
theorem join_point_only_after_every_sample_shipped (todo : List Nat) (hnd : todo.Nodup) (evs : List ShipJoin.Ev) (s : ShipJoin.St)
    (h : ShipJoin.run true evs (ShipJoin.init todo) = some s) (hj : ShipJoin.Msg.joinPoint ∈ s.sent) :
    s.finished = true ∧ s.q = [] ∧ ShipJoin.shippedBefore s.sent = s.added ∧ (ShipJoin.shippedBefore s.sent).Nodup ∧
    s.sent.getLast? = some ShipJoin.Msg.joinPoint := by
  have hi := ShipJoin.inv_run (ShipJoin.inv_init todo) h
  have hpc : s.pc = .joined := by
    by_cases hp : s.pc = .joined
    · exact hp
    · exact absurd hj (hi.nj hp)
  have hq := hi.qe (Or.inr (Or.inr hpc))
  have hc := hi.cons
  rw [hq, List.append_nil] at hc
  have hat : s.added ++ s.todo = todo := by simpa [ShipJoin.init] using ShipJoin.added_todo_run h
  have hn : s.added.Nodup := by
    rw [← hat] at hnd
    exact (List.nodup_append.mp hnd).1
  refine ⟨hi.fin (by simp [hpc]) (by simp [hpc]), hq, by rw [hi.sb, hc], by rw [hi.sb, hc]; exact hn, hi.last hpc⟩

/-- The rule that matters, kept visible: a `drive()` that relies on the handler's drain (no drain at the join point) loses the sample the
thread adds between the handler's drain and its `done()` check. -/
theorem join_point_without_drain_loses_samples :
    ∃ evs s, ShipJoin.run false evs (ShipJoin.init [1, 2]) = some s ∧ ShipJoin.Msg.joinPoint ∈ s.sent ∧ s.added = [1, 2] ∧
      ShipJoin.shippedBefore s.sent = [1] ∧ s.lost = [2] :=
  ⟨[.add, .wakeDrain, .add, .finish, .checkDone, .driveWait, .driveDrain, .driveDrop, .sendJoin], _, rfl, by decide, rfl, rfl, rfl⟩


/-! ### non-vacuity (tests, labelled as tests) -/

example : (run ⟨2, 2⟩ init [.request 0 1, .request 0 2, .request 0 3, .request 1 4, .ship 0, .deliverU 0, .ship 1, .deliverU 1,
    .postprocess, .handover, .deliverR]).map (fun s => (s.rstore, s.downsampled, s.dropped, s.accepted, s.fed)) =
    some ([1, 4], [2], [3], [1, 2, 4], [1, 2, 4]) := by decide

example : flush (⟨[(1, 7), (0, 8), (1, 9)], [(0, [5])], [], [4], [[3]], [], [], [], [], []⟩ : State) =
    [.ship 1, .ship 0, .deliverU 0, .deliverU 1, .deliverU 0, .postprocess, .handover, .deliverR, .deliverR] := by decide

example : (recordsOf ⟨2, "t", "t", "composite", true, [("a", "search"), ("b", "search")]⟩).length = 5 := by decide

example : wakes 1 30 29 0 = (29, 0) ∧ wakes 1 30 30 0 = (0, 1) ∧ wakes 1 30 95 0 = (5, 3) ∧ wakes 2 5 7 0 = (2, 2) := by decide +kernel

-- the schedule of the missed change: two workers, two steps; in the last step a periodic tick post-processes everything between
-- the last shipment's delivery and the last join point message — the hand-over still carries the samples
example : (drun ⟨⟨8, 1⟩, 2, 2⟩ dinit [.joinpoint, .joinpoint, .pipe .deliverR, .pipe (.request 0 1), .pipe (.request 1 2), .pipe (.ship 0),
    .pipe (.deliverU 0), .joinpoint, .pipe (.ship 1), .pipe (.deliverU 1), .pipe .postprocess, .joinpoint, .pipe .deliverR]).map
    (fun d => (d.s.rstore, d.lost, d.closed, d.stepNo, d.s.raw ++ d.s.dstore)) = some ([1, 2], [], true, 2, []) := by decide

example : ∃ d, drun ⟨⟨8, 1⟩, 2, 1⟩ dinit [.pipe (.request 0 1), .pipe (.ship 0), .pipe (.deliverU 0), .pipe .postprocess, .joinpoint] = some d ∧
    d.s.samplers = [] ∧ d.s.w2d = [] ∧ d.stepNo + 1 = 1 ∧ d.completed + 1 = 2 ∧ d.s.dstore = [1] ∧ d.s.raw = [] := by decide

example : dstep ⟨⟨8, 1⟩, 1, 1⟩ dinit (.pipe .handover) = none := by decide

-- the same schedule with the join-point drain: the sample added in the window is shipped by drive() before JoinPointReached
example : (ShipJoin.run true [.add, .wakeDrain, .add, .finish, .checkDone, .driveWait, .driveDrain, .driveDrop, .sendJoin] (ShipJoin.init [1, 2])).map
    (fun s => (s.sent, s.lost, s.finished)) = some ([.update [1], .update [2], .joinPoint], [], true) := by decide

-- several wake-ups, the thread finishing early (sample 3 is never added)
example : (ShipJoin.run true [.wakeDrain, .checkDone, .add, .add, .wakeDrain, .finish, .checkDone, .driveWait, .driveDrain, .driveDrop, .sendJoin]
    (ShipJoin.init [1, 2, 3])).map (fun s => (s.sent, s.added, s.todo)) = some ([.update [1, 2], .joinPoint], [1, 2], [3]) := by decide

-- drive() is not entered while the thread runs
example : ShipJoin.run true [.wakeDrain, .checkDone, .driveWait] (ShipJoin.init [1]) = none := by decide

end C07
