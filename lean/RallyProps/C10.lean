import RallyModel.TrackSpec
import RallyProofs.TrackSpec
import RallyModel.TrackTemplate
import RallyProofs.TrackTemplate
import RallyModel.TrackThroughput
import RallyProofs.TrackThroughput
import RallyGen.OpTypes
import RallyGen.SchemaRules
/-!
# C10 — a loaded track is exactly what the file says; invalid tracks are rejected

Property theorems only (helper lemmas live in `RallyProofs/TrackSpec.lean`).  Every theorem
quantifies over **every** specification `s` (the typed view of the rendered track JSON), every
operation-type table `tbl`, every selected challenge `sel` and every pair of parameter-name lists
(`user` = supplied on the command line, `used` = referenced by the templates).

* `load` is the model of `TrackFileReader.read` after rendering (version check, structural schema
  check, `TrackSpecificationReader`, parameter accounting); `denote` is the independent declarative
  meaning of a specification (no checks, no accumulators).
* The rules are stated on the *meaning* of the specification (`denote`), i.e. on what the file says
  after inheritance of the defaults of a `parallel` element, or directly on the specification when
  the loaded track does not keep the information (operations, the `parallel` element's own fields).
-/
namespace C10
open TrackSpec

/-- the track version is absent or the single supported one -/
def VersionSupported (s : Spec) : Prop := s.version.getD 2 = 2

instance (s : Spec) : Decidable (VersionSupported s) := by unfold VersionSupported; infer_instance

instance decEqExcept {ε α : Type} [DecidableEq ε] [DecidableEq α] : DecidableEq (Except ε α)
  | .ok a, .ok b => if h : a = b then isTrue (by rw [h]) else isFalse (fun h' => by injection h' with h'; exact h h')
  | .error a, .error b => if h : a = b then isTrue (by rw [h]) else isFalse (fun h' => by injection h' with h'; exact h h')
  | .ok _, .error _ => isFalse (fun h => by injection h)
  | .error _, .ok _ => isFalse (fun h => by injection h)

/-- `load` returns a `TrackSyntaxError` -/
def RejectedAsSyntaxError (tbl : OpTable) (sel : Option Str) (user used : List Str) (s : Spec) : Prop :=
  ∃ e, load tbl sel user used s = .error e ∧ e.cls = .trackSyntax

/-! ## 1. Fidelity -/

theorem load_ok_inv {tbl : OpTable} {sel : Option Str} {user used : List Str} {s : Spec} {t : Track}
    (h : load tbl sel user used s = .ok t) :
    VersionSupported s ∧ schemaCheck s = none ∧ loadSpec tbl sel s = .ok t ∧
      (∀ p ∈ user, p ∉ reservedParams) ∧ (∀ p ∈ user, p ∈ used) := by
  unfold load at h
  simp only at h
  split at h
  · simp at h
  · rename_i hv
    split at h
    · simp at h
    · rename_i hs
      split at h
      · simp at h
      · rename_i t' hl
        split at h
        · simp at h
        · rename_i hr
          split at h
          · simp at h
          · rename_i hu
            injection h with h
            subst h
            refine ⟨?_, hs, hl, ?_, ?_⟩
            · unfold VersionSupported
              simp only [Bool.or_eq_true, not_or, minVersion, maxVersion] at hv
              have h1 : ¬ (s.version.getD 2 < 2) := fun h => hv.1 (decide_eq_true h)
              have h2 : ¬ (2 < s.version.getD 2) := fun h => hv.2 (decide_eq_true h)
              omega
            · intro p hp hmem
              apply hr
              exact List.any_eq_true.mpr ⟨p, hp, by simpa using hmem⟩
            · intro p hp
              apply Classical.byContradiction
              intro hmem
              apply hu
              exact List.any_eq_true.mpr ⟨p, hp, by simpa using hmem⟩

/-- **load_faithful**: for every specification, whatever `load` returns is exactly the declarative meaning of
    the specification: challenges, schedule order, every task field (clients default 1, iterations / time periods /
    ramp-up inherited from the enclosing parallel when absent, name defaulting to the operation name, tags,
    completed-by flags, pass-through parameters), operations and corpora (targets with corpus / index / data-stream
    defaults, archive vs. file split). -/
theorem load_faithful (tbl : OpTable) (sel : Option Str) (user used : List Str) (s : Spec) (t : Track)
    (h : load tbl sel user used s = .ok t) : t = denote tbl sel s :=
  (loadSpec_ok (load_ok_inv h).2.2.1).1

/-- the documented rules, stated on a loaded track -/
structure WellFormed (t : Track) : Prop where
  tasksOk : ∀ c ∈ t.challenges, ∀ x ∈ c.leaves, TaskOk x
  taskNamesUnique : ∀ c ∈ t.challenges, (c.leaves.map (·.name)).Nodup
  challengeNamesUnique : (t.challenges.map (·.name)).Nodup
  oneDefault : t.challenges ≠ [] → (t.challenges.filter (·.default)).length = 1
  corpusNamesUnique : (t.corpora.map (·.name)).Nodup
  notIndicesAndDataStreams : ¬ (t.indices ≠ [] ∧ t.dataStreams ≠ [])
  docsOk : ∀ c ∈ t.corpora, ∀ x ∈ c.documents, DocOk t.indices.length t.dataStreams.length x

theorem elemSpecOk_leaves {tbl : OpTable} {ops : List OpSpec} {e : ElemSpec} (h : ElemSpecOk tbl ops e) :
    ∀ x ∈ (denoteElem tbl ops e).leaves, TaskOk x := by
  cases e with
  | task ts =>
    intro x hx
    simp only [denoteElem, Elem.leaves, List.mem_singleton] at hx
    subst hx
    exact h.1
  | parallel p =>
    intro x hx
    simp only [denoteElem, Elem.leaves] at hx
    exact ParallelOk.tasksOk h x hx

theorem denote_wellFormed {tbl : OpTable} {sel : Option Str} {s : Spec} {t : Track}
    (h : loadSpec tbl sel s = .ok t) : WellFormed (denote tbl sel s) := by
  obtain ⟨h0, hd, hc, hn, hdef⟩ := loadSpec_ok h
  subst h0
  refine ⟨?_, ?_, hn, hdef, ?_, ?_, ?_⟩
  · intro c hcm x hx
    simp only [denote, List.mem_map] at hcm
    obtain ⟨cs, hcs, rfl⟩ := hcm
    have hok := hc.each cs hcs
    simp only [Challenge.leaves, denoteChallenge, List.mem_flatMap, List.mem_map] at hx
    obtain ⟨e, ⟨es, hes, rfl⟩, hxe⟩ := hx
    exact elemSpecOk_leaves (hok.elems es hes) x hxe
  · intro c hcm
    simp only [denote, List.mem_map] at hcm
    obtain ⟨cs, hcs, rfl⟩ := hcm
    exact (hc.each cs hcs).tasksNodup
  · exact hd.corporaNodup
  · intro ⟨a, b⟩
    apply hd.notBoth
    simp only [denote] at a b
    exact ⟨by simpa using a, by simpa using b⟩
  · intro c hcm x hx
    have := hd.docs c hcm x hx
    simpa [denote] using this

/-- **load_ok_wellformed**: whatever is loaded obeys every documented rule that can be read off a loaded track. -/
theorem load_ok_wellformed (tbl : OpTable) (sel : Option Str) (user used : List Str) (s : Spec) (t : Track)
    (h : load tbl sel user used s = .ok t) : WellFormed t := by
  have hl := (load_ok_inv h).2.2.1
  have := denote_wellFormed hl
  rwa [← (loadSpec_ok hl).1] at this

/-! ## 2. Rejection: one theorem per rule -/

/-- with a supported version, a specification the specification reader does not accept is rejected with a
    `TrackSyntaxError` (schema or semantic) -/
theorem rejected_of_not_loadSpec {tbl : OpTable} {sel : Option Str} {user used : List Str} {s : Spec}
    (hv : VersionSupported s) (hno : ∀ t, loadSpec tbl sel s ≠ .ok t) :
    RejectedAsSyntaxError tbl sel user used s := by
  unfold RejectedAsSyntaxError load
  simp only
  have hv' : ¬ ((s.version.getD maxVersion < minVersion || maxVersion < s.version.getD maxVersion) = true) := by
    unfold VersionSupported at hv
    simp only [maxVersion, minVersion, hv]
    decide
  rw [if_neg hv']
  cases hs : schemaCheck s with
  | some r => exact ⟨.schema r, rfl, rfl⟩
  | none =>
    simp only
    cases hl : loadSpec tbl sel s with
    | error r => exact ⟨.syntax r, rfl, rfl⟩
    | ok t => exact absurd hl (hno t)

/-- a rule that every loaded track satisfies: if the meaning of the specification violates it, the specification is rejected -/
theorem rejected_of_not_wellFormed {tbl : OpTable} {sel : Option Str} {user used : List Str} {s : Spec}
    (hv : VersionSupported s) (hbad : ¬ WellFormed (denote tbl sel s)) :
    RejectedAsSyntaxError tbl sel user used s :=
  rejected_of_not_loadSpec hv (fun _ ht => hbad (denote_wellFormed ht))

variable (tbl : OpTable) (sel : Option Str) (user used : List Str) (s : Spec)

/-- duplicate task names within a challenge -/
theorem load_rejects_duplicate_task (hv : VersionSupported s)
    (hr : ∃ c ∈ (denote tbl sel s).challenges, ¬ (c.leaves.map (·.name)).Nodup) :
    RejectedAsSyntaxError tbl sel user used s := by
  obtain ⟨c, hc, hn⟩ := hr
  exact rejected_of_not_wellFormed hv (fun w => hn (w.taskNamesUnique c hc))

/-- duplicate challenge names -/
theorem load_rejects_duplicate_challenge (hv : VersionSupported s)
    (hr : ¬ ((denote tbl sel s).challenges.map (·.name)).Nodup) :
    RejectedAsSyntaxError tbl sel user used s :=
  rejected_of_not_wellFormed hv (fun w => hr w.challengeNamesUnique)

/-- duplicate corpus names -/
theorem load_rejects_duplicate_corpus (hv : VersionSupported s)
    (hr : ¬ ((denote tbl sel s).corpora.map (·.name)).Nodup) :
    RejectedAsSyntaxError tbl sel user used s :=
  rejected_of_not_wellFormed hv (fun w => hr w.corpusNamesUnique)

/-- duplicate operation names (name = explicit name, else the operation type) -/
theorem load_rejects_duplicate_operation (hv : VersionSupported s)
    (hr : ¬ (s.operations.map (fun o => o.name.getD (o.opType.getD []))).Nodup) :
    RejectedAsSyntaxError tbl sel user used s := by
  apply rejected_of_not_loadSpec hv
  intro t ht
  exact hr (loadSpec_ok ht).2.2.1.opsNodup

/-- several challenges, none of them marked as default -/
theorem load_rejects_no_default_challenge (hv : VersionSupported s)
    (hne : (denote tbl sel s).challenges ≠ []) (hr : ∀ c ∈ (denote tbl sel s).challenges, c.default = false) :
    RejectedAsSyntaxError tbl sel user used s := by
  apply rejected_of_not_wellFormed hv
  intro w
  have h1 := w.oneDefault hne
  have h0 : (denote tbl sel s).challenges.filter (·.default) = [] := by
    apply List.filter_eq_nil_iff.mpr
    intro c hc
    simp [hr c hc]
  rw [h0] at h1
  simp at h1

/-- several challenges marked as default -/
theorem load_rejects_several_default_challenges (hv : VersionSupported s)
    (hr : 2 ≤ ((denote tbl sel s).challenges.filter (·.default)).length) :
    RejectedAsSyntaxError tbl sel user used s := by
  apply rejected_of_not_wellFormed hv
  intro w
  have hne : (denote tbl sel s).challenges ≠ [] := by
    intro h0
    rw [h0] at hr
    simp at hr
  have := w.oneDefault hne
  omega

/-- a task (after inheriting the defaults of its parallel element) with warm-up iterations and a time period -/
theorem load_rejects_warmup_iterations_with_time_period (hv : VersionSupported s)
    (hr : ∃ c ∈ (denote tbl sel s).challenges, ∃ x ∈ c.leaves, x.warmupIterations.isSome ∧ x.timePeriod.isSome) :
    RejectedAsSyntaxError tbl sel user used s := by
  obtain ⟨c, hc, x, hx, hbad⟩ := hr
  exact rejected_of_not_wellFormed hv (fun w => (w.tasksOk c hc x hx).noWarmupIterWithTimePeriod hbad)

/-- a task with a warm-up time period and iterations -/
theorem load_rejects_warmup_time_period_with_iterations (hv : VersionSupported s)
    (hr : ∃ c ∈ (denote tbl sel s).challenges, ∃ x ∈ c.leaves, x.warmupTimePeriod.isSome ∧ x.iterations.isSome) :
    RejectedAsSyntaxError tbl sel user used s := by
  obtain ⟨c, hc, x, hx, hbad⟩ := hr
  exact rejected_of_not_wellFormed hv (fun w => (w.tasksOk c hc x hx).noWarmupTimeWithIterations hbad)

/-- a task with (warm-up) iterations and a ramp-up time period -/
theorem load_rejects_ramp_up_with_iterations (hv : VersionSupported s)
    (hr : ∃ c ∈ (denote tbl sel s).challenges, ∃ x ∈ c.leaves,
      (x.warmupIterations.isSome ∨ x.iterations.isSome) ∧ x.rampUpTimePeriod.isSome) :
    RejectedAsSyntaxError tbl sel user used s := by
  obtain ⟨c, hc, x, hx, hbad⟩ := hr
  exact rejected_of_not_wellFormed hv (fun w => (w.tasksOk c hc x hx).noRampUpWithIterations hbad)

/-- a task with a ramp-up time period but no warm-up time period -/
theorem load_rejects_ramp_up_without_warmup (hv : VersionSupported s)
    (hr : ∃ c ∈ (denote tbl sel s).challenges, ∃ x ∈ c.leaves,
      x.rampUpTimePeriod.isSome ∧ x.warmupTimePeriod = none) :
    RejectedAsSyntaxError tbl sel user used s := by
  obtain ⟨c, hc, x, hx, hru, hwu⟩ := hr
  apply rejected_of_not_wellFormed hv
  intro w
  obtain ⟨ru, hru'⟩ := Option.isSome_iff_exists.mp hru
  obtain ⟨wu, hwu', _⟩ := (w.tasksOk c hc x hx).rampUpCovered ru hru'
  rw [hwu] at hwu'
  simp at hwu'

/-- a task whose warm-up time period is shorter than its ramp-up time period -/
theorem load_rejects_ramp_up_exceeds_warmup (hv : VersionSupported s)
    (hr : ∃ c ∈ (denote tbl sel s).challenges, ∃ x ∈ c.leaves, ∃ ru wu,
      x.rampUpTimePeriod = some ru ∧ x.warmupTimePeriod = some wu ∧ wu < ru) :
    RejectedAsSyntaxError tbl sel user used s := by
  obtain ⟨c, hc, x, hx, ru, wu, hru, hwu, hlt⟩ := hr
  apply rejected_of_not_wellFormed hv
  intro w
  obtain ⟨wu', hwu', hle⟩ := (w.tasksOk c hc x hx).rampUpCovered ru hru
  rw [hwu] at hwu'
  injection hwu' with hwu'
  omega

/-- the `parallel` elements written in a specification -/
def parallelsOf (s : Spec) : List ParallelSpec :=
  (challengeSpecsOf s).flatMap (fun c => (c.schedule.getD []).filterMap (fun e =>
    match e with
    | .parallel p => some p
    | .task _ => none))

theorem parallelOk_of_loadSpec {tbl : OpTable} {sel : Option Str} {s : Spec} {t : Track}
    (ht : loadSpec tbl sel s = .ok t) {p : ParallelSpec} (hp : p ∈ parallelsOf s) : ParallelOk tbl s.operations p := by
  simp only [parallelsOf, List.mem_flatMap, List.mem_filterMap] at hp
  obtain ⟨c, hc, e, he, hpe⟩ := hp
  have hok := ((loadSpec_ok ht).2.2.1.each c hc).elems e he
  cases e with
  | task _ => simp at hpe
  | parallel p' =>
    simp only [Option.some.injEq] at hpe
    subst hpe
    exact hok

/-- a task inside a `parallel` element states a ramp-up time period that differs from the parallel's
    (in particular: any ramp-up on the task when the parallel has none) -/
theorem load_rejects_ramp_up_differs_from_parallel (hv : VersionSupported s)
    (hr : ∃ p ∈ parallelsOf s, ∃ ts ∈ p.tasks.getD [],
      ts.rampUpTimePeriod.isSome ∧ ts.rampUpTimePeriod ≠ p.rampUpTimePeriod) :
    RejectedAsSyntaxError tbl sel user used s := by
  obtain ⟨p, hp, ts, hts, hsome, hne⟩ := hr
  apply rejected_of_not_loadSpec hv
  intro t ht
  have hok := parallelOk_of_loadSpec ht hp
  have := hok.rampUp (denoteTask tbl s.operations (some p) ts) (List.mem_map.mpr ⟨ts, hts, rfl⟩)
  obtain ⟨ru, hru⟩ := Option.isSome_iff_exists.mp hsome
  simp only [denoteTask, hru, Option.bind_some] at this
  apply hne
  rw [hru]
  simpa using this

/-- the name a task ends up with: its `name`, else the name of its operation -/
def taskNameOf (tbl : OpTable) (s : Spec) (p : ParallelSpec) (ts : TaskSpec) : Str :=
  (denoteTask tbl s.operations (some p) ts).name

/-- `completed-by` names a task that does not exist in the parallel element -/
theorem load_rejects_unknown_completed_by (hv : VersionSupported s)
    (hr : ∃ p ∈ parallelsOf s, ∃ cb, p.completedBy = some cb ∧ cb ≠ [] ∧ cb ≠ ['a', 'n', 'y'] ∧
      ∀ ts ∈ p.tasks.getD [], taskNameOf tbl s p ts ≠ cb) :
    RejectedAsSyntaxError tbl sel user used s := by
  obtain ⟨p, hp, cb, hcb, hne, hany, hnone⟩ := hr
  apply rejected_of_not_loadSpec hv
  intro t ht
  have hok := parallelOk_of_loadSpec ht hp
  have htr : truthy p.completedBy = true := by
    rw [hcb]
    cases cb with
    | nil => exact absurd rfl hne
    | cons _ _ => rfl
  obtain ⟨x, hx, hx'⟩ := hok.completedBySome htr
  obtain ⟨ts, hts, rfl⟩ := List.mem_map.mp hx
  rcases hx' with h1 | h1
  · simp only [denoteTask, Option.bind_some, hcb, decide_eq_true_eq, Option.some.injEq] at h1
    exact hnone ts hts (by simp only [taskNameOf, denoteTask]; exact h1.symm)
  · simp only [denoteTask, Option.bind_some, hcb, decide_eq_true_eq, Option.some.injEq] at h1
    exact hany h1

/-- `completed-by` matches several tasks of the parallel element -/
theorem load_rejects_ambiguous_completed_by (hv : VersionSupported s)
    (hr : ∃ p ∈ parallelsOf s, ∃ cb, p.completedBy = some cb ∧ cb ≠ [] ∧
      2 ≤ ((p.tasks.getD []).filter (fun ts => decide (taskNameOf tbl s p ts = cb))).length) :
    RejectedAsSyntaxError tbl sel user used s := by
  obtain ⟨p, hp, cb, hcb, hne, htwo⟩ := hr
  apply rejected_of_not_loadSpec hv
  intro t ht
  have hok := parallelOk_of_loadSpec ht hp
  have htr : truthy p.completedBy = true := by
    rw [hcb]
    cases cb with
    | nil => exact absurd rfl hne
    | cons _ _ => rfl
  have h1 := hok.completedByOnce htr
  rw [List.filter_map, List.length_map] at h1
  have heq : (p.tasks.getD []).filter ((fun x => x.completesParent) ∘ denoteTask tbl s.operations (some p)) =
      (p.tasks.getD []).filter (fun ts => decide (taskNameOf tbl s p ts = cb)) := by
    apply List.filter_congr
    intro ts _
    simp only [Function.comp, taskNameOf, denoteTask, Option.bind_some, hcb, Option.some.injEq]
    by_cases hq : cb = ts.name.getD (denoteRef tbl s.operations (ts.operation.getD (OpRef.name []))).name
    · simp [hq]
    · have hq' : ¬ ts.name.getD (denoteRef tbl s.operations (ts.operation.getD (OpRef.name []))).name = cb :=
        fun h => hq h.symm
      simp [hq, hq']
  rw [heq] at h1
  omega

/-- `indices` together with `data-streams` -/
theorem load_rejects_indices_with_data_streams (hv : VersionSupported s)
    (hr : s.indices ≠ [] ∧ s.dataStreams ≠ []) :
    RejectedAsSyntaxError tbl sel user used s := by
  apply rejected_of_not_loadSpec hv
  intro t ht
  exact (loadSpec_ok ht).2.1.notBoth hr

/-- a document set targets a data stream although the track declares indices -/
theorem load_rejects_target_data_stream_with_indices (hv : VersionSupported s)
    (hr : s.indices ≠ [] ∧ ∃ c ∈ (denote tbl sel s).corpora, ∃ x ∈ c.documents, truthy x.targetDataStream = true) :
    RejectedAsSyntaxError tbl sel user used s := by
  obtain ⟨hi, c, hc, x, hx, hbad⟩ := hr
  apply rejected_of_not_wellFormed hv
  intro w
  apply (w.docsOk c hc x hx).noDsWithIndices
  refine ⟨hbad, ?_⟩
  simp only [denote, List.length_map]
  exact List.length_pos_iff.mpr hi

/-- a document set targets an index although the track declares data streams -/
theorem load_rejects_target_index_with_data_streams (hv : VersionSupported s)
    (hr : s.dataStreams ≠ [] ∧ ∃ c ∈ (denote tbl sel s).corpora, ∃ x ∈ c.documents, truthy x.targetIndex = true) :
    RejectedAsSyntaxError tbl sel user used s := by
  obtain ⟨hi, c, hc, x, hx, hbad⟩ := hr
  apply rejected_of_not_wellFormed hv
  intro w
  apply (w.docsOk c hc x hx).noIdxWithDs
  refine ⟨hbad, ?_⟩
  simp only [denote, List.length_map]
  exact List.length_pos_iff.mpr hi

/-- a document set with both a target data stream and a target type -/
theorem load_rejects_target_type_with_data_stream (hv : VersionSupported s)
    (hr : ∃ c ∈ (denote tbl sel s).corpora, ∃ x ∈ c.documents,
      truthy x.targetDataStream = true ∧ truthy x.targetType = true) :
    RejectedAsSyntaxError tbl sel user used s := by
  obtain ⟨c, hc, x, hx, hbad⟩ := hr
  exact rejected_of_not_wellFormed hv (fun w => (w.docsOk c hc x hx).noTypeWithDs hbad)

/-- a document set without action-and-meta-data lines and without any target -/
theorem load_rejects_missing_target (hv : VersionSupported s)
    (hr : ∃ c ∈ (denote tbl sel s).corpora, ∃ x ∈ c.documents,
      x.includesActionAndMetaData = false ∧ x.targetIndex = none ∧ x.targetDataStream = none) :
    RejectedAsSyntaxError tbl sel user used s := by
  obtain ⟨c, hc, x, hx, h1, h2⟩ := hr
  exact rejected_of_not_wellFormed hv (fun w => (w.docsOk c hc x hx).hasTarget h1 h2)

/-- a source format other than `bulk` -/
theorem load_rejects_unknown_source_format (hv : VersionSupported s)
    (hr : ∃ c ∈ (denote tbl sel s).corpora, ∃ x ∈ c.documents, x.sourceFormat ≠ bulk) :
    RejectedAsSyntaxError tbl sel user used s := by
  obtain ⟨c, hc, x, hx, hbad⟩ := hr
  exact rejected_of_not_wellFormed hv (fun w => hbad (w.docsOk c hc x hx).bulk)

/-- none or several of `challenge`, `challenges`, `schedule` -/
theorem load_rejects_no_or_several_challenge_elements (hv : VersionSupported s)
    (hr : (if s.schedule.isSome then 1 else 0) + (if s.challenge.isSome then 1 else 0) +
      (if s.challenges.isSome then 1 else 0) ≠ 1) :
    RejectedAsSyntaxError tbl sel user used s := by
  apply rejected_of_not_loadSpec hv
  intro t ht
  exact hr (loadSpec_ok ht).2.2.1.exactlyOne

/-- mandatory elements: an operation without type, a task without operation, a challenge without name or schedule,
    a parallel without tasks, a corpus without name or documents, a document set without file or count -/
theorem load_rejects_missing_mandatory_element (hv : VersionSupported s)
    (hr : (∃ o ∈ s.operations, o.opType = none) ∨
      (∃ c ∈ challengeSpecsOf s, c.name = none ∨ c.schedule = none) ∨
      (∃ p ∈ parallelsOf s, p.tasks = none ∨ ∃ ts ∈ p.tasks.getD [], ts.operation = none) ∨
      (∃ c ∈ challengeSpecsOf s, ∃ ts, ElemSpec.task ts ∈ c.schedule.getD [] ∧ ts.operation = none) ∨
      (∃ i ∈ s.indices, i.name = none) ∨ (∃ d ∈ s.dataStreams, d = none) ∨
      (∃ c ∈ s.corpora, c.name = none ∨ c.documents = none ∨
        ∃ d ∈ c.documents.getD [], d.sourceFile = none ∨ d.documentCount = none)) :
    RejectedAsSyntaxError tbl sel user used s := by
  apply rejected_of_not_loadSpec hv
  intro t ht
  obtain ⟨_, hd, hc, _, _⟩ := loadSpec_ok ht
  rcases hr with ⟨o, ho, h⟩ | ⟨c, hcm, h⟩ | ⟨p, hp, h⟩ | ⟨c, hcm, ts, hts, h⟩ | ⟨i, hi, h⟩ | ⟨d, hdm, h⟩ | ⟨c, hcm, h⟩
  · have := hc.opsTyped o ho; rw [h] at this; simp at this
  · have h1 := (hc.each c hcm).hasName
    have h2 := (hc.each c hcm).hasSchedule
    rcases h with h | h
    · rw [h] at h1; simp at h1
    · rw [h] at h2; simp at h2
  · have hok := parallelOk_of_loadSpec ht hp
    rcases h with h | ⟨ts, hts, h⟩
    · have := hok.hasTasks; rw [h] at this; simp at this
    · have := hok.operations ts hts; rw [h] at this; simp at this
  · have := ((hc.each c hcm).elems _ hts).2
    rw [h] at this; simp at this
  · have := hd.indexNames i hi; rw [h] at this; simp at this
  · have := hd.dataStreamNames d hdm; rw [h] at this; simp at this
  · obtain ⟨h1, h2, h3⟩ := hd.mandatory c hcm
    rcases h with h | h | ⟨d, hdm, h⟩
    · rw [h] at h1; simp at h1
    · rw [h] at h2; simp at h2
    · obtain ⟨g1, g2⟩ := h3 d hdm
      rcases h with h | h
      · rw [h] at g1; simp at g1
      · rw [h] at g2; simp at g2

/-- an unsupported track version is rejected with a `RallyError` before anything else is looked at -/
theorem load_rejects_unsupported_version (hr : ¬ VersionSupported s) :
    load tbl sel user used s = .error .version := by
  unfold load
  simp only
  have : (s.version.getD maxVersion < minVersion || maxVersion < s.version.getD maxVersion) = true := by
    unfold VersionSupported at hr
    rw [Bool.or_eq_true, decide_eq_true_eq, decide_eq_true_eq]
    simp only [maxVersion, minVersion]
    omega
  rw [if_pos this]

/-- a violation of the structural part of the schema (required / minItems / minimum) -/
theorem load_rejects_schema_violation (hv : VersionSupported s) (r : SchemaRule) (hr : schemaCheck s = some r) :
    load tbl sel user used s = .error (.schema r) := by
  unfold load
  simp only
  have hv' : ¬ ((s.version.getD maxVersion < minVersion || maxVersion < s.version.getD maxVersion) = true) := by
    unfold VersionSupported at hv
    simp only [maxVersion, minVersion, hv]
    decide
  rw [if_neg hv', hr]

/-- reserved track parameters: the track is never loaded; the error is a `TrackConfigError` unless the
    specification itself is already rejected -/
theorem load_rejects_reserved_params (hr : ∃ p ∈ user, p ∈ reservedParams) :
    ∃ e, load tbl sel user used s = .error e ∧
      (e = .reservedParams ∨ e = .version ∨ e.cls = .trackSyntax) ∧
      (∀ t, VersionSupported s → schemaCheck s = none → loadSpec tbl sel s = .ok t → e = .reservedParams) := by
  obtain ⟨p, hp, hres⟩ := hr
  have hany : (user.any (fun p => decide (p ∈ reservedParams))) = true :=
    List.any_eq_true.mpr ⟨p, hp, by simpa using hres⟩
  unfold load
  simp only
  split
  · exact ⟨_, rfl, Or.inr (Or.inl rfl), fun t hv => by
      rename_i hbad
      unfold VersionSupported at hv
      simp only [maxVersion, minVersion, hv] at hbad
      exact absurd hbad (by decide)⟩
  · cases hs : schemaCheck s with
    | some r => exact ⟨_, rfl, Or.inr (Or.inr rfl), fun t _ h => by simp at h⟩
    | none =>
      simp only
      cases hl : loadSpec tbl sel s with
      | error r => exact ⟨_, rfl, Or.inr (Or.inr rfl), fun t _ _ h => by simp at h⟩
      | ok t =>
        exact ⟨_, rfl, Or.inl rfl, fun _ _ _ _ => rfl⟩

/-- unused track parameters: the track is never loaded; the error is a `TrackConfigError` unless the
    specification itself is already rejected -/
theorem load_rejects_unused_params (hr : ∃ p ∈ user, p ∉ used) :
    ∃ e, load tbl sel user used s = .error e ∧
      (e.cls = .trackConfig ∨ e = .version ∨ e.cls = .trackSyntax) ∧
      (∀ t, VersionSupported s → schemaCheck s = none → loadSpec tbl sel s = .ok t → e.cls = .trackConfig) := by
  obtain ⟨p, hp, hres⟩ := hr
  have hany : (user.any (fun p => decide (p ∉ used))) = true :=
    List.any_eq_true.mpr ⟨p, hp, by simpa using hres⟩
  unfold load
  simp only
  split
  · exact ⟨_, rfl, Or.inr (Or.inl rfl), fun t hv => by
      rename_i hbad
      unfold VersionSupported at hv
      simp only [maxVersion, minVersion, hv] at hbad
      exact absurd hbad (by decide)⟩
  · cases hs : schemaCheck s with
    | some r => exact ⟨_, rfl, Or.inr (Or.inr rfl), fun t _ h => by simp at h⟩
    | none =>
      simp only
      cases hl : loadSpec tbl sel s with
      | error r => exact ⟨_, rfl, Or.inr (Or.inr rfl), fun t _ _ h => by simp at h⟩
      | ok t =>
        simp only
        split
        · exact ⟨_, rfl, Or.inl rfl, fun _ _ _ _ => rfl⟩
        · exact ⟨_, rfl, Or.inl rfl, fun _ _ _ _ => rfl⟩

/-- whatever the outcome, an error of `load` belongs to one of the three documented families -/
theorem load_error_classes (e : Err) (_h : load tbl sel user used s = .error e) :
    e.cls = .rallyError ∨ e.cls = .trackSyntax ∨ e.cls = .trackConfig := by
  cases e <;> simp [Err.cls]

/-! ### structural schema constraints, stated declaratively -/

/-- a specification that does not satisfy the (structural) schema constraints is rejected -/
theorem rejected_of_not_schemaOk {tbl : OpTable} {sel : Option Str} {user used : List Str} {s : Spec}
    (hv : VersionSupported s) (hbad : ¬ SchemaOk s) : RejectedAsSyntaxError tbl sel user used s := by
  cases hs : schemaCheck s with
  | none => exact absurd (schemaCheck_none hs) hbad
  | some r => exact ⟨.schema r, load_rejects_schema_violation tbl sel user used s hv r hs, rfl⟩

/-- one of the numbers whose schema minimum is 1 (clients, iterations, time-period) is 0 -/
def ZeroBelowMinimum (clients iterations timePeriod : Option Nat) : Prop :=
  clients = some 0 ∨ iterations = some 0 ∨ timePeriod = some 0

theorem not_zeroBelowMinimum {cl it tp : Option Nat}
    (h : (∀ n, cl = some n → 1 ≤ n) ∧ (∀ n, it = some n → 1 ≤ n) ∧ (∀ n, tp = some n → 1 ≤ n)) :
    ¬ ZeroBelowMinimum cl it tp := by
  rintro (h0 | h0 | h0)
  · have := h.1 0 h0; omega
  · have := h.2.1 0 h0; omega
  · have := h.2.2 0 h0; omega

/-- `clients`, `iterations` or `time-period` below the schema minimum on a schedule item, a parallel element or a
    task inside a parallel element -/
theorem load_rejects_schema_minimum_in_schedule (hv : VersionSupported s)
    (hr : ∃ c ∈ challengeSpecsOf s, ∃ e ∈ c.schedule.getD [],
      match e with
      | .task t => ZeroBelowMinimum t.clients t.iterations t.timePeriod
      | .parallel p => ZeroBelowMinimum p.clients p.iterations p.timePeriod ∨
          ∃ t ∈ p.tasks.getD [], ZeroBelowMinimum t.clients t.iterations t.timePeriod) :
    RejectedAsSyntaxError tbl sel user used s := by
  obtain ⟨c, hc, e, he, hbad⟩ := hr
  apply rejected_of_not_schemaOk hv
  intro w
  obtain ⟨_, sch, hsch, _, helems⟩ := w.challenges c hc
  rw [hsch] at he
  have hok := helems e he
  cases e with
  | task t => exact not_zeroBelowMinimum hok hbad
  | parallel p =>
    obtain ⟨n1, n2, n3, ts, hts, _, htasks⟩ := hok
    rcases hbad with hbad | ⟨t, ht, hbad⟩
    · exact not_zeroBelowMinimum ⟨n1, n2, n3⟩ hbad
    · rw [hts] at ht
      exact not_zeroBelowMinimum (htasks t ht).1 hbad

/-- `document-count`, `compressed-bytes` or `uncompressed-bytes` of 0 -/
theorem load_rejects_schema_minimum_in_corpora (hv : VersionSupported s)
    (hr : ∃ c ∈ s.corpora, ∃ d ∈ c.documents.getD [],
      d.documentCount = some 0 ∨ d.compressedBytes = some 0 ∨ d.uncompressedBytes = some 0) :
    RejectedAsSyntaxError tbl sel user used s := by
  obtain ⟨c, hc, d, hd, hbad⟩ := hr
  apply rejected_of_not_schemaOk hv
  intro w
  obtain ⟨_, ds, hds, _, hdocs⟩ := w.corpora c hc
  rw [hds] at hd
  obtain ⟨_, d1, d2, d3⟩ := hdocs d hd
  rcases hbad with h0 | h0 | h0
  · have := d1 0 h0; omega
  · have := d2 0 h0; omega
  · have := d3 0 h0; omega

/-- an empty `schedule`, `tasks`, `challenges` or `documents` array -/
theorem load_rejects_schema_empty_array (hv : VersionSupported s)
    (hr : (∃ c ∈ challengeSpecsOf s, c.schedule = some []) ∨ (∃ p ∈ parallelsOf s, p.tasks = some []) ∨
      s.challenges = some [] ∨ ∃ c ∈ s.corpora, c.documents = some []) :
    RejectedAsSyntaxError tbl sel user used s := by
  apply rejected_of_not_schemaOk hv
  intro w
  rcases hr with ⟨c, hc, h0⟩ | ⟨p, hp, h0⟩ | h0 | ⟨c, hc, h0⟩
  · obtain ⟨_, sch, hsch, hne, _⟩ := w.challenges c hc
    rw [h0] at hsch
    injection hsch with hsch
    exact hne hsch.symm
  · simp only [parallelsOf, List.mem_flatMap, List.mem_filterMap] at hp
    obtain ⟨c, hc, e, he, hpe⟩ := hp
    obtain ⟨_, sch, hsch, _, helems⟩ := w.challenges c hc
    rw [hsch] at he
    have hok := helems e he
    cases e with
    | task _ => simp at hpe
    | parallel p' =>
      simp only [Option.some.injEq] at hpe
      subst hpe
      obtain ⟨_, _, _, ts, hts, hne, _⟩ := hok
      rw [h0] at hts
      injection hts with hts
      exact hne hts.symm
  · exact w.challengesNonEmpty h0
  · obtain ⟨_, ds, hds, hne, _⟩ := w.corpora c hc
    rw [h0] at hds
    injection hds with hds
    exact hne hds.symm

/-- a value whose JSON kind does not match the `type` the schema declares for its position — in particular a float
    with zero fractional part (`4.0`, `1e3`, the result of a Jinja true division) or a boolean in an `integer`
    position — is rejected by schema validation (draft-04 semantics) -/
theorem load_rejects_schema_type (hv : VersionSupported s)
    (hr : ∃ p ∈ s.typed, typeOk p.1 p.2 = false) :
    load tbl sel user used s = .error (.schema .type) := by
  obtain ⟨p, hp, hbad⟩ := hr
  apply load_rejects_schema_violation tbl sel user used s hv
  unfold schemaCheck
  rw [if_pos]
  exact List.any_eq_true.mpr ⟨p, hp, by simp [hbad]⟩

/-- draft-04 `integer` accepts exactly the JSON integers, `number` every number, and booleans are never numbers -/
theorem typeOk_integer (k : JKind) : typeOk .integer k = true ↔ k = .int := by
  cases k <;> simp [typeOk]

theorem typeOk_number (k : JKind) : typeOk .number k = true ↔ (k = .int ∨ k = .intFloat ∨ k = .float) := by
  cases k <;> simp [typeOk]

/-! ## 3. Operation types -/

theorem fromHyphenated_of_nodup :
    ∀ {tbl : OpTable}, (tbl.map (·.hyphenated)).Nodup → ∀ r ∈ tbl, fromHyphenated tbl r.hyphenated = some r
  | [], _, r, hr => by simp at hr
  | x :: rest, hnd, r, hr => by
    rw [List.map_cons, List.nodup_cons] at hnd
    unfold fromHyphenated
    rw [List.find?_cons]
    rcases List.mem_cons.mp hr with rfl | hr
    · simp
    · have hne : x.hyphenated ≠ r.hyphenated := by
        intro heq
        exact hnd.1 (heq ▸ List.mem_map.mpr ⟨r, hr, rfl⟩)
      simp only [hne, decide_false]
      exact fromHyphenated_of_nodup hnd.2 r hr

/-- the generated table is well formed: hyphenated strings are pairwise distinct and are what the model of
    `to_hyphenated_string` computes from the member name -/
theorem optype_table_sane :
    (RallyGen.OpTypes.table.map (·.hyphenated)).Nodup ∧
      ∀ r ∈ RallyGen.OpTypes.table, toHyphenated r.member = r.hyphenated := by
  decide +kernel

/-- **optype_roundtrip**: for every `track.OperationType` member, `from_hyphenated_string(to_hyphenated_string(m)) = m`
    (model of both functions over the table enumerated from the code) -/
theorem optype_roundtrip :
    ∀ r ∈ RallyGen.OpTypes.table, fromHyphenated RallyGen.OpTypes.table (toHyphenated r.member) = some r := by
  intro r hr
  rw [optype_table_sane.2 r hr]
  exact fromHyphenated_of_nodup optype_table_sane.1 r hr

/-- the same round trip as observed on the real functions (column `fromResults` of the generated table):
    every member is reachable from its own hyphenated string -/
theorem optype_roundtrip_observed :
    RallyGen.OpTypes.fromResults = RallyGen.OpTypes.table.map (fun r => some r.member) := by
  decide +kernel

/-- the constants the model hard-codes are the ones of the code under test (schema minima, required lists,
    minItems, reserved parameter names, supported versions, archive extensions, the bulk source format) -/
theorem model_constants_agree :
    RallyGen.SchemaRules.minima = minima ∧
    RallyGen.SchemaRules.reserved = reservedParams ∧
    RallyGen.SchemaRules.minVersion = minVersion ∧ RallyGen.SchemaRules.maxVersion = maxVersion ∧
    RallyGen.SchemaRules.archiveFormats = archiveFormats ∧ RallyGen.SchemaRules.bulk = bulk ∧
    RallyGen.SchemaRules.minItems = [("schedule".toList, 1), ("parallel-tasks".toList, 1), ("challenges".toList, 1),
      ("documents".toList, 1)] ∧
    RallyGen.SchemaRules.required =
      [("schedule-item".toList, []), ("parallel".toList, ["tasks".toList]), ("parallel-task".toList, ["operation".toList]),
       ("challenge".toList, ["name".toList, "schedule".toList]), ("index".toList, ["name".toList]),
       ("data-stream".toList, ["name".toList]), ("corpus".toList, ["name".toList, "documents".toList]),
       ("document".toList, ["source-file".toList]), ("operation".toList, ["name".toList, "operation-type".toList]),
       ("track".toList, [])] := by
  decide +kernel

/-! ## 3b. The template layer: assembled source and visibility of track parameters -/
section Template
open TrackTemplate

/-- **assembled_source_is_expansion**: for every track directory `fs`, every main file and every nesting bound, what
    `TemplateSource.load_template_from_file` assembles is the main text with every `rally.collect` call replaced by the
    files its pattern selects relative to the directory of the fragment that contains the call, joined with ",\n",
    recursively (`expand`).  The model of the code (`replaceIncludes`) keeps the replacement dict keyed by the pattern
    *text*; the theorem holds because that dict lives for one call, i.e. one base directory. -/
theorem assembled_source_is_expansion (fs : FS) (fuel : Nat) (main : Fragment) :
    assemble fs fuel main = expand fs fuel [] main :=
  replaceIncludes_eq_expand fs fuel [] main

theorem concatOpt_singleton (v : Option TrackTemplate.Str) : concatOpt [v] = v := by
  cases v <;> simp [concatOpt]

/-- a collect call is resolved relative to the directory of the fragment it is written in: the same pattern text
    under two base directories selects each directory's own files -/
theorem collect_relative_to_including_fragment (fs : FS) (fuel : Nat) (base : Path) (p : TrackTemplate.Str) :
    replaceIncludes fs (fuel + 1) base [Piece.collect p] =
      expand fs fuel (base ++ (splitSlash p).dropLast) (joinFragments
        ((fs.filter (fun f => decide (f.dir = base ++ (splitSlash p).dropLast) &&
          nameMatches (fileGlobOf p) f.name)).map (·.content))) := by
  rw [replaceIncludes_eq_expand]
  simp only [expand, List.map_cons, List.map_nil, concatOpt_singleton, readGlobFiles, filesOf, dirOf]
  rfl

/-- `render_template` passes nothing to `render()`: every place sees exactly the environment globals -/
theorem sees_renderEnv (user internal builtins : Vars) (sc : Scope) (n : TrackTemplate.Str) :
    sees (renderEnv user internal builtins) sc n = lookupVar (renderEnv user internal builtins).globals n := by
  have hc : (renderEnv user internal builtins).context = [] := rfl
  unfold sees
  cases sc <;> simp only [hc, lookupVar, List.find?_nil, Option.map_none]

theorem lookupVar_globals (user internal builtins : Vars) (n : TrackTemplate.Str) (hi : lookupVar internal n = none) :
    lookupVar (renderEnv user internal builtins).globals n =
      match lookupVar user n with
      | some v => some v
      | none => lookupVar builtins n := by
  have hf : lookupVar (user.filter (fun kv => decide (lookupVar internal kv.1 = none))) n = lookupVar user n :=
    lookupVar_filter_of_ne (by intro kv _ hk; rw [hk, hi]; simp)
  simp only [renderEnv]
  rw [lookupVar_append, lookupVar_append, hi]
  simp only
  rw [hf]
  cases lookupVar user n <;> rfl

/-- **user_param_resolves_everywhere**: a user-supplied track parameter that is not one of Rally's internal variables
    resolves to the user's value at every kind of place a reference can occur in — the track file, included files,
    macros imported with or without context, parts included by the `rally.collect` macro, index bodies — even when it is
    named like one of Jinja's built-in globals -/
theorem user_param_resolves_everywhere (user internal builtins : Vars) (sc : Scope) (n v d : TrackTemplate.Str)
    (hu : lookupVar user n = some v) (hi : lookupVar internal n = none) :
    renderRef user internal builtins sc n d = v := by
  unfold renderRef
  rw [sees_renderEnv, lookupVar_globals _ _ _ _ hi, hu]
  rfl

/-- Rally's internal variables cannot be overridden by a user parameter, wherever the reference occurs -/
theorem internal_variable_wins (user internal builtins : Vars) (sc : Scope) (n v d : TrackTemplate.Str)
    (hi : lookupVar internal n = some v) : renderRef user internal builtins sc n d = v := by
  have hg : lookupVar (renderEnv user internal builtins).globals n = some v := by
    simp only [renderEnv]
    rw [lookupVar_append, lookupVar_append, hi]
  unfold renderRef
  rw [sees_renderEnv, hg]
  rfl

/-- a parameter nobody supplies (and that is no built-in name) falls back to the default written in the template -/
theorem unsupplied_param_defaults (user internal builtins : Vars) (sc : Scope) (n d : TrackTemplate.Str)
    (hu : lookupVar user n = none) (hi : lookupVar internal n = none) (hb : lookupVar builtins n = none) :
    renderRef user internal builtins sc n d = d := by
  unfold renderRef
  rw [sees_renderEnv, lookupVar_globals _ _ _ _ hi, hu]
  simp only [hb]
  rfl

/-- **exposes_iff_reads_from_context**: the names Jinja's scope analysis reports for a template (what
    `register_all_params_in_track` registers) are exactly the names the template reads from the render context at a place
    where neither an enclosing `for` / `macro` / `with` nor an earlier `set` / macro definition / import of the same
    scope has bound them -/
theorem exposes_iff_reads_from_context (tpl : List Stmt) (n : TrackTemplate.Str) :
    n ∈ undeclaredOf tpl ↔ TemplateReads tpl n :=
  ⟨readsContext_of_mem_undeclared _ _ tpl n, mem_undeclared_of_readsContext⟩

/-- **param_accepted_iff_read**: a user-supplied parameter passes the unused-parameter rule iff some template of the track
    (the assembled track file, an index body, …) reads that name from the render context, and the name is not one the
    parsing environment knows as a global -/
theorem param_accepted_iff_read (envGlobals : List TrackTemplate.Str) (templates : List (List Stmt))
    (user : List TrackTemplate.Str) (p : TrackTemplate.Str) (hp : p ∈ user) :
    p ∉ unusedParams envGlobals templates user ↔ ((∃ t ∈ templates, TemplateReads t p) ∧ p ∉ envGlobals) := by
  simp only [unusedParams, List.mem_filter, hp, true_and, decide_eq_true_eq, Classical.not_not, trackDefinedParams,
    List.mem_flatMap, registeredParams]
  constructor
  · rintro ⟨t, ht, hm, hg⟩
    exact ⟨⟨t, ht, (exposes_iff_reads_from_context t p).mp hm⟩, hg⟩
  · rintro ⟨⟨t, ht, hr⟩, hg⟩
    exact ⟨t, ht, (exposes_iff_reads_from_context t p).mpr hr, hg⟩

/-- a supplied parameter whose name the track only binds locally (`{% set %}`, loop variable, macro argument, …) or does
    not mention at all is never silently accepted: `load`, fed with the accounting of the templates, returns an error —
    a `TrackConfigError` unless the specification is already rejected for another reason -/
theorem load_rejects_param_not_read_from_context (tbl : OpTable) (sel : Option TrackSpec.Str) (s : Spec)
    (envGlobals : List TrackTemplate.Str) (templates : List (List Stmt)) (user : List TrackTemplate.Str)
    (hr : ∃ p ∈ user, ¬ ∃ t ∈ templates, TemplateReads t p) :
    ∃ e, load tbl sel user (trackDefinedParams envGlobals templates) s = .error e ∧
      (e.cls = .trackConfig ∨ e = .version ∨ e.cls = .trackSyntax) ∧
      (∀ t, VersionSupported s → schemaCheck s = none → loadSpec tbl sel s = .ok t → e.cls = .trackConfig) := by
  obtain ⟨p, hp, hno⟩ := hr
  apply load_rejects_unused_params
  refine ⟨p, hp, ?_⟩
  intro hmem
  apply hno
  simp only [trackDefinedParams, List.mem_flatMap, registeredParams, List.mem_filter] at hmem
  obtain ⟨t, ht, hm, _⟩ := hmem
  exact ⟨t, ht, (exposes_iff_reads_from_context t p).mp hm⟩

end Template

/-! ## 3c. Throughput targets: the grammar of `target-throughput` strings -/
section Throughput
open TrackThroughput

/-- the documented shape of a throughput string: a decimal number — digits, optionally a point followed by at least one
    digit; the digits before the point may be missing (`.5`) — one white-space character, a unit made of word characters
    and `/s` -/
structure ThroughputShape (m : Match) : Prop where
  intDigits : ∀ c ∈ m.intPart, isDigit c = true
  fracDigits : ∀ fp, m.fracPart = some fp → fp ≠ [] ∧ ∀ c ∈ fp, isDigit c = true
  someDigit : m.fracPart = none → m.intPart ≠ []
  unitShape : ∃ w, w ≠ [] ∧ (∀ c ∈ w, isWord c = true) ∧ m.unit = w ++ slashS

/-- **throughput_match_sound**: whatever `re.match(THROUGHPUT_PATTERN, s)` accepts starts with a well-formed number text,
    one white-space character and the unit — and the value the loader uses (`Match.decimal`) is the number that text denotes -/
theorem throughput_match_sound (s : TrackThroughput.Str) (m : Match) (h : matchThroughput s = some m) :
    ThroughputShape m ∧ ∃ ws rest, isSpace ws = true ∧ s = m.valueText ++ ws :: (m.unit ++ rest) := by
  unfold matchThroughput at h
  cases hn : matchNumber s with
  | none => rw [hn] at h; simp at h
  | some t =>
    obtain ⟨ip, fp, r⟩ := t
    rw [hn] at h
    simp only at h
    cases r with
    | nil => simp at h
    | cons ws r' =>
      simp only at h
      by_cases hws : isSpace ws = true
      · rw [if_pos hws] at h
        obtain ⟨w1, w2, w3⟩ := splitWhile_spec isWord r'
        split at h
        · rename_i tail htail
          by_cases hw : (splitWhile isWord r').1 ≠ []
          · rw [if_pos hw] at h
            injection h with h
            subst h
            -- the number part
            obtain ⟨d1, d2, d3⟩ := splitWhile_spec isDigit s
            unfold matchNumber at hn
            simp only at hn
            have hunit : r' = (splitWhile isWord r').1 ++ (slashS ++ tail) := by
              calc r' = (splitWhile isWord r').1 ++ (splitWhile isWord r').2 := w1
                _ = (splitWhile isWord r').1 ++ (slashS ++ tail) := by rw [htail]; rfl
            split at hn
            · rename_i r2 hr1
              obtain ⟨e1, e2, e3⟩ := splitWhile_spec isDigit r2
              by_cases hfp : (splitWhile isDigit r2).1 ≠ []
              · rw [if_pos hfp] at hn
                simp only [Option.some.injEq, Prod.mk.injEq] at hn
                obtain ⟨hip, hfpv, hr⟩ := hn
                subst hip hfpv
                refine ⟨⟨d2, ?_, by simp, ⟨_, hw, w2, rfl⟩⟩, ws, tail, hws, ?_⟩
                · intro fp' hfp'
                  simp only [Option.some.injEq] at hfp'
                  subst hfp'
                  exact ⟨hfp, e2⟩
                · have hs : s = (splitWhile isDigit s).1 ++ '.' :: ((splitWhile isDigit r2).1 ++
                      ws :: ((splitWhile isWord r').1 ++ (slashS ++ tail))) := by
                    rw [← hunit, ← hr, ← e1, ← hr1]
                    exact d1
                  simpa [Match.valueText, List.append_assoc] using hs
              · rw [if_neg hfp] at hn
                by_cases hip : (splitWhile isDigit s).1 ≠ []
                · rw [if_pos hip] at hn
                  simp only [Option.some.injEq, Prod.mk.injEq] at hn
                  obtain ⟨h1, h2, h3⟩ := hn
                  rw [hr1] at h3
                  injection h3 with h3 _
                  exact absurd h3.symm (isSpace_ne_dot hws)
                · rw [if_neg hip] at hn
                  simp at hn
            · rename_i hnd
              by_cases hip : (splitWhile isDigit s).1 ≠ []
              · rw [if_pos hip] at hn
                simp only [Option.some.injEq, Prod.mk.injEq] at hn
                obtain ⟨h1, h2, h3⟩ := hn
                subst h1 h2
                refine ⟨⟨d2, by simp, fun _ => hip, ⟨_, hw, w2, rfl⟩⟩, ws, tail, hws, ?_⟩
                have hs : s = (splitWhile isDigit s).1 ++ ws :: ((splitWhile isWord r').1 ++ (slashS ++ tail)) := by
                  rw [← hunit, ← h3]
                  exact d1
                simpa [Match.valueText, List.append_assoc] using hs
              · rw [if_neg hip] at hn
                simp at hn
          · rw [if_neg hw] at h
            simp at h
        · simp at h
      · rw [if_neg hws] at h
        simp at h

/-- **throughput_match_complete**: every string of the documented shape is accepted with exactly those parts — with or
    without digits before the point (`.5 ops/s`), whatever follows the unit -/
theorem throughput_match_complete (m : Match) (ws : Char) (rest : TrackThroughput.Str)
    (hm : ThroughputShape m) (hws : isSpace ws = true) :
    matchThroughput (m.valueText ++ ws :: (m.unit ++ rest)) = some m := by
  obtain ⟨w, hw1, hw2, hunit⟩ := hm.unitShape
  have hword : splitWhile isWord (m.unit ++ rest) = (w, slashS ++ rest) := by
    rw [hunit, List.append_assoc]
    apply splitWhile_append _ _ _ hw2
    intro c r hcr
    simp only [slashS, List.cons_append, List.nil_append, List.cons.injEq] at hcr
    rw [← hcr.1]
    exact slash_not_word
  have hnum : matchNumber (m.valueText ++ ws :: (m.unit ++ rest)) = some (m.intPart, m.fracPart, ws :: (m.unit ++ rest)) := by
    unfold matchNumber
    cases hfp : m.fracPart with
    | none =>
      have hsplit : splitWhile isDigit (m.intPart ++ ws :: (m.unit ++ rest)) = (m.intPart, ws :: (m.unit ++ rest)) := by
        apply splitWhile_append _ _ _ hm.intDigits
        intro c r hcr
        injection hcr with h1 _
        rw [← h1]
        exact isSpace_not_digit hws
      simp only [Match.valueText, hfp, hsplit]
      have hne := hm.someDigit hfp
      split
      · rename_i r2 heq
        injection heq with h1 _
        exact absurd h1 (isSpace_ne_dot hws)
      · rw [if_pos hne]
    | some fp =>
      obtain ⟨hfp1, hfp2⟩ := hm.fracDigits fp hfp
      have hsplit : splitWhile isDigit (m.intPart ++ '.' :: (fp ++ ws :: (m.unit ++ rest))) =
          (m.intPart, '.' :: (fp ++ ws :: (m.unit ++ rest))) := by
        apply splitWhile_append _ _ _ hm.intDigits
        intro c r hcr
        injection hcr with h1 _
        rw [← h1]
        exact dot_not_digit
      have hsplit2 : splitWhile isDigit (fp ++ ws :: (m.unit ++ rest)) = (fp, ws :: (m.unit ++ rest)) := by
        apply splitWhile_append _ _ _ hfp2
        intro c r hcr
        injection hcr with h1 _
        rw [← h1]
        exact isSpace_not_digit hws
      simp only [Match.valueText, hfp, List.append_assoc, List.cons_append, hsplit, hsplit2]
      rw [if_pos hfp1]
  unfold matchThroughput
  rw [hnum]
  simp only [hws, if_true, hword, slashS, List.cons_append, List.nil_append]
  rw [if_pos hw1]
  cases m
  simp_all [slashS]

/-- the value group never carries an exponent, a sign or a trailing point: such spellings are not throughput strings -/
theorem throughput_unit_ends_with_slash_s (s : TrackThroughput.Str) (m : Match) (h : matchThroughput s = some m) :
    ∃ w, m.unit = w ++ ['/', 's'] :=
  let ⟨wf, _⟩ := throughput_match_sound s m h
  let ⟨w, _, _, hu⟩ := wf.unitShape
  ⟨w, hu⟩

end Throughput

/-- the `type` declarations of the schema file the model relies on: every position the typed view `Spec` reads
    (a `Nat` field relies on `integer`, a `Str` field on `string`, …); template families, `cluster-settings` and the
    pass-through parameters of operations are not interpreted by the model -/
def reliedTypes : List (Str × Str) :=
  [
   ("#".toList, "object".toList),
   ("#/properties/description".toList, "string".toList),
   ("#/properties/version".toList, "integer".toList),
   ("#/properties/meta".toList, "object".toList),
   ("#/properties/indices".toList, "array".toList),
   ("#/properties/indices/items".toList, "object".toList),
   ("#/properties/indices/items/properties/name".toList, "string".toList),
   ("#/properties/indices/items/properties/types".toList, "array".toList),
   ("#/properties/data-streams".toList, "array".toList),
   ("#/properties/data-streams/items".toList, "object".toList),
   ("#/properties/data-streams/items/properties/name".toList, "string".toList),
   ("#/properties/corpora".toList, "array".toList),
   ("#/properties/corpora/items".toList, "object".toList),
   ("#/properties/corpora/items/properties/name".toList, "string".toList),
   ("#/properties/corpora/items/properties/base-url".toList, "string".toList),
   ("#/properties/corpora/items/properties/source-format".toList, "string".toList),
   ("#/properties/corpora/items/properties/includes-action-and-meta-data".toList, "boolean".toList),
   ("#/properties/corpora/items/properties/target-index".toList, "string".toList),
   ("#/properties/corpora/items/properties/target-data-stream".toList, "string".toList),
   ("#/properties/corpora/items/properties/target-type".toList, "string".toList),
   ("#/properties/corpora/items/properties/meta".toList, "object".toList),
   ("#/properties/corpora/items/properties/documents".toList, "array".toList),
   ("#/properties/corpora/items/properties/documents/items".toList, "object".toList),
   ("#/properties/corpora/items/properties/documents/items/properties/base-url".toList, "string".toList),
   ("#/properties/corpora/items/properties/documents/items/properties/source-file".toList, "string".toList),
   ("#/properties/corpora/items/properties/documents/items/properties/source-format".toList, "string".toList),
   ("#/properties/corpora/items/properties/documents/items/properties/document-count".toList, "integer".toList),
   ("#/properties/corpora/items/properties/documents/items/properties/includes-action-and-meta-data".toList, "boolean".toList),
   ("#/properties/corpora/items/properties/documents/items/properties/compressed-bytes".toList, "integer".toList),
   ("#/properties/corpora/items/properties/documents/items/properties/uncompressed-bytes".toList, "integer".toList),
   ("#/properties/corpora/items/properties/documents/items/properties/target-index".toList, "string".toList),
   ("#/properties/corpora/items/properties/documents/items/properties/target-type".toList, "string".toList),
   ("#/properties/corpora/items/properties/documents/items/properties/meta".toList, "object".toList),
   ("#/properties/operations".toList, "array".toList),
   ("#/properties/operations/items".toList, "object".toList),
   ("#/properties/operations/items/properties/name".toList, "string".toList),
   ("#/properties/operations/items/properties/meta".toList, "object".toList),
   ("#/properties/operations/items/properties/operation-type".toList, "string".toList),
   ("#/properties/challenges".toList, "array".toList),
   ("#/properties/dependencies".toList, "array".toList),
   ("#/properties/dependencies/items".toList, "string".toList),
   ("#/definitions/schedule".toList, "array".toList),
   ("#/definitions/schedule/items".toList, "object".toList),
   ("#/definitions/schedule/items/properties/parallel".toList, "object".toList),
   ("#/definitions/schedule/items/properties/parallel/properties/clients".toList, "integer".toList),
   ("#/definitions/schedule/items/properties/parallel/properties/warmup-iterations".toList, "integer".toList),
   ("#/definitions/schedule/items/properties/parallel/properties/iterations".toList, "integer".toList),
   ("#/definitions/schedule/items/properties/parallel/properties/ramp-up-time-period".toList, "integer".toList),
   ("#/definitions/schedule/items/properties/parallel/properties/warmup-time-period".toList, "integer".toList),
   ("#/definitions/schedule/items/properties/parallel/properties/time-period".toList, "integer".toList),
   ("#/definitions/schedule/items/properties/parallel/properties/completed-by".toList, "string".toList),
   ("#/definitions/schedule/items/properties/parallel/properties/tasks".toList, "array".toList),
   ("#/definitions/schedule/items/properties/parallel/properties/tasks/items".toList, "object".toList),
   ("#/definitions/schedule/items/properties/parallel/properties/tasks/items/properties/name".toList, "string".toList),
   ("#/definitions/schedule/items/properties/parallel/properties/tasks/items/properties/meta".toList, "object".toList),
   ("#/definitions/schedule/items/properties/parallel/properties/tasks/items/properties/clients".toList, "integer".toList),
   ("#/definitions/schedule/items/properties/parallel/properties/tasks/items/properties/warmup-iterations".toList, "integer".toList),
   ("#/definitions/schedule/items/properties/parallel/properties/tasks/items/properties/iterations".toList, "integer".toList),
   ("#/definitions/schedule/items/properties/parallel/properties/tasks/items/properties/ramp-up-time-period".toList, "integer".toList),
   ("#/definitions/schedule/items/properties/parallel/properties/tasks/items/properties/warmup-time-period".toList, "integer".toList),
   ("#/definitions/schedule/items/properties/parallel/properties/tasks/items/properties/time-period".toList, "integer".toList),
   ("#/definitions/schedule/items/properties/parallel/properties/tasks/items/properties/schedule".toList, "string".toList),
   ("#/definitions/schedule/items/properties/parallel/properties/tasks/items/properties/target-interval".toList, "number".toList),
   ("#/definitions/schedule/items/properties/parallel/properties/tasks/items/properties/ignore-response-error-level".toList, "string".toList),
   ("#/definitions/schedule/items/properties/parallel/properties/tasks/items/properties/run-on-serverless".toList, "boolean".toList),
   ("#/definitions/schedule/items/properties/name".toList, "string".toList),
   ("#/definitions/schedule/items/properties/meta".toList, "object".toList),
   ("#/definitions/schedule/items/properties/clients".toList, "integer".toList),
   ("#/definitions/schedule/items/properties/warmup-iterations".toList, "integer".toList),
   ("#/definitions/schedule/items/properties/iterations".toList, "integer".toList),
   ("#/definitions/schedule/items/properties/ramp-up-time-period".toList, "integer".toList),
   ("#/definitions/schedule/items/properties/warmup-time-period".toList, "integer".toList),
   ("#/definitions/schedule/items/properties/time-period".toList, "integer".toList),
   ("#/definitions/schedule/items/properties/target-interval".toList, "number".toList),
   ("#/definitions/challenge".toList, "object".toList),
   ("#/definitions/challenge/properties/name".toList, "string".toList),
   ("#/definitions/challenge/properties/default".toList, "boolean".toList),
   ("#/definitions/challenge/properties/meta".toList, "object".toList),
   ("#/definitions/challenge/properties/description".toList, "string".toList)
  ]

/-- the `$ref`s of the schema file (where `challenge`, `challenges`, `schedule` point to) -/
def reliedRefs : List (Str × Str) :=
  [
   ("#/properties/challenges/items".toList, "#/definitions/challenge".toList),
   ("#/properties/challenge".toList, "#/definitions/challenge".toList),
   ("#/properties/schedule".toList, "#/definitions/schedule".toList),
   ("#/definitions/challenge/properties/schedule".toList, "#/definitions/schedule".toList)
  ]

/-- **the schema file declares what the model assumes**: the draft (draft-04: `integer` never matches a float, so
    `4.0` / `1e3` / the result of a Jinja true division are rejected in integer positions — `typeOk` models exactly that
    draft), the declared type of every position the model relies on, and the `$ref`s.  A change of the schema file that
    alters what is accepted breaks this obligation. -/
theorem schema_types_agree :
    RallyGen.SchemaRules.draft = "http://json-schema.org/draft-04/schema#".toList ∧
    (∀ p ∈ reliedTypes, p ∈ RallyGen.SchemaRules.types) ∧
    RallyGen.SchemaRules.refs = reliedRefs := by
  decide +kernel

/-! ## 4. Non-vacuity: concrete specifications for every theorem above -/
namespace Examples

def tblS : OpTable := [⟨"Bulk".toList, "bulk".toList, false⟩, ⟨"ForceMerge".toList, "force-merge".toList, true⟩]

def mkTask (op : String) : TaskSpec :=
  { operation := some (.name op.toList), name := none, tags := .absent, metaData := [], warmupIterations := none,
    iterations := none, warmupTimePeriod := none, timePeriod := none, rampUpTimePeriod := none, clients := none,
    schedule := none, params := [] }

def mkPar (tasks : List TaskSpec) : ParallelSpec :=
  { warmupIterations := none, iterations := none, warmupTimePeriod := none, timePeriod := none,
    rampUpTimePeriod := none, clients := none, completedBy := none, tasks := some tasks }

def mkChallenge (name : String) (sch : List ElemSpec) : ChallengeSpec :=
  { name := some name.toList, description := none, userInfo := none, parameters := [], metaData := [],
    default := none, schedule := some sch }

def mkSpec (sch : List ElemSpec) : Spec :=
  { version := some 2, description := none, metaData := [], indices := [], dataStreams := [], corpora := [],
    operations := [], parameters := [], schedule := some sch, challenge := none, challenges := none,
    dependencies := [], typed := [] }

def mkDoc (file : String) : DocSpec :=
  { baseUrl := none, sourceFormat := none, sourceFile := some file.toList, documentCount := some 10,
    compressedBytes := none, uncompressedBytes := none, metaData := [], includesActionAndMetaData := none,
    targetType := none, targetDataStream := none, targetIndex := none }

def mkCorpus (name : String) (docs : List DocSpec) : CorpusSpec :=
  { name := some name.toList, metaData := [], baseUrl := none, sourceFormat := none,
    includesActionAndMetaData := none, targetIndex := none, targetDataStream := none, targetType := none,
    documents := some docs }

def opBulk : OpSpec :=
  { name := some "index-append".toList, opType := some "bulk".toList, metaData := [], paramSource := none,
    includeInReporting := none, params := [("bulk-size".toList, "5000".toList)] }

/-- a valid track: a declared operation, a leaf task, a parallel element whose tasks inherit the time period and
    one of which completes it, one index with one type and a corpus relying on both defaults -/
def good : Spec :=
  { mkSpec [ .task { mkTask "index-append" with clients := some 8, warmupTimePeriod := some 120, rampUpTimePeriod := some 60 },
             .parallel { mkPar [ { mkTask "force-merge" with name := some "fm".toList },
                                 { mkTask "index-append" with name := some "again".toList, timePeriod := some 5 } ] with
                         timePeriod := some 60, completedBy := some "fm".toList } ] with
    operations := [opBulk],
    indices := [{ name := some "logs".toList, types := ["doc".toList], body := none }],
    corpora := [mkCorpus "c1" [mkDoc "docs.json.bz2"]] }

/-- `load` accepts it and returns its meaning -/
example : load tblS none [] [] good = .ok (denote tblS none good) := by decide +kernel

/-- … and the meaning is the expected one: inherited and overridden time periods, completed-by flag, default task
    name = operation name, `include-in-reporting` derived from the admin flag, archive split, target defaults -/
example :
    (denote tblS none good).challenges.map (fun c => c.leaves.map (fun t => (t.name, t.operation.type, t.timePeriod))) =
      [[("index-append".toList, "bulk".toList, none), ("fm".toList, "force-merge".toList, some 60),
        ("again".toList, "bulk".toList, some 5)]] := by decide +kernel
example :
    (denote tblS none good).challenges.map (fun c => c.leaves.map (fun t =>
      (t.operation.includeInReporting, t.clients, t.completesParent))) =
      [[(some true, 8, false), (some false, 1, true), (some true, 1, false)]] := by decide +kernel
example :
    (denote tblS none good).corpora.map (fun c => c.documents.map (fun d => (d.documentFile, d.documentArchive))) =
      [[("docs.json".toList, some "docs.json.bz2".toList)]] ∧
    (denote tblS none good).corpora.map (fun c => c.documents.map (fun d => (d.targetIndex, d.targetType))) =
      [[(some "logs".toList, some "doc".toList)]] := by decide +kernel

example : WellFormed (denote tblS none good) :=
  load_ok_wellformed tblS none [] [] good _ (by decide +kernel)

example : VersionSupported good := by decide +kernel

/-! each rule: a specification violating exactly that rule satisfies the hypothesis of the theorem -/

def dupTask : Spec := mkSpec [.task (mkTask "force-merge"), .parallel (mkPar [mkTask "bulk", mkTask "force-merge"])]
example : RejectedAsSyntaxError tblS none [] [] dupTask :=
  load_rejects_duplicate_task tblS none [] [] dupTask (by decide +kernel) (by decide +kernel)
example : load tblS none [] [] dupTask = .error (.syntax .dupTask) := by decide +kernel

def mkChallengeD (name : String) (d : Option Bool) : ChallengeSpec :=
  { name := some name.toList, description := none, userInfo := none, parameters := [], metaData := [],
    default := d, schedule := some [ElemSpec.task (mkTask "bulk")] }

def twoChallenges (d1 d2 : Option Bool) (n2 : String) : Spec :=
  { mkSpec [] with
    schedule := none
    challenges := some [mkChallengeD "a" d1, mkChallengeD n2 d2] }

example : RejectedAsSyntaxError tblS none [] [] (twoChallenges (some true) none "a") :=
  load_rejects_duplicate_challenge tblS none [] [] _ (by decide +kernel) (by decide +kernel)
example : RejectedAsSyntaxError tblS none [] [] (twoChallenges none (some false) "b") :=
  load_rejects_no_default_challenge tblS none [] [] _ (by decide +kernel) (by decide +kernel) (by decide +kernel)
example : RejectedAsSyntaxError tblS none [] [] (twoChallenges (some true) (some true) "b") :=
  load_rejects_several_default_challenges tblS none [] [] _ (by decide +kernel) (by decide +kernel)
example : load tblS (some "b".toList) [] [] (twoChallenges (some true) none "b") =
      .ok (denote tblS (some "b".toList) (twoChallenges (some true) none "b")) ∧
    (denote tblS (some "b".toList) (twoChallenges (some true) none "b")).challenges.map
      (fun c => (c.name, c.default, c.selected)) = [("a".toList, true, false), ("b".toList, false, true)] := by
  decide +kernel

def dupCorpus : Spec := { good with corpora := [mkCorpus "c1" [mkDoc "a.json"], mkCorpus "c1" [mkDoc "b.json"]] }
example : RejectedAsSyntaxError tblS none [] [] dupCorpus :=
  load_rejects_duplicate_corpus tblS none [] [] _ (by decide +kernel) (by decide +kernel)

def dupOp : Spec := { good with operations := [opBulk, { opBulk with name := none, opType := some "index-append".toList }] }
example : RejectedAsSyntaxError tblS none [] [] dupOp :=
  load_rejects_duplicate_operation tblS none [] [] _ (by decide +kernel) (by decide +kernel)

/-- warm-up iterations on the task, time period inherited from the parallel element -/
def mixInherited : Spec :=
  mkSpec [.parallel { mkPar [{ mkTask "bulk" with warmupIterations := some 5 }] with timePeriod := some 60 }]
example : RejectedAsSyntaxError tblS none [] [] mixInherited :=
  load_rejects_warmup_iterations_with_time_period tblS none [] [] _ (by decide +kernel) (by decide +kernel)

def mix2 : Spec := mkSpec [.task { mkTask "bulk" with warmupTimePeriod := some 5, iterations := some 60 }]
example : RejectedAsSyntaxError tblS none [] [] mix2 :=
  load_rejects_warmup_time_period_with_iterations tblS none [] [] _ (by decide +kernel) (by decide +kernel)

def ruIter : Spec := mkSpec [.task { mkTask "bulk" with rampUpTimePeriod := some 5, iterations := some 60 }]
example : RejectedAsSyntaxError tblS none [] [] ruIter :=
  load_rejects_ramp_up_with_iterations tblS none [] [] _ (by decide +kernel) (by decide +kernel)

def ruNoWarmup : Spec := mkSpec [.task { mkTask "bulk" with rampUpTimePeriod := some 0, timePeriod := some 60 }]
example : RejectedAsSyntaxError tblS none [] [] ruNoWarmup :=
  load_rejects_ramp_up_without_warmup tblS none [] [] _ (by decide +kernel) (by decide +kernel)

def ruExceeds : Spec := mkSpec [.task { mkTask "bulk" with rampUpTimePeriod := some 11, warmupTimePeriod := some 10 }]
example : RejectedAsSyntaxError tblS none [] [] ruExceeds :=
  load_rejects_ramp_up_exceeds_warmup tblS none [] [] _ (by decide +kernel)
    ⟨_, List.mem_cons_self, _, List.mem_cons_self, 11, 10, rfl, rfl, by decide⟩
/-- boundary: warm-up equal to ramp-up is accepted -/
example : (load tblS none [] [] (mkSpec [.task { mkTask "bulk" with rampUpTimePeriod := some 10, warmupTimePeriod := some 10 }])).isOk = true := by
  decide +kernel

def ruDiffers : Spec :=
  mkSpec [.parallel (mkPar [{ mkTask "bulk" with rampUpTimePeriod := some 5, warmupTimePeriod := some 10 }])]
example : RejectedAsSyntaxError tblS none [] [] ruDiffers :=
  load_rejects_ramp_up_differs_from_parallel tblS none [] [] _ (by decide +kernel) (by decide +kernel)

def cbUnknown : Spec := mkSpec [.parallel { mkPar [mkTask "bulk"] with completedBy := some "nobody".toList }]
example : RejectedAsSyntaxError tblS none [] [] cbUnknown :=
  load_rejects_unknown_completed_by tblS none [] [] _ (by decide +kernel) (by decide +kernel)

def cbTwice : Spec :=
  mkSpec [.parallel { mkPar [{ mkTask "bulk" with name := some "x".toList }, { mkTask "force-merge" with name := some "x".toList }] with
                      completedBy := some "x".toList }]
example : RejectedAsSyntaxError tblS none [] [] cbTwice :=
  load_rejects_ambiguous_completed_by tblS none [] [] _ (by decide +kernel) (by decide +kernel)

/-- a quirk of the current code that the model mirrors: with `completed-by: any`, a task *named* `any` that is not the
    first task of the parallel element makes the loader report "multiple tasks" although only one task has that name -/
example : load tblS none [] [] (mkSpec [.parallel { mkPar [mkTask "bulk", { mkTask "force-merge" with name := some "any".toList }] with
    completedBy := some "any".toList }]) = .error (.syntax .completedByMultiple) := by decide +kernel

def both : Spec := { good with dataStreams := [some "ds".toList] }
example : RejectedAsSyntaxError tblS none [] [] both :=
  load_rejects_indices_with_data_streams tblS none [] [] _ (by decide +kernel) (by decide +kernel)

def dsWithIdx : Spec := { good with corpora := [mkCorpus "c" [{ mkDoc "a.json" with targetDataStream := some "ds".toList }]] }
example : RejectedAsSyntaxError tblS none [] [] dsWithIdx :=
  load_rejects_target_data_stream_with_indices tblS none [] [] _ (by decide +kernel) (by decide +kernel)

def idxWithDs : Spec :=
  { good with indices := [], dataStreams := [some "ds".toList],
              corpora := [mkCorpus "c" [{ mkDoc "a.json" with targetIndex := some "i".toList }]] }
example : RejectedAsSyntaxError tblS none [] [] idxWithDs :=
  load_rejects_target_index_with_data_streams tblS none [] [] _ (by decide +kernel) (by decide +kernel)

def typeWithDs : Spec :=
  { good with indices := [], dataStreams := [some "ds".toList],
              corpora := [mkCorpus "c" [{ mkDoc "a.json" with targetType := some "t".toList }]] }
example : RejectedAsSyntaxError tblS none [] [] typeWithDs :=
  load_rejects_target_type_with_data_stream tblS none [] [] _ (by decide +kernel) (by decide +kernel)

def noTarget : Spec := { good with indices := [] }
example : RejectedAsSyntaxError tblS none [] [] noTarget :=
  load_rejects_missing_target tblS none [] [] _ (by decide +kernel) (by decide +kernel)

def csv : Spec := { good with corpora := [{ mkCorpus "c" [mkDoc "a.json"] with sourceFormat := some "csv".toList }] }
example : RejectedAsSyntaxError tblS none [] [] csv :=
  load_rejects_unknown_source_format tblS none [] [] _ (by decide +kernel) (by decide +kernel)

example : RejectedAsSyntaxError tblS none [] [] { good with schedule := none } :=
  load_rejects_no_or_several_challenge_elements tblS none [] [] _ (by decide +kernel) (by decide +kernel)
example : RejectedAsSyntaxError tblS none [] [] { good with challenge := some (mkChallenge "c" [.task (mkTask "bulk")]) } :=
  load_rejects_no_or_several_challenge_elements tblS none [] [] _ (by decide +kernel) (by decide +kernel)

/-- an inline operation without type is only caught by the reader (the schema leaves `operation` open) -/
example : RejectedAsSyntaxError tblS none [] [] { good with corpora := [mkCorpus "c" [{ mkDoc "a.json" with documentCount := none }]] } :=
  load_rejects_missing_mandatory_element tblS none [] [] _ (by decide +kernel)
    (Or.inr (Or.inr (Or.inr (Or.inr (Or.inr (Or.inr (by decide +kernel)))))))

example : load tblS none [] [] { good with version := some 1 } = .error .version :=
  load_rejects_unsupported_version tblS none [] [] _ (by decide +kernel)
example : load tblS none [] [] { good with version := some 3 } = .error .version :=
  load_rejects_unsupported_version tblS none [] [] _ (by decide +kernel)

example : load tblS none [] [] (mkSpec [.task { mkTask "bulk" with clients := some 0 }]) = .error (.schema .minimum) :=
  load_rejects_schema_violation tblS none [] [] _ (by decide +kernel) _ (by decide +kernel)
example : RejectedAsSyntaxError tblS none [] [] (mkSpec [.parallel (mkPar [{ mkTask "bulk" with iterations := some 0 }])]) :=
  load_rejects_schema_minimum_in_schedule tblS none [] [] _ (by decide +kernel)
    ⟨_, List.mem_cons_self, _, List.mem_cons_self, Or.inr ⟨_, List.mem_cons_self, Or.inr (Or.inl rfl)⟩⟩
example : RejectedAsSyntaxError tblS none [] [] { good with corpora := [mkCorpus "c" [{ mkDoc "a.json" with documentCount := some 0 }]] } :=
  load_rejects_schema_minimum_in_corpora tblS none [] [] _ (by decide +kernel) (by decide +kernel)
example : RejectedAsSyntaxError tblS none [] [] (mkSpec [.parallel (mkPar [])]) :=
  load_rejects_schema_empty_array tblS none [] [] _ (by decide +kernel) (by decide +kernel)

/-- `"clients": 4.0` in an otherwise valid track -/
example : load tblS none [] [] { good with typed := [(.string, .str), (.integer, .int), (.integer, .intFloat)] } =
    .error (.schema .type) :=
  load_rejects_schema_type tblS none [] [] _ (by decide +kernel) (by decide +kernel)
example : load tblS none [] [] { good with typed := [(.string, .str), (.integer, .int), (.number, .intFloat), (.boolean, .bool)] } =
    .ok (denote tblS none good) := by decide +kernel

example : load tblS none ["now".toList] ["now".toList] good = .error .reservedParams := by decide +kernel
example : ∃ p ∈ ["now".toList], p ∈ reservedParams := by decide +kernel
example : load tblS none ["bulk_size".toList, "x".toList] ["bulk_size".toList] good = .error .unusedParams := by decide +kernel
example : load tblS none ["bulk_size".toList] ["bulk_size".toList, "y".toList] good = .ok (denote tblS none good) := by
  decide +kernel

/-- the operation-type table is not empty and contains administrative and non-administrative members -/
example : 0 < RallyGen.OpTypes.table.length ∧ RallyGen.OpTypes.table.any (·.admin) = true ∧
    RallyGen.OpTypes.table.any (fun r => !r.admin) = true ∧
    fromHyphenated RallyGen.OpTypes.table "no-such-operation-type".toList = none := by decide +kernel


/-! the template layer -/
section TemplateExamples
open TrackTemplate

/-- two challenge directories whose `challenge.json` both say `tasks/*.json` -/
def fsNested : FS :=
  [ ⟨["challenges".toList, "a".toList], "challenge.json".toList, [.text "A[".toList, .collect "tasks/*.json".toList, .text "]".toList]⟩,
    ⟨["challenges".toList, "b".toList], "challenge.json".toList, [.text "B[".toList, .collect "tasks/*.json".toList, .text "]".toList]⟩,
    ⟨["challenges".toList, "a".toList, "tasks".toList], "t1.json".toList, [.text "a1".toList]⟩,
    ⟨["challenges".toList, "a".toList, "tasks".toList], "t2.json".toList, [.text "a2".toList]⟩,
    ⟨["challenges".toList, "a".toList, "tasks".toList], ".hidden.json".toList, [.text "no".toList]⟩,
    ⟨["challenges".toList, "b".toList, "tasks".toList], "t1.json".toList, [.text "b1".toList]⟩ ]

/-- the same pattern text is answered from each directory's own files -/
example : assemble fsNested 3 [.collect "challenges/a/*.json".toList, .text ";".toList, .collect "challenges/b/*.json".toList] =
    some "A[a1,\na2];B[b1]".toList := by decide +kernel
example : assemble fsNested 1 [.collect "challenges/a/*.json".toList] = none := by decide +kernel

example : renderRef [("bulk_size".toList, "250".toList)] [("build_flavor".toList, "default".toList)] []
    .collectedPlain "bulk_size".toList "5000".toList = "250".toList :=
  user_param_resolves_everywhere _ _ _ _ _ _ _ (by decide +kernel) (by decide +kernel)
example : renderRef [("range".toList, "7".toList)] [] [("range".toList, "<class 'range'>".toList)]
    .importedPlain "range".toList "d".toList = "7".toList :=
  user_param_resolves_everywhere _ _ _ _ _ _ _ (by decide +kernel) (by decide +kernel)
example : renderRef [("build_flavor".toList, "x".toList)] [("build_flavor".toList, "default".toList)] []
    .importedPlain "build_flavor".toList "d".toList = "default".toList :=
  internal_variable_wins _ _ _ _ _ _ _ (by decide +kernel)
example : renderRef [("other".toList, "x".toList)] [("build_flavor".toList, "default".toList)] []
    .main "bulk_size".toList "5000".toList = "5000".toList :=
  unsupplied_param_defaults _ _ _ _ _ _ (by decide +kernel) (by decide +kernel) (by decide +kernel)


/-- `{% set index_count = 3 %}` … `{{ index_count }}`, a loop over `i`, a macro with argument `n`, and
    `{% set clients = clients | default(8) %}`: only `clients` and `bulk_size` are read from the context -/
def tplLocals : List Stmt :=
  [ .set "index_count".toList [], .read "index_count".toList,
    .forLoop "i".toList ["index_count".toList] [.read "i".toList, .read "loop".toList, .read "bulk_size".toList],
    .macro "name_of".toList ["n".toList] [.read "n".toList],
    .set "clients".toList ["clients".toList], .read "clients".toList, .read "i".toList ]

theorem undeclared_tplLocals : undeclaredOf tplLocals = ["bulk_size".toList, "clients".toList, "i".toList] := by
  simp +decide [tplLocals, undeclaredOf, undeclared, storesOf, bindsAfter, free, loopName]

/-- a nested scope is resolved against the complete symbol table of its enclosing scope: `{% with … %}{{ i }}{% endwith %}`
    followed by `{% set i = … %}` does not read `i` from the context (Jinja leaves it undefined there) -/
example : undeclaredOf [.withBlock "n".toList [] [.read "i".toList], .set "i".toList ["shards".toList], .read "i".toList] =
    ["shards".toList] := by
  simp +decide [undeclaredOf, undeclared, storesOf, bindsAfter, free]
/-- … whereas at the scope's own level a load before the binding is a context read -/
example : undeclaredOf [.read "i".toList, .set "i".toList []] = ["i".toList] := by
  simp +decide [undeclaredOf, undeclared, storesOf, bindsAfter, free]
example : unusedParams ["range".toList] [tplLocals] ["index_count".toList, "bulk_size".toList, "n".toList, "clients".toList] =
    ["index_count".toList, "n".toList] := by
  simp +decide [unusedParams, trackDefinedParams, registeredParams, undeclared_tplLocals]
example : ¬ ∃ t ∈ [tplLocals], TemplateReads t "index_count".toList := by
  rintro ⟨t, ht, hr⟩
  simp only [List.mem_singleton] at ht
  subst ht
  have := (exposes_iff_reads_from_context tplLocals "index_count".toList).mpr hr
  rw [undeclared_tplLocals] at this
  revert this
  decide +kernel

end TemplateExamples


/-! throughput strings -/
section ThroughputExamples
open TrackThroughput

example : matchThroughput ".5 ops/s".toList = some ⟨[], some "5".toList, "ops/s".toList⟩ := by decide +kernel
example : matchThroughput "12.50 MB/s trailing".toList = some ⟨"12".toList, some "50".toList, "MB/s".toList⟩ := by decide +kernel
example : matchThroughput "5000 docs/s".toList = some ⟨"5000".toList, none, "docs/s".toList⟩ := by decide +kernel
example : matchThroughput "5. ops/s".toList = none ∧ matchThroughput "1e3 ops/s".toList = none ∧
    matchThroughput " 5 ops/s".toList = none ∧ matchThroughput "5  ops/s".toList = none ∧
    matchThroughput "5 ops".toList = none ∧ matchThroughput "5 /s".toList = none := by decide +kernel
example : (⟨[], some "25".toList, "pages/s".toList⟩ : Match).decimal = 1/4 := by decide +kernel
example : matchThroughput (".25".toList ++ '\t' :: ("pages/s".toList ++ "!".toList)) = some ⟨[], some "25".toList, "pages/s".toList⟩ :=
  throughput_match_complete ⟨[], some "25".toList, "pages/s".toList⟩ '\t' "!".toList
    ⟨by decide +kernel, by decide +kernel, by decide +kernel, ⟨"pages".toList, by decide +kernel, by decide +kernel, rfl⟩⟩ (by decide +kernel)
example : targetThroughput (.str ".5 ops/s".toList) .null = .ok (some (1/2, "ops/s".toList)) := by decide +kernel
example : targetThroughput (.int 10) (.int 2) = .error () ∧ targetThroughput .null (.int 4) = .ok (some (1/4, "ops/s".toList)) ∧
    targetThroughput (.str "0 ops/s".toList) .null = .ok none ∧ targetThroughput (.bool true) .null = .error () := by decide +kernel

end ThroughputExamples

end Examples

end C10
