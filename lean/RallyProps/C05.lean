import RallyModel.Exec
import RallyProofs.Exec
import RallyProofs.ExecDbl
import RallyModel.Worker
import RallyProofs.Worker
/-!
# C05 — iterations, time periods, warm-up, progress and pacing follow the task spec

Property theorems only (helper lemmas: `RallyProofs/Exec.lean`).  As in C04, `R : Run` bundles all
inputs of one client's run (task parameters, raw target throughput / interval, scheduler name, client
indices, ramp-up, events, the whole per-request plan) with the model's output in exact arithmetic;
every theorem holds for every `R`.
-/
namespace C05
open Exec

/-! ## which loop control `schedule_for` builds -/

/-- iterations given, no time period ⇒ `IterationBased(warmup-iterations or 0, iterations)` -/
theorem loop_choice_iterations (r : Rat → Rat) (t : TaskP) (hc inf : Bool) (clock : Rat) (n : Nat)
    (hw : t.warmupT = none) (hp : t.period = none) (hi : t.iters = some n) (hn : n ≠ 0) :
    scheduleLoop r t hc inf clock = .iter (t.warmupIt.getD 0) (some (t.warmupIt.getD 0 + n)) 0 := by
  simp [scheduleLoop, requiresTimePeriod, hw, hp, hi, hn]

/-- a time period given ⇒ `TimePeriodBased(warmup-time-period or 0, time-period)`, started at `clock` -/
theorem loop_choice_time (r : Rat → Rat) (t : TaskP) (hc inf : Bool) (clock : Rat) (p : Rat) (hp : t.period = some p) :
    scheduleLoop r t hc inf clock = .time (t.warmupT.getD 0) (some (r (t.warmupT.getD 0 + p))) clock clock := by
  simp [scheduleLoop, requiresTimePeriod, hp]

/-- **iteration_count.**  With `iterations = n ≥ 1` (and no time period) a client never executes more
    than `warmup-iterations + n` requests; it executes exactly that many whenever the run is ended by
    the loop control (i.e. not by an abort, a cancel/complete event or the parameter source — and the
    source can only end first if it delivers fewer than `warmup + n` parameter sets); the k-th request
    is flagged warm-up iff `k < warmup-iterations` and reports progress `(k+1)/(warmup+n)`. -/
theorem iteration_count (R : Run) (n : Nat) (hw : R.t.warmupT = none) (hp : R.t.period = none)
    (hi : R.t.iters = some n) (hn : n ≠ 0) :
    let w := R.t.warmupIt.getD 0
    R.f.out.recs.length ≤ w + n ∧
    (R.f.out.stop = .loopDone → R.f.out.recs.length = w + n ∧ R.f.out.tuples.length = w + n) ∧
    (R.f.out.stop = .sourceExhausted → R.reqs.length < w + n) ∧
    R.f.out.recs.map (·.idx) = List.range R.f.out.recs.length ∧
    (∀ rec ∈ R.f.out.recs, rec.idx < w + n ∧ rec.sample.warmup = decide (rec.idx < w) ∧
      rec.tup.pc = some (((rec.idx + 1 : Nat) : Rat) / ((w + n : Nat) : Rat))) := by
  intro w
  obtain ⟨tp, sched, _, _, _, hloop, hout, _⟩ := R.inv
  have hl : R.f.loop0 = .iter w (some (w + n)) 0 := by
    rw [hloop]; exact loop_choice_iterations _ _ _ _ _ n hw hp hi hn
  have hI0 : IterInv w (w + n) (R.st0 sched) := by simp [IterInv, Run.st0, hl]
  have ⟨h1, h2, h3⟩ := go_iter_count (c := R.c) R.reqs (R.st0 sched) hI0 (by simp [Run.st0])
  have ⟨_, _, _, h7⟩ := go_shape R.c R.reqs (R.st0 sched)
  have h8 := go_recs_idx R.c R.reqs (R.st0 sched)
  rw [← hout] at h1 h2 h3 h7 h8
  have hidx0 : (R.st0 sched).idx = 0 := rfl
  rw [hidx0] at h1 h2 h3 h8
  refine ⟨by omega, fun hs => ?_, fun hs => by have := h3 hs; omega, by rw [h8, List.range_eq_range'], ?_⟩
  · have := h2 hs
    refine ⟨by omega, ?_⟩
    rw [h7, hs]; simp [unsampledTuples]; omega
  · rw [hout]
    refine go_recs_forall (c := R.c) (IterInv w (w + n)) (fun _ => True) _ ?_ R.reqs _ hI0 (fun _ _ => trivial)
    intro st q rec st' hI _ hfin hs
    obtain ⟨ops, unit, m, sched', _, _, _, hrec, hst'⟩ := step_sampled_inv hs
    rw [hI.finished] at hfin
    have hlt : st.idx < w + n := by simpa using hfin
    refine ⟨?_, hst' ▸ hI.next⟩
    have hloop' : st.loop = .iter w (some (w + n)) st.idx := hI
    subst hrec
    simp [recOf, sampleOf, tupleOf, pcOf, hloop', Loop.warmup, Loop.infinite, Loop.percent, R.exact, hlt]

/-- **time_based_stop.**  With `time-period = p` (deadline `= start + warmup-time-period + p`):
    every request that is followed by another one had *finished* before the deadline — so at most one
    request per client (the last) is issued at or after it; a run ended by the loop control ends at or
    after the deadline (the task does not stop early); a request is flagged warm-up iff the clock read
    after the previous request (task start for the first) is within the warm-up period, and reports
    `elapsed / (warmup + p)` as progress. -/
theorem time_based_stop (R : Run) (p : Rat) (hp : R.t.period = some p) :
    let w := R.t.warmupT.getD 0
    let deadline := R.c.t0 + (w + p)
    Adj (fun a b => a.procEnd < deadline ∧ b.sample.warmup = decide (a.procEnd - R.c.t0 < w) ∧
      b.tup.pc = some ((a.procEnd - R.c.t0) / (w + p))) R.f.out.recs ∧
    (∀ rec, R.f.out.recs.head? = some rec → rec.sample.warmup = decide (0 < w) ∧ rec.tup.pc = some 0) ∧
    (R.f.out.stop = .loopDone → deadline ≤ R.f.out.endClock) ∧
    (R.f.out.recs.filter (fun a => decide (deadline ≤ a.reqStart))).length ≤ 1 := by
  intro w deadline
  have hr := R.exact
  obtain ⟨tp, sched, _, _, _, hloop, hout, _⟩ := R.inv
  have hl : R.f.loop0 = .time w (some (w + p)) R.c.t0 R.c.t0 := by
    rw [hloop, loop_choice_time _ _ _ _ _ p hp, hr]
  have hI0 : TimeInv R.c w (w + p) (R.st0 sched) := ⟨R.c.t0, by simp [Run.st0, hl], by simp [Run.st0]; exact le_sleep hr _ _⟩
  have hadj : Adj (fun a b => a.reqStart ≤ a.procEnd ∧ a.procEnd < deadline ∧ b.sample.warmup = decide (a.procEnd - R.c.t0 < w) ∧
      b.tup.pc = some ((a.procEnd - R.c.t0) / (w + p))) R.f.out.recs := by
    rw [hout]
    refine go_recs_adj (c := R.c) (TimeInv R.c w (w + p)) (fun _ => True) _ ?_ ?_ R.reqs _ hI0 (fun _ _ => trivial)
    · intro st q rec st' hI _ hs
      obtain ⟨ops, unit, m, sched', _, _, _, _, hst'⟩ := step_sampled_inv hs
      exact hst' ▸ hI.next hr
    · intro st q rec st' q' rec' st'' hI _ _ _ hs _ hfin hs'
      obtain ⟨ops, unit, m, sched', _, _, _, hrec, hst'⟩ := step_sampled_inv hs
      obtain ⟨ops', unit', m', sched'', _, _, _, hrec', _⟩ := step_sampled_inv hs'
      obtain ⟨x, hx, _⟩ := hI
      have hl' : st'.loop = .time w (some (w + p)) R.c.t0 (procEndOf R.c st q) := by
        rw [hst']; simp [nextSt, hx, Loop.next]
      rw [time_finished hr hl'] at hfin
      have hlt : procEndOf R.c st q < R.c.t0 + (w + p) := by simpa using hfin
      subst hrec hrec'
      refine ⟨le_trans (reqStart_le_reqEnd hr st q) (reqEnd_le_procEnd hr st q), hlt, ?_, ?_⟩
      · simp [recOf, sampleOf, tupleOf, hl', Loop.warmup, hr]
      · simp [recOf, tupleOf, pcOf, hl', Loop.infinite, Loop.percent, hr]
  refine ⟨Adj.imp (fun _ _ h => h.2) hadj, ?_, ?_, ?_⟩
  · intro rec hrec
    rw [hout] at hrec
    cases hreqs : R.reqs with
    | nil => rw [hreqs, go_nil_recs] at hrec; cases hrec
    | cons q qs =>
      rw [hreqs] at hrec
      obtain ⟨st', hs⟩ := go_head hrec
      obtain ⟨ops, unit, m, sched', _, _, _, hrec', _⟩ := step_sampled_inv hs
      subst hrec'
      have hl0 : (R.st0 sched).loop = .time w (some (w + p)) R.c.t0 R.c.t0 := by simp [Run.st0, hl]
      simp [recOf, sampleOf, tupleOf, pcOf, hl0, Loop.warmup, Loop.infinite, Loop.percent, hr]
  · intro hs
    rw [hout] at hs ⊢
    exact go_time_end hr R.reqs _ hI0 hs
  · apply adj_filter_le_one
    refine Adj.imp ?_ hadj
    intro a b ⟨h0, h1, _, _⟩
    simp only [decide_eq_false_iff_not, not_le]
    exact lt_of_le_of_lt h0 h1

/-- **sample_type_monotone.**  Whatever the loop control (iterations, time period, or none), once a
    sample of a client is `normal` no later sample of that client is `warm-up`. -/
theorem sample_type_monotone (R : Run) :
    List.Pairwise (fun a b => a.sample.warmup = false → b.sample.warmup = false) R.f.out.recs := by
  have hr := R.exact
  obtain ⟨tp, sched, _, _, _, hloop, hout, _⟩ := R.inv
  apply Adj.pairwise (fun a b c h1 h2 h => h2 (h1 h))
  rw [hout]
  refine go_recs_adj (c := R.c) ClockInv (fun _ => True) _ ?_ ?_ R.reqs _ (clockInv_st0 R sched hloop) (fun _ _ => trivial)
  · intro st q rec st' hI _ hs
    obtain ⟨ops, unit, m, sched', _, _, _, _, hst'⟩ := step_sampled_inv hs
    exact hst' ▸ clockInv_next hr hI
  · intro st q rec st' q' rec' st'' hI _ _ _ hs _ _ hs'
    obtain ⟨ops, unit, m, sched', _, _, _, hrec, hst'⟩ := step_sampled_inv hs
    obtain ⟨ops', unit', m', sched'', _, _, _, hrec', _⟩ := step_sampled_inv hs'
    subst hrec hrec' hst'
    have hnow := now_le_procEnd hr st q
    unfold ClockInv at hI
    cases hl : st.loop with
    | iter w t it =>
      simp only [recOf, sampleOf, tupleOf, nextSt, hl, Loop.next, Loop.warmup, decide_eq_false_iff_not]
      omega
    | time w d s x =>
      rw [hl] at hI
      simp only [recOf, sampleOf, tupleOf, nextSt, hl, Loop.next, Loop.warmup, hr, decide_eq_false_iff_not, not_lt]
      intro h
      linarith [hI.2]

/-- the runner does not report progress of its own (`runner.percent_completed`) -/
def NoRunnerProgress (R : Run) : Prop := R.c.hasCompletion = false ∨ ∀ q ∈ R.reqs, q.rp = none

/-- **progress_monotone_unit_interval.**  With a finite loop control (iterations or a time period in
    force) and a runner that does not report progress of its own, every sample carries a progress
    value in `[0,1]`, the values never decrease from one sample of the client to the next, and a run
    that ends by external completion (runner completed / `complete` event) ends with progress 1. -/
theorem progress_monotone_unit_interval (R : Run) (hnr : NoRunnerProgress R) (hfinite : R.f.loop0.infinite = false) :
    (∀ rec ∈ R.f.out.recs, ∃ p, rec.sample.progress = some p ∧ 0 ≤ p ∧ p ≤ 1) ∧
    Adj (fun a b => ∀ pa pb, a.sample.progress = some pa → b.sample.progress = some pb → pa ≤ pb) R.f.out.recs ∧
    (R.f.out.stop = .completed → ∃ rec, R.f.out.recs.getLast? = some rec ∧ rec.sample.progress = some 1) := by
  have hr := R.exact
  obtain ⟨tp, sched, _, _, _, hloop, hout, _⟩ := R.inv
  have hQ : ∀ q ∈ R.reqs, (R.c.hasCompletion = false ∨ q.rp = none) := by
    intro q hq; rcases hnr with h | h
    · exact Or.inl h
    · exact Or.inr (h q hq)
  have hI0 : FinInv (R.st0 sched) := ⟨hfinite, clockInv_st0 R sched hloop⟩
  refine ⟨?_, ?_, ?_⟩
  · rw [hout]
    refine go_recs_forall (c := R.c) FinInv (fun q => R.c.hasCompletion = false ∨ q.rp = none) _ ?_ R.reqs _ hI0 hQ
    intro st q rec st' hI hq hfin hs
    obtain ⟨ops, unit, m, sched', _, _, _, hrec, hst'⟩ := step_sampled_inv hs
    refine ⟨?_, hst' ▸ finInv_next hr hI⟩
    subst hrec
    simp only [recOf, sampleOf, progressOf_noRunner hq]
    split
    · exact ⟨1, rfl, by norm_num, le_refl _⟩
    · exact pc_unit hr q hI hfin
  · rw [hout]
    refine go_recs_adj (c := R.c) FinInv (fun q => R.c.hasCompletion = false ∨ q.rp = none) _ ?_ ?_ R.reqs _ hI0 hQ
    · intro st q rec st' hI _ hs
      obtain ⟨ops, unit, m, sched', _, _, _, _, hst'⟩ := step_sampled_inv hs
      exact hst' ▸ finInv_next hr hI
    · intro st q rec st' q' rec' st'' hI hq hq' hfin hs hcomp hfin' hs'
      obtain ⟨ops, unit, m, sched', _, _, _, hrec, hst'⟩ := step_sampled_inv hs
      obtain ⟨ops', unit', m', sched'', _, _, _, hrec', _⟩ := step_sampled_inv hs'
      subst hrec hrec' hst'
      have hc : completedOf R.c st q = false := hcomp
      intro pa pb ha hb
      simp only [recOf, sampleOf, progressOf_noRunner hq, hc] at ha
      simp only [recOf, sampleOf, progressOf_noRunner hq'] at hb
      have ha' : pcOf R.c st q = some pa := by simpa using ha
      split at hb
      · obtain ⟨p, hp, _, hle⟩ := pc_unit hr q hI hfin
        injection hb with hb
        rw [hp] at ha'
        injection ha' with ha'
        rw [← ha', ← hb]; exact hle
      · exact pc_mono hr q q' sched' hI hfin' pa pb ha' hb
  · intro hs
    rw [hout] at hs ⊢
    refine go_completed_last (c := R.c) _ ?_ R.reqs _ hs
    intro st q rec st' hs hc
    obtain ⟨ops, unit, m, sched', _, _, _, hrec, _⟩ := step_sampled_inv hs
    subst hrec
    exact progressOf_completed hc

/-- **scheduled_monotone.**  For a non-negative target throughput and non-negative Poisson draws the
    scheduled times a client's schedule hands out never decrease (deterministic, Poisson, unthrottled;
    weights and units may change from request to request, failed requests included), and are `≥ 0`. -/
theorem scheduled_monotone (R : Run)
    (hT : ∀ tp, targetThroughput R.c.r R.tt R.ti = .ok (some tp) → 0 ≤ tp.value)
    (hdraw : ∀ q ∈ R.reqs, 0 ≤ q.draw) :
    Adj (fun a b => a.tup.sched ≤ b.tup.sched) R.f.out.recs ∧ ∀ rec ∈ R.f.out.recs, 0 ≤ rec.tup.sched := by
  have hr := R.exact
  obtain ⟨tp, sched, htp, hs, _, _, hout, _⟩ := R.inv
  have hI0 : SchedInv (R.st0 sched) := schedInv_st0 R hs (fun t ht => hT t (ht ▸ htp))
  constructor
  · rw [hout]
    refine go_recs_adj (c := R.c) SchedInv (fun q => 0 ≤ q.draw) _ ?_ ?_ R.reqs _ hI0 hdraw
    · intro st q rec st' hI hq hs
      exact schedInv_step hr hI hq hs
    · intro st q rec st' q' rec' st'' hI hq hq' _ hs _ _ hs'
      have hI' := schedInv_step hr hI hq hs
      obtain ⟨ops, unit, m, sched', _, _, _, hrec, hst'⟩ := step_sampled_inv hs
      obtain ⟨ops', unit', m', sched'', _, _, _, hrec', _⟩ := step_sampled_inv hs'
      have h1 := (schedOf_ge hr hI' hq').1
      subst hrec hrec' hst'
      exact h1
  · rw [hout]
    refine go_recs_forall (c := R.c) SchedInv (fun q => 0 ≤ q.draw) _ ?_ R.reqs _ hI0 hdraw
    intro st q rec st' hI hq _ hs
    refine ⟨?_, schedInv_step hr hI hq hs⟩
    obtain ⟨ops, unit, m, sched', _, _, _, hrec, _⟩ := step_sampled_inv hs
    subst hrec
    exact (schedOf_ge hr hI hq).2.1

/-- **deterministic_spacing.**  With the deterministic schedule (the default) and target throughput
    `T` in unit `u/s` for `C` clients: the first request is scheduled at 0 and requests stay at 0 until
    a request with positive weight has been seen; after a request that reports weight `w > 0` in unit
    `u`, the next request of the client is scheduled exactly `w · C / T` seconds after it; in general
    the gap is the wait of the scheduler in force (`innerAfter`), which failed requests leave unchanged. -/
theorem deterministic_spacing (R : Run) (tp : Throughput)
    (htp : targetThroughput R.c.r R.tt R.ti = .ok (some tp))
    (hdet : R.t.sched = none ∨ R.t.sched = some detName) :
    (∀ rec, R.f.out.recs.head? = some rec → rec.tup.sched = 0) ∧
    Adj (fun a b =>
      (0 < a.sample.ops → a.sample.unit ++ ['/', 's'] = tp.unit →
        b.tup.sched = a.tup.sched + (a.sample.ops : Rat) * (R.c.clients : Rat) / tp.value) ∧
      (a.innerAfter = .unthrottled → b.tup.sched = 0) ∧
      (∀ w, a.innerAfter = .det w → b.tup.sched = a.tup.sched + w)) R.f.out.recs := by
  have hr := R.exact
  obtain ⟨tp', sched, htp', hs, _, _, hout, _⟩ := R.inv
  rw [htp] at htp'
  injection htp' with htp'
  subst htp'
  have hsched : sched = .unitAware .deterministic tp true none .unthrottled := by
    rcases schedulerFor_ok hs with h | ⟨kind, t, ht, h, hk⟩
    · exfalso
      unfold schedulerFor at hs
      simp [runUnthrottled] at hs
      rcases hdet with hd | hd <;> simp [hd] at hs <;> rw [h] at hs <;> cases hs
    · injection ht with ht
      subst ht
      have : kind = .deterministic := hk.mpr (by rcases hdet with hd | hd <;> simp [hd])
      rw [h, this]
  have hI0 : DetInv tp R.c.clients (R.st0 sched) := ⟨true, none, .unthrottled, by simp [Run.st0, hsched], Or.inl ⟨rfl, rfl, rfl⟩⟩
  constructor
  · intro rec hrec
    rw [hout] at hrec
    cases hreqs : R.reqs with
    | nil => rw [hreqs, go_nil_recs] at hrec; cases hrec
    | cons q qs =>
      rw [hreqs] at hrec
      obtain ⟨st', hs⟩ := go_head hrec
      obtain ⟨ops, unit, m, sched', _, _, _, hrec', _⟩ := step_sampled_inv hs
      subst hrec'
      simp [recOf, tupleOf, schedOf, Sched.next, Run.st0, hsched, Sched.inner, Inner.next]
  · rw [hout]
    refine go_recs_adj (c := R.c) (DetInv tp R.c.clients) (fun _ => True) _ ?_ ?_ R.reqs _ hI0 (fun _ _ => trivial)
    · intro st q rec st' hI _ hs
      exact (detInv_step hr hI hs).1
    · intro st q rec st' q' rec' st'' hI _ _ _ hs _ _ hs'
      have ⟨_, hin, hval⟩ := detInv_step hr hI hs
      obtain ⟨ops', unit', m', sched'', _, _, _, hrec', _⟩ := step_sampled_inv hs'
      obtain ⟨ops, unit, m, sched', _, _, _, hrec, hst'⟩ := step_sampled_inv hs
      have hnext : st'.nextSched = rec.tup.sched := by rw [hst', hrec]; rfl
      have hb : rec'.tup.sched = st'.sched.inner.next R.c.r st'.nextSched q'.draw := by rw [hrec']; rfl
      refine ⟨?_, ?_, ?_⟩
      · intro hops hunit
        rw [hb, ← hin, hval hops hunit, hnext]
        simp [Inner.next, hr]
      · intro hun
        rw [hb, ← hin, hun]; rfl
      · intro w hw
        rw [hb, ← hin, hw, hnext]
        simp [Inner.next, hr]

/-- **ramp_up_delay.**  With `ramp-up-time-period = ramp ≥ 0` the client with global index `i` of
    `total` clients waits exactly `ramp · i / total` before its first request: no request is started
    earlier, and the first request (never throttled: scheduled at 0) is started exactly then, plus the
    time its parameters took. -/
theorem ramp_up_delay (R : Run) (ramp : Rat) (hramp : R.t.rampUp = some ramp) (h0 : 0 ≤ ramp) :
    R.f.rampWait = ramp * ((R.gidx : Rat) / (R.total : Rat)) ∧
    (∀ rec ∈ R.f.out.recs, R.c.t0 + R.f.rampWait ≤ rec.procStart) ∧
    (∀ rec q, R.f.out.recs.head? = some rec → R.reqs.head? = some q → 0 ≤ q.gen →
      rec.tup.sched = 0 ∧ rec.procStart = R.c.t0 + R.f.rampWait + q.gen) := by
  have hr := R.exact
  obtain ⟨tp, sched, _, hs, hw, _, hout, _⟩ := R.inv
  have hwait : R.f.rampWait = ramp * ((R.gidx : Rat) / (R.total : Rat)) := by
    unfold rampUpWait at hw
    rw [hramp] at hw
    simp only [hr] at hw
    split at hw
    · split at hw
      · cases hw
      · injection hw with hw; exact hw.symm
    · rename_i hz
      injection hw with hw
      have : ramp = 0 := by simpa using hz
      rw [← hw, this]; simp
  have hnn : 0 ≤ R.f.rampWait := by
    rw [hwait]; exact mul_nonneg h0 (div_nonneg (Nat.cast_nonneg _) (Nat.cast_nonneg _))
  have hnow0 : (R.st0 sched).now = R.c.t0 + R.f.rampWait := by
    simp only [Run.st0]; exact sleep_of_nonneg hr hnn _
  refine ⟨hwait, ?_, ?_⟩
  · rw [hout]
    refine go_recs_forall (c := R.c) (fun st => R.c.t0 + R.f.rampWait ≤ st.now) (fun _ => True) _ ?_ R.reqs _
      (le_of_eq hnow0.symm) (fun _ _ => trivial)
    intro st q rec st' hI _ _ hs
    obtain ⟨ops, unit, m, sched', _, _, _, hrec, hst'⟩ := step_sampled_inv hs
    subst hrec hst'
    have h1 := now_le_genDone hr st q
    have h2 := genDone_le_procStart hr st q
    have h3 := now_le_procEnd hr st q
    exact ⟨by simp only [recOf]; linarith, by simp only [nextSt]; linarith⟩
  · intro rec q hrec hq hgen
    rw [hout] at hrec
    cases hreqs : R.reqs with
    | nil => rw [hreqs] at hq; cases hq
    | cons q0 qs =>
      rw [hreqs] at hrec hq
      injection hq with hq
      subst hq
      obtain ⟨st', hs'⟩ := go_head hrec
      obtain ⟨ops, unit, m, sched', _, _, _, hrec', _⟩ := step_sampled_inv hs'
      subst hrec'
      have hin := schedulerFor_inner hs
      have hsc : schedOf R.c (R.st0 sched) q0 = 0 := by
        simp [schedOf, Sched.next, Run.st0, hin, Inner.next]
      have hth : throttledOf R.c (R.st0 sched) q0 = false := by simp [throttledOf, hsc]
      refine ⟨by simp [recOf, tupleOf, hsc], ?_⟩
      have hps : procStartOf R.c (R.st0 sched) q0 = genDone R.c (R.st0 sched) q0 := by simp [procStartOf, hth]
      simp only [recOf]
      rw [hps, genDone, sleep_of_nonneg hr hgen, hnow0]

/-- an iteration-based task that runs to its end reports progress exactly 1 on its last sample -/
theorem iteration_progress_ends_at_one (R : Run) (n : Nat) (hw : R.t.warmupT = none) (hp : R.t.period = none)
    (hi : R.t.iters = some n) (hn : n ≠ 0) (hnr : NoRunnerProgress R) (hstop : R.f.out.stop = .loopDone) :
    ∃ rec, R.f.out.recs.getLast? = some rec ∧ rec.sample.progress = some 1 := by
  have ⟨_, h2, _, h4, h5⟩ := iteration_count R n hw hp hi hn
  have hlen := (h2 hstop).1
  have hQ : ∀ q ∈ R.reqs, (R.c.hasCompletion = false ∨ q.rp = none) := by
    intro q hq; rcases hnr with h | h
    · exact Or.inl h
    · exact Or.inr (h q hq)
  obtain ⟨tp, sched, _, _, _, _, hout, _⟩ := R.inv
  have hprog : ∀ rec ∈ R.f.out.recs, rec.sample.progress = some 1 ∨ rec.sample.progress = rec.tup.pc := by
    rw [hout]
    refine go_recs_forall (c := R.c) (fun _ => True) (fun q => R.c.hasCompletion = false ∨ q.rp = none) _ ?_ R.reqs _ trivial hQ
    intro st q rec st' _ hq _ hs
    obtain ⟨ops, unit, m, sched', _, _, _, hrec, _⟩ := step_sampled_inv hs
    subst hrec
    refine ⟨?_, trivial⟩
    simp only [recOf, sampleOf, tupleOf, progressOf_noRunner hq]
    split
    · exact Or.inl rfl
    · exact Or.inr rfl
  cases hl : R.f.out.recs.getLast? with
  | none =>
    have : R.f.out.recs = [] := List.getLast?_eq_none_iff.mp hl
    rw [this] at hlen; simp at hlen; omega
  | some rec =>
    refine ⟨rec, rfl, ?_⟩
    have hmem : rec ∈ R.f.out.recs := List.mem_of_getLast? hl
    have hidx : rec.idx = R.t.warmupIt.getD 0 + n - 1 := by
      have h := congrArg List.getLast? h4
      rw [List.getLast?_map, hl, List.getLast?_range, hlen] at h
      simp at h
      exact h.2
    rcases hprog rec hmem with h | h
    · exact h
    · rw [h, (h5 rec hmem).2.2, hidx]
      have hpos : 0 < R.t.warmupIt.getD 0 + n := by omega
      have : R.t.warmupIt.getD 0 + n - 1 + 1 = R.t.warmupIt.getD 0 + n := by omega
      rw [this, div_self]
      exact_mod_cast (by omega : R.t.warmupIt.getD 0 + n ≠ 0)

/-! ## `Task.target_throughput` -/

/-- **throughput_parse** (strings).  A non-empty `target-throughput` string is accepted iff it has the
    documented syntax `<number> <unit>/s` (`Accepts`: digits with an optional fraction, one white-space
    character, a word, `/s`; trailing text is ignored); the result is the exact decimal value and the
    unit — except that a value of 0 means "no target throughput"; everything else is rejected. -/
theorem throughput_parse (s : Str) (hs : s ≠ []) :
    (∀ v u, targetThroughput id (.str s) .none = .ok (some ⟨v, u⟩) ↔ (v ≠ 0 ∧ Accepts s v u)) ∧
    (targetThroughput id (.str s) .none = .ok none ↔ ∃ u, Accepts s 0 u) ∧
    (targetThroughput id (.str s) .none = .error .invalidSyntax ↔ ∀ v u, ¬ Accepts s v u) := by
  have hne : s.isEmpty = false := by cases s <;> simp_all
  cases hm : matchThroughput s with
  | none =>
    have hno : ∀ v u, ¬ Accepts s v u := by
      intro v u h
      rw [← matchThroughput_spec, hm] at h; cases h
    have hval : targetThroughput id (.str s) .none = .error .invalidSyntax := by
      simp [targetThroughput, PVal.truthy, hne, hm]
    rw [hval]
    refine ⟨fun v u => ⟨fun h => ?_, fun h => absurd h.2 (hno v u)⟩, ⟨fun h => ?_, fun ⟨u, h⟩ => absurd h (hno 0 u)⟩,
      ⟨fun _ => hno, fun _ => rfl⟩⟩
    · cases h
    · cases h
  | some vu =>
    obtain ⟨v0, u0⟩ := vu
    have hacc : Accepts s v0 u0 := (matchThroughput_spec s v0 u0).mp hm
    have huniq : ∀ v u, Accepts s v u → v = v0 ∧ u = u0 := by
      intro v u h
      have := (matchThroughput_spec s v u).mpr h
      rw [hm] at this
      injection this with this
      injection this with h1 h2
      exact ⟨h1.symm, h2.symm⟩
    by_cases hz : v0 = 0
    · subst hz
      have hval : targetThroughput id (.str s) .none = .ok none := by
        simp [targetThroughput, PVal.truthy, hne, hm, finishThroughput]
      rw [hval]
      refine ⟨fun v u => ⟨fun h => ?_, fun ⟨hv, h⟩ => absurd (huniq v u h).1 hv⟩, ⟨fun _ => ⟨u0, hacc⟩, fun _ => rfl⟩,
        ⟨fun h => ?_, fun h => absurd hacc (h 0 u0)⟩⟩
      · injection h with h; cases h
      · cases h
    · have hval : targetThroughput id (.str s) .none = .ok (some ⟨v0, u0⟩) := by
        simp [targetThroughput, PVal.truthy, hne, hm, finishThroughput, hz]
      rw [hval]
      refine ⟨fun v u => ⟨fun h => ?_, fun ⟨_, h⟩ => ?_⟩, ⟨fun h => ?_, fun ⟨u, h⟩ => absurd (huniq 0 u h).1 (Ne.symm hz)⟩,
        ⟨fun h => ?_, fun h => absurd hacc (h v0 u0)⟩⟩
      · injection h with h
        injection h with h
        injection h with h1 h2
        subst h1 h2
        exact ⟨hz, hacc⟩
      · have := huniq v u h
        rw [this.1, this.2]
      · injection h with h; cases h
      · cases h

/-- numbers: `target-throughput: n` means `n ops/s` (0 = none) -/
theorem throughput_parse_number :
    (∀ i : Int, targetThroughput id (.int i) .none = .ok (if i = 0 then none else some ⟨(i : Rat), opsPerS⟩)) ∧
    (∀ q : Rat, targetThroughput id (.float q) .none = .ok (if q = 0 then none else some ⟨q, opsPerS⟩)) := by
  constructor
  · intro i
    by_cases h : i = 0
    · simp [targetThroughput, PVal.truthy, h]
    · have h' : (i : Rat) ≠ 0 := by exact_mod_cast h
      simp [targetThroughput, PVal.truthy, PVal.toFloat, finishThroughput, h, h']
  · intro q
    by_cases h : q = 0
    · simp [targetThroughput, PVal.truthy, h]
    · simp [targetThroughput, PVal.truthy, PVal.toFloat, finishThroughput, h]

/-- `target-interval: x` means `1/x ops/s` (0 = none) -/
theorem throughput_parse_interval :
    (∀ i : Int, targetThroughput id .none (.int i) = .ok (if i = 0 then none else some ⟨1 / (i : Rat), opsPerS⟩)) ∧
    (∀ q : Rat, targetThroughput id .none (.float q) = .ok (if q = 0 then none else some ⟨1 / q, opsPerS⟩)) := by
  constructor
  · intro i
    by_cases h : i = 0
    · simp [targetThroughput, PVal.truthy, h]
    · have h' : (i : Rat) ≠ 0 := by exact_mod_cast h
      simp [targetThroughput, PVal.truthy, PVal.numeric, PVal.toFloat, finishThroughput, h, h']
  · intro q
    by_cases h : q = 0
    · simp [targetThroughput, PVal.truthy, h]
    · simp [targetThroughput, PVal.truthy, PVal.numeric, PVal.toFloat, finishThroughput, h]

/-- rejected: both parameters at once; a non-numeric interval; a boolean or structured throughput -/
theorem throughput_parse_rejects :
    (∀ tt ti, tt ≠ .none → ti ≠ .none → targetThroughput id tt ti = .error .invalidSyntax) ∧
    (∀ s, s ≠ [] → targetThroughput id .none (.str s) = .error .invalidSyntax) ∧
    targetThroughput id (.bool true) .none = .error .invalidSyntax ∧
    targetThroughput id (.other true) .none = .error .invalidSyntax ∧
    targetThroughput id .none .none = .ok none := by
  refine ⟨?_, ?_, rfl, rfl, rfl⟩
  · intro tt ti h1 h2
    simp [targetThroughput, h1, h2]
  · intro s hs
    have hne : s.isEmpty = false := by cases s <;> simp_all
    simp [targetThroughput, PVal.truthy, PVal.numeric, hne]

/-! ## the same two pacing quantities in IEEE double arithmetic (`r = Dbl.fl`, what CPython computes) -/

/-- **deterministic_spacing (IEEE).**  When `UnitAwareScheduler` re-targets a deterministic schedule for
    weight `w` (target `T > 0`, `C` clients) in double arithmetic, the wait time is
    `fl(1 / fl(fl(T / C) / w))`, within a relative error of `2^-51` of the exact `w·C/T`, and the next
    slot `fl(cur + wait)` is within `2^-53` (relative) of `cur + wait`. -/
theorem deterministic_spacing_ieee (tp : Throughput) (C w : Nat) (hT : 0 < tp.value) (hC : 0 < C) (hw : 0 < w)
    (s' : Sched) (h : retarget Dbl.fl C .deterministic tp w = .ok s') :
    ∃ wait, s'.inner = .det wait ∧
      wait = Dbl.fl (1 / Dbl.fl (Dbl.fl (tp.value / (C : Rat)) / (w : Rat))) ∧
      |wait - (w : Rat) * (C : Rat) / tp.value| ≤ (w : Rat) * (C : Rat) / tp.value / 2 ^ 51 ∧
      ∀ cur draw, 0 ≤ cur → |s'.inner.next Dbl.fl cur draw - (cur + wait)| ≤ (cur + wait) / 2 ^ 53 := by
  have hbound := ExecDbl.wait_ieee_bound tp.value C w hT hC hw
  unfold retarget at h
  rw [if_neg (by omega)] at h
  unfold mkInner at h
  dsimp only at h
  split at h
  · cases h
  · rename_i i hi
    split at hi
    · cases hi
    · injection hi with hi
      injection h with h
      subst h hi
      refine ⟨_, rfl, rfl, hbound, ?_⟩
      intro cur draw hcur
      simp only [Sched.inner, Inner.next]
      set wait := Dbl.fl (1 / Dbl.fl (Dbl.fl (tp.value / (C : Rat)) / (w : Rat)))
      have hx : 0 < (w : Rat) * (C : Rat) / tp.value := by
        have : (0 : Rat) < C := by exact_mod_cast hC
        have : (0 : Rat) < w := by exact_mod_cast hw
        positivity
      have hwait : 0 ≤ wait := by
        have := (abs_le.mp hbound).1
        have h51 : (w : Rat) * (C : Rat) / tp.value / 2 ^ 51 ≤ (w : Rat) * (C : Rat) / tp.value := by
          apply div_le_self (le_of_lt hx); norm_num
        linarith
      have := ExecDbl.fl_rel_err (cur + wait)
      rwa [abs_of_nonneg (by linarith : 0 ≤ cur + wait)] at this

/-- **ramp_up_delay (IEEE).**  In double arithmetic the ramp-up wait is `fl(ramp · fl(i / total))`, within a
    relative error of `2^-51` of `ramp · i / total`. -/
theorem ramp_up_delay_ieee (ramp : Rat) (g total : Nat) (hr : 0 < ramp) (ht : 0 < total) :
    ∃ wait, rampUpWait Dbl.fl (some ramp) g total = .ok wait ∧
      wait = Dbl.fl (ramp * Dbl.fl ((g : Rat) / (total : Rat))) ∧
      |wait - ramp * ((g : Rat) / (total : Rat))| ≤ ramp * ((g : Rat) / (total : Rat)) / 2 ^ 51 := by
  refine ⟨_, ?_, rfl, ExecDbl.ramp_ieee_bound ramp g total hr ht⟩
  have h1 : (ramp != 0) = true := by simpa using ne_of_gt hr
  simp [rampUpWait, h1, Nat.ne_of_gt ht]

/-! ## the schedule is a function of the task's parameters at schedule time; allocations come from the allocator -/

/-- **schedule_uses_params_at_schedule_time.**  Whatever is done to the Task object between loading and scheduling
    (any sequence of reads of `target_throughput`, rewrites of `target-throughput` / `target-interval`, `--test-mode`): the
    client's run is the run of the object as it is *then* (`applyOps` = the object after the sequence), and reads leave no trace —
    the same sequence without its reads gives the same run.  In particular every pacing theorem above
    (`deterministic_spacing`: gap `w·C/T`) speaks about the `T` the parameters specify at schedule time. -/
theorem schedule_uses_params_at_schedule_time (c : Cfg) (ops : List TaskOp) (t : TaskP) (tt ti : PVal) (g total : Nat)
    (inf : Bool) (cap : Nat) (reqs : List Req) (o : TaskObj) (h : applyOps c.r ops ⟨t, tt, ti⟩ = .ok o) :
    runClientOps c ops t tt ti g total inf cap reqs = runClient c o.t o.tt o.ti g total inf cap reqs ∧
    runClientOps c (dropReads ops) t tt ti g total inf cap reqs = runClientOps c ops t tt ti g total inf cap reqs := by
  have h' := applyOps_dropReads c.r ops _ _ h
  simp [runClientOps, h, h']

/-- **test_mode_throughput.**  `--test-mode` on a throttled task keeps it throttled, in its unit, at `sys.maxsize`: afterwards
    the parameters specify `9223372036854775807 <unit>`, whatever was read before; an unthrottled task stays unthrottled;
    iterations are capped at one per client, the warm-up time period is dropped and the time period capped at 10 s. -/
theorem test_mode_throughput (o o' : TaskObj) (h : testModeLeaf id o = .ok o') :
    (∀ tp, targetThroughput id o.tt o.ti = .ok (some tp) →
      targetThroughput id o'.tt o'.ti = .ok (some ⟨9223372036854775807, tp.unit⟩)) ∧
    (targetThroughput id o.tt o.ti = .ok none → o'.tt = o.tt ∧ o'.ti = o.ti) ∧
    o'.t.clients = o.t.clients ∧
    (∀ n, o'.t.iters = some n → n ≤ o.t.clients ∨ o.t.iters = some n) ∧
    (∀ x, o'.t.warmupT = some x → x ≤ 0) ∧ (∀ x, o'.t.period = some x → x ≤ 10) := by
  unfold testModeLeaf at h
  dsimp only at h
  cases htp : targetThroughput id o.tt o.ti with
  | error e => rw [htp] at h; cases h
  | ok r =>
    rw [htp] at h
    have hfields : ∀ (t1 : TaskP), t1 = { o.t with
        warmupIt := o.t.warmupIt.map (fun n => if n > o.t.clients then o.t.clients else n)
        iters := o.t.iters.map (fun n => if n > o.t.clients then o.t.clients else n)
        warmupT := o.t.warmupT.map (fun x => if x > 0 then 0 else x)
        period := o.t.period.map (fun x => if x > 10 then 10 else x) } →
        t1.clients = o.t.clients ∧ (∀ n, t1.iters = some n → n ≤ o.t.clients ∨ o.t.iters = some n) ∧
        (∀ x, t1.warmupT = some x → x ≤ 0) ∧ (∀ x, t1.period = some x → x ≤ 10) := by
      intro t1 ht1
      subst ht1
      refine ⟨rfl, ?_, ?_, ?_⟩
      · intro n hn
        simp only [Option.map_eq_some_iff] at hn
        obtain ⟨a, ha, hn⟩ := hn
        split at hn
        · left; omega
        · right; rw [ha, hn]
      · intro x hx
        simp only [Option.map_eq_some_iff] at hx
        obtain ⟨a, _, hx⟩ := hx
        split at hx
        · rw [← hx]
        · rw [← hx]; exact not_lt.mp ‹_›
      · intro x hx
        simp only [Option.map_eq_some_iff] at hx
        obtain ⟨a, _, hx⟩ := hx
        split at hx
        · rw [← hx]
        · rw [← hx]; exact not_lt.mp ‹_›
    cases r with
    | none =>
      injection h with h
      subst h
      exact ⟨fun tp htp' => (by cases htp'), fun _ => ⟨rfl, rfl⟩, hfields _ rfl⟩
    | some tp =>
      injection h with h
      subst h
      refine ⟨?_, fun hn => (by cases hn), hfields _ rfl⟩
      intro tp' htp'
      injection htp' with htp'
      injection htp' with htp'
      subst htp'
      obtain ⟨w, hne, hw, hu⟩ := targetThroughput_unit id o.tt o.ti tp htp
      simp only [hu]
      exact maxsize_string_parses w hne hw

/-- **allocation_total_is_own_element.**  For every schedule (leaf tasks and parallel structures of any widths, with or without
    explicit `clients`) every `TaskAllocation` of `Allocator.allocations` is the `g`-th logical client of ONE element `e`
    (position `g` in the element's sub-tasks × their clients) and carries `total_clients = e.clients`, that element's own
    client count — so its ramp-up wait is `ramp-up · g / e.clients`, independent of every other element of the schedule. -/
theorem allocation_total_is_own_element (s : List Alloc.Element) (row : List Alloc.Entry) (hrow : row ∈ Alloc.allocations s)
    (sub : Alloc.Sub) (i g total : Nat) (h : Alloc.Entry.task sub i g total ∈ row) (ramp : Rat) :
    ∃ e ∈ s, (Alloc.expand e)[g]? = some (sub, i) ∧ total = e.clients ∧
      (e.clients ≠ 0 → rampUpWait id (some ramp) g total = .ok (ramp * ((g : Rat) / (e.clients : Rat)))) := by
  obtain ⟨e, he, h1, h2⟩ := allocation_entry_spec s row hrow sub i g total h
  refine ⟨e, he, h1, h2, fun hne => ?_⟩
  subst h2
  by_cases hr : ramp = 0
  · simp [rampUpWait, hr]
  · have : (ramp != 0) = true := by simpa using hr
    simp [rampUpWait, this, hne]

/-! ## loop-control keys as the track file spells them -/

/-- **explicit_zero_is_a_definition.**  A key that a task spells out counts, whatever the value: `0`, `0.0` (the same rational)
    and any other number override the enclosing `parallel` element's value; `null` means "nothing"; only a key that is left out
    inherits. -/
theorem explicit_zero_is_a_definition (d : Option Rat) (q : Rat) :
    readKey (.num q) d = some q ∧ readKey (.num 0) d = some 0 ∧ readKey .null d = none ∧ readKey .absent d = d :=
  ⟨rfl, rfl, rfl, rfl⟩

/-- **parallel_task_keeps_its_own_keys.**  Whenever the reader accepts a `parallel` element, every task gets, for each of the five
    keys, its own spelling if it has one and the element's otherwise — in particular `"warmup-iterations": 0` next to a parallel
    default of 5 is a task with 0 warm-up iterations (so by `iteration_count` it runs exactly `iterations` requests, none flagged
    warm-up), and `"warmup-time-period": 0` is a task without warm-up period. -/
theorem parallel_task_keeps_its_own_keys (par : LoopSpec) (tasks : List LoopSpec) (vs : List LoopVals)
    (h : parseParallelLoops par tasks = some vs) :
    vs.length = tasks.length ∧
    ∀ p ∈ tasks.zip vs,
      p.2.warmupIt = readKey p.1.warmupIt (parallelDefault par.warmupIt) ∧
      p.2.iters = readKey p.1.iters (parallelDefault par.iters) ∧
      p.2.warmupT = readKey p.1.warmupT (parallelDefault par.warmupT) ∧
      p.2.period = readKey p.1.period (parallelDefault par.period) ∧
      p.2.rampUp = readKey p.1.rampUp (parallelDefault par.rampUp) := by
  unfold parseParallelLoops at h
  split at h
  · cases h
  · rename_i vs' hm
    split at h
    · injection h with h
      subst h
      have ⟨h1, h2⟩ := mapM_option_zip _ tasks vs' hm
      refine ⟨h1, fun p hp => ?_⟩
      have := parseTaskLoop_vals (h2 p hp)
      rw [this]
      exact ⟨rfl, rfl, rfl, rfl, rfl⟩
    · cases h

/-- a task with `"warmup-iterations": 0, "iterations": 7` inside `parallel` with `"warmup-iterations": 5`: 0 and 7 -/
example : parseParallelLoops { LoopSpec.none with warmupIt := .num 5 } [{ LoopSpec.none with warmupIt := .num 0, iters := .num 7 }, LoopSpec.none] =
    some [⟨some 0, some 7, none, none, none⟩, ⟨some 5, none, none, none, none⟩] := by decide +kernel

/-! ## the literal reading of "stops issuing requests once the time period has elapsed"

The code checks the clock *before* it generates parameters and waits for the scheduled slot, so the
request that follows the last successful check can go out after the deadline (by the client-side
overhead, or — for a throttled task — by up to one target interval).  `time_based_stop` above is the
statement with the property's tolerance ("one request per client straddling the boundary may fall on
either side"); the literal statement is false of the current code and true without throttling and
client-side overhead. -/

/-- literal reading: no request at all is issued at or after `start + warmup-time-period + time-period` -/
def StrictStop : Prop :=
  ∀ (R : Run) (p : Rat), R.t.period = some p →
    ∀ rec ∈ R.f.out.recs, rec.reqStart < R.c.t0 + (R.t.warmupT.getD 0 + p)

/-- time-period 1 s, target-interval 2 s, one client: the second request is scheduled (and issued) at 2 s -/
def demoLate : Run :=
  Run.ofInputs { demoCfg with clients := 1 } (fun _ => rfl)
    { demoTask with warmupIt := none, iters := none, period := some 1, clients := 1 } .none (.int 2) 0 1 true 100
    [okReq (1 / 4), okReq (1 / 4), okReq (1 / 4)] (by decide +kernel)

example : demoLate.f.out.recs.map (fun r => (r.tup.sched, r.reqStart - demoLate.c.t0)) = [(0, 1 / 1024), (2, 2049 / 1024)] ∧
    demoLate.f.out.stop = .loopDone := by decide +kernel

theorem not_strictStop : ¬ StrictStop := by
  intro h
  have h1 := h demoLate 1 rfl
  revert h1
  decide +kernel

/-- **time_based_stop_partial.**  Without throttling (no target throughput, built-in schedule), without
    ramp-up and when parameter generation and the runner's work before its first wire request take no time,
    the literal statement holds: every request is issued strictly before the deadline. -/
theorem time_based_stop_partial (R : Run) (p : Rat) (hp : R.t.period = some p)
    (hun : targetThroughput R.c.r R.tt R.ti = .ok none) (hramp : R.t.rampUp = none)
    (hzero : ∀ q ∈ R.reqs, q.gen ≤ 0 ∧ ∃ g sv f rest, q.prog = .wire g sv f :: rest ∧ g ≤ 0) :
    ∀ rec ∈ R.f.out.recs, rec.reqStart < R.c.t0 + (R.t.warmupT.getD 0 + p) := by
  have hr := R.exact
  obtain ⟨tp, sched, htp, hs, hw, hloop, hout, _⟩ := R.inv
  rw [hun] at htp
  injection htp with htp
  subst htp
  have hplain : sched = .plain := by
    rcases schedulerFor_ok hs with h | ⟨_, _, h, _, _⟩
    · exact h
    · cases h
  have hwait : R.f.rampWait = 0 := by
    rw [hramp] at hw
    simp [rampUpWait] at hw
    exact hw.symm
  have hl : R.f.loop0 = .time (R.t.warmupT.getD 0) (some (R.t.warmupT.getD 0 + p)) R.c.t0 R.c.t0 := by
    rw [hloop, loop_choice_time _ _ _ _ _ p hp, hr]
  rw [hout]
  refine go_recs_forall (c := R.c)
    (fun st => st.sched = .plain ∧ st.loop = .time (R.t.warmupT.getD 0) (some (R.t.warmupT.getD 0 + p)) R.c.t0 st.now)
    (fun q => q.gen ≤ 0 ∧ ∃ g sv f rest, q.prog = .wire g sv f :: rest ∧ g ≤ 0) _ ?_ R.reqs _ ?_ hzero
  · intro st q rec st' ⟨hsp, hlp⟩ ⟨hg, g, sv, f, rest, hprog, hpre⟩ hfin hs
    obtain ⟨ops, unit, m, sched', _, _, ha, hrec, hst'⟩ := step_sampled_inv hs
    rw [time_finished hr hlp] at hfin
    have hlt : st.now < R.c.t0 + (R.t.warmupT.getD 0 + p) := by simpa using hfin
    have hsc : schedOf R.c st q = 0 := by simp [schedOf, Sched.next, hsp, Sched.inner, Inner.next]
    have hth : throttledOf R.c st q = false := by simp [throttledOf, hsc]
    have hgd : genDone R.c st q = st.now := by
      simp only [genDone, sleep_eq hr]; rw [if_neg (not_lt.mpr hg)]
    have hps : procStartOf R.c st q = st.now := by simp [procStartOf, hth, hgd]
    have hrs : reqStartOf R.c st q = st.now := by
      rw [reqStart_of_first_wire hr st q hprog, sleep_eq hr, if_neg (not_lt.mpr hpre), hps]
    subst hrec hst'
    refine ⟨by simp only [recOf]; rw [hrs]; exact hlt, ?_, ?_⟩
    · rw [hsp] at ha
      simp [Sched.afterRequest] at ha
      simp [nextSt, ← ha]
    · simp [nextSt, hlp, Loop.next]
  · refine ⟨by simp [Run.st0, hplain], ?_⟩
    simp only [Run.st0, hl, hwait, sleep_eq hr]
    simp

/-! ## non-vacuity -/

/-- iteration-based: 1 warm-up + 3 iterations, 4 ops/s over 2 clients (hypotheses of `iteration_count`,
    `deterministic_spacing`, `scheduled_monotone`, `progress_monotone_unit_interval` hold) -/
def demoIter : Run :=
  Run.ofInputs demoCfg (fun _ => rfl) demoTask (.int 4) .none 0 2 true 100
    [okReq (1 / 4), okReq 3, okReq (1 / 4), okReq (1 / 4), okReq (1 / 4)] (by decide +kernel)

example : demoIter.t.warmupT = none ∧ demoIter.t.period = none ∧ demoIter.t.iters = some 3 := ⟨rfl, rfl, rfl⟩
example : demoIter.f.out.stop = .loopDone ∧ demoIter.f.out.recs.length = 4 ∧
    demoIter.f.out.recs.map (fun r => (r.sample.warmup, r.sample.progress)) =
      [(true, some (1 / 4)), (false, some (1 / 2)), (false, some (3 / 4)), (false, some 1)] := by decide +kernel
example : targetThroughput demoIter.c.r demoIter.tt demoIter.ti = .ok (some ⟨4, opsPerS⟩) := by decide +kernel
example : demoIter.f.out.recs.map (fun r => r.tup.sched) = [0, 1 / 2, 1, 3 / 2] := by decide +kernel
example : NoRunnerProgress demoIter := Or.inl rfl
example : ∀ q ∈ demoIter.reqs, 0 ≤ q.draw := by decide +kernel
example : demoIter.t.sched = none := rfl
example : demoIter.f.loop0.infinite = false := by decide +kernel

/-- time-based: warm-up 1 s + 2 s, ramp-up 1 s for client 1 of 2, unthrottled, requests of 0.75 s -/
def demoTime : Run :=
  Run.ofInputs demoCfg (fun _ => rfl)
    { demoTask with warmupIt := none, iters := none, warmupT := some 1, period := some 2, rampUp := some 1 } .none .none 1 2 true 100
    [okReq (3 / 4), okReq (3 / 4), okReq (3 / 4), okReq (3 / 4), okReq (3 / 4), okReq (3 / 4)] (by decide +kernel)

example : demoTime.f.rampWait = 1 / 2 ∧ demoTime.f.out.stop = .loopDone ∧
    demoTime.f.out.recs.map (fun r => (r.procStart - demoTime.c.t0, r.sample.warmup)) =
      [(1 / 2, true), (641 / 512, false), (513 / 256, false), (1411 / 512, false)] := by decide +kernel
example : demoTime.t.rampUp = some 1 ∧ demoTime.t.period = some 2 := ⟨rfl, rfl⟩
/-- the last request of `demoTime` straddles the deadline (issued before, finished after) -/
example : demoTime.f.out.endClock - demoTime.c.t0 = 449 / 128 := by decide +kernel

/-- IEEE: 100 ops/s over 3 clients, weight 1: the wait is the double nearest to 1/fl(100/3), not 3/100 -/
example : (match retarget Dbl.fl 3 .deterministic ⟨100, opsPerS⟩ 1 with
    | .ok s => decide (s.inner = .det (Dbl.fl (1 / Dbl.fl (100 / 3))) ∧ s.inner ≠ .det (3 / 100))
    | .error _ => false) = true := by decide +kernel

/-- `--test-mode` after a read: "4 docs/s" becomes sys.maxsize docs/s, iterations capped at the client count -/
example : (applyOps id [.readThroughput, .testMode]
    ⟨{ demoTask with iters := some 100, warmupIt := some 50 }, .str ['4', ' ', 'd', 'o', 'c', 's', '/', 's'], .none⟩).map
      (fun o => (targetThroughput id o.tt o.ti, o.t.iters, o.t.warmupIt)) =
    .ok (.ok (some ⟨9223372036854775807, ['d', 'o', 'c', 's', '/', 's']⟩), some 2, some 2) := by decide +kernel
/-- an 8-client task, then a 2-client task: the second client of the narrower task has total 2 (not 8) -/
example : pickEntry [⟨none, [⟨0, 8, false, false⟩]⟩, ⟨none, [⟨1, 2, false, false⟩]⟩] 1 3 =
    some (Alloc.Entry.task ⟨1, 2, false, false⟩ 1 1 2) := by decide +kernel

/-- accepted / rejected throughput strings -/
example : matchThroughput ['1', '0', ' ', 'd', 'o', 'c', 's', '/', 's'] = some (10, ['d', 'o', 'c', 's', '/', 's']) := by
  decide +kernel
example : matchThroughput ['.', '5', '\t', 'M', 'B', '/', 's', 'e', 'c'] = some (1 / 2, ['M', 'B', '/', 's']) := by decide +kernel
example : matchThroughput ['1', '.', ' ', 'o', 'p', 's', '/', 's'] = none := by decide +kernel
example : matchThroughput ['5', ' ', ' ', 'o', 'p', 's', '/', 's'] = none := by decide +kernel

/-! ## round 6: the runner's own report paces the schedule; the clients of one worker do not share a schedule -/

/-- **response_weight_reaches_schedule.**  What `execute_single` hands to `ScheduleHandle.after_request` (and puts
    into the sample) is the weight and unit the runner itself reported (`Worker.reported`, read from the answer
    alone) — also when the answer says `success: False`; only a request that raised (nothing reported) counts 0. -/
theorem response_weight_reaches_schedule (abort : Bool) (o : Outcome) (ops : Nat) (unit : Str) (m : Meta)
    (h : executeSingle abort o = .ret ops unit m) :
    (∀ w u, Worker.reported o = some (w, u) → ops = w ∧ unit = u) ∧ (Worker.reported o = none → ops = 0) :=
  Worker.reported_ret h

example : executeSingle false (.dict (some 1000) (some ['d', 'o', 'c', 's']) (some false) none none) =
    .ret 1000 ['d', 'o', 'c', 's'] ⟨false, none, none, none⟩ := rfl
example : Worker.reported (.dict (some 1000) (some ['d', 'o', 'c', 's']) (some false) none none) =
    some (1000, ['d', 'o', 'c', 's']) := rfl

/-- **deterministic_spacing_reported.**  The spacing clause with the expectation taken from the plan, not from what
    the executor stored: if the runner's answer to request `a` reports weight `w > 0` in the target's unit — whatever
    it says about success — the client's next request is scheduled exactly `w · C / T` after it. -/
theorem deterministic_spacing_reported (R : Run) (tp : Throughput)
    (htp : targetThroughput R.c.r R.tt R.ti = .ok (some tp))
    (hdet : R.t.sched = none ∨ R.t.sched = some detName) :
    Adj (fun a b => ∀ q w u, R.reqs[a.idx]? = some q → Worker.reported q.out = some (w, u) → 0 < w →
      u ++ ['/', 's'] = tp.unit →
      b.tup.sched = a.tup.sched + (w : Rat) * (R.c.clients : Rat) / tp.value) R.f.out.recs := by
  have h := (deterministic_spacing R tp htp hdet).2
  obtain ⟨_, sched, _, _, _, _, hout, _⟩ := R.inv
  refine Worker.Adj.imp_mem ?_ h
  intro a b ha hab q w u hq hrep hw hu
  obtain ⟨h1, _, _⟩ := hab
  rw [hout] at ha
  obtain ⟨_, q', m, hq', hex⟩ := Worker.go_recs_exec R.c R.reqs (R.st0 sched) a ha
  have h0 : (R.st0 sched).idx = 0 := rfl
  rw [h0, Nat.sub_zero, hq] at hq'
  injection hq' with hq'
  subst hq'
  obtain ⟨hops, hunit⟩ := (Worker.reported_ret hex).1 w u hrep
  have h2 := h1 (by rw [hops]; exact hw) (by rw [hunit]; exact hu)
  rw [hops] at h2
  exact h2

/-- a polling request that answers "not yet" (`success: False`, weight 1) three times, then succeeds: 4 ops/s over 2 clients -/
def notYetReq : Req := { okReq (1 / 4) with out := .dict (some 1) none (some false) none none }
def demoNotYet : Run :=
  Run.ofInputs demoCfg (fun _ => rfl) demoTask (.int 4) .none 0 2 true 100
    [notYetReq, notYetReq, notYetReq, okReq (1 / 4), okReq (1 / 4)] (by decide +kernel)
example : demoNotYet.f.out.recs.map (fun r => (r.tup.sched, r.sample.success)) =
    [(0, false), (1 / 2, false), (1, false), (3 / 2, true)] := by decide +kernel
example : targetThroughput demoNotYet.c.r demoNotYet.tt demoNotYet.ti = .ok (some ⟨4, opsPerS⟩) := by decide +kernel

/-- **worker_runs_each_client_on_its_own_schedule.**  `AsyncIoAdapter.run` for the clients a worker simulates: the
    result for the client at position `i` is the run of the schedule and executor built from ITS allocation and ITS
    partition of the parameter source — whatever clients come before and after it; one result per client. -/
theorem worker_runs_each_client_on_its_own_schedule (cap : Nat) (pre post : List Worker.ClientSpec) (s : Worker.ClientSpec) :
    (Worker.adapterRun cap (pre ++ s :: post))[pre.length]? = some (s.c.client, s.run cap) ∧
    (Worker.adapterRun cap (pre ++ s :: post)).length = pre.length + 1 + post.length := by
  simp [Worker.adapterRun, Worker.awaitables_eq_map]
  omega

/-- **worker_iteration_count.**  Every iteration-based client of a worker — however many other clients the worker
    simulates in the same step — executes at most `warmup-iterations + iterations` requests, exactly that many when its
    loop control ends the run, the k-th one flagged warm-up iff `k < warmup-iterations` with progress `(k+1)/total`. -/
theorem worker_iteration_count (cap : Nat) (cs : List Worker.ClientSpec) (s : Worker.ClientSpec) (hs : s ∈ cs)
    (hr : ∀ x, s.c.r x = x) (n : Nat) (hw : s.t.warmupT = none) (hp : s.t.period = none)
    (hi : s.t.iters = some n) (hn : n ≠ 0) :
    (s.c.client, s.run cap) ∈ Worker.adapterRun cap cs ∧
    ∀ f, s.run cap = .ok f →
      f.out.recs.length ≤ s.t.warmupIt.getD 0 + n ∧
      (f.out.stop = .loopDone → f.out.recs.length = s.t.warmupIt.getD 0 + n) ∧
      (∀ rec ∈ f.out.recs, rec.sample.warmup = decide (rec.idx < s.t.warmupIt.getD 0) ∧
        rec.tup.pc = some (((rec.idx + 1 : Nat) : Rat) / ((s.t.warmupIt.getD 0 + n : Nat) : Rat))) := by
  constructor
  · rw [Worker.adapterRun, Worker.awaitables_eq_map]
    exact List.mem_map.mpr ⟨s, hs, rfl⟩
  · intro f hf
    let R : Run := { c := s.c, t := s.t, tt := s.tt, ti := s.ti, gidx := s.gidx, total := s.total,
                     srcInfinite := s.srcInfinite, cap := cap, reqs := s.reqs, f := f, exact := hr, ok := hf }
    obtain ⟨h1, h2, _, _, h5⟩ := iteration_count R n hw hp hi hn
    exact ⟨h1, fun hstop => (h2 hstop).1, fun rec hrec => (h5 rec hrec).2⟩

/-- two clients of the same task on one worker, the second with a failing first request -/
def demoSpecA : Worker.ClientSpec := ⟨demoIter.c, demoIter.t, demoIter.tt, demoIter.ti, 0, 2, true, demoIter.reqs⟩
def demoSpecB : Worker.ClientSpec :=
  ⟨{ demoNotYet.c with client := 8 }, demoNotYet.t, demoNotYet.tt, demoNotYet.ti, 1, 2, true, demoNotYet.reqs⟩
example : (Worker.adapterRun 100 [demoSpecA, demoSpecB]).map
    (fun p => (p.1, match p.2 with | .ok f => f.out.recs.length | .error _ => 0)) = [(7, 4), (8, 4)] := by decide +kernel
example : demoSpecA ∈ [demoSpecA, demoSpecB] ∧ demoSpecA.t.iters = some 3 ∧ demoSpecA.t.warmupT = none := by
  refine ⟨by simp, rfl, rfl⟩

end C05
