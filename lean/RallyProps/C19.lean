import RallyModel.JsonFast
import RallyProofs.JsonFast
import RallyProofs.JsonFastText
import RallyProofs.JsonFastObj
import RallyProofs.JsonFastMore
/-!
# C19 — fast-path response parsing agrees with full JSON parsing

Property theorems only (helper lemmas in `RallyProofs/JsonFast.lean`).  A response is a value `j : Json`
(arbitrary strings, number literals, nesting, key order = list order); the text the code sees is
`renderDoc st j`; full parsing is `getPath` / `oget` on `j` (validated against `json.loads` on every
generated document), selective parsing is `parseSel … (events [] j)` (`events` validated against ijson).
-/
namespace C19
open JsonFast

/-! ## 1. `runner.parse` against full parsing -/

/-- **parse_props_eq_full.**  For every document, every selector set and every dotted name that is
    unambiguous in the document (`NoAlias`: no other node has the same ijson prefix), the selective parser
    returns for that name exactly what full parsing finds at the path: nothing if nothing is there, the
    scalar if a scalar is there — regardless of what else the document contains and of the early exit. -/
theorem parse_props_eq_full (j : Json) (props lists objs : List Str) (comps : List Str) (hc : comps ≠ [])
    (h0 : joinDots comps ≠ []) (hna : NoAlias comps j)
    (hp : joinDots comps ∈ props) (hl : joinDots comps ∉ lists) (ho : joinDots comps ∉ objs) :
    match getPath j comps with
    | none => pget (parseSel props lists objs (events [] j)) (joinDots comps) = none
    | some n => n.isScalar = true → pget (parseSel props lists objs (events [] j)) (joinDots comps) = some (.s n.toSVal) :=
  parse_prop_eq_full j props lists objs comps hc h0 hna hp hl ho

/-- **parse_list_flags_eq_full.**  The emptiness flag of a requested list is present iff full parsing finds a
    list at the path, and tells whether that list is empty. -/
theorem parse_list_flags_eq_full (j : Json) (props lists objs : List Str) (comps : List Str) (hc : comps ≠ [])
    (h0 : joinDots comps ≠ []) (hna : NoAlias comps j)
    (hl : joinDots comps ∈ lists) (hlp : joinDots comps ∉ props) (ho : joinDots comps ∉ objs) :
    pget (parseSel props lists objs (events [] j)) (joinDots comps) =
      match getPath j comps with
      | some (.arr xs) => some (.s (.bool xs.isEmpty))
      | _ => none :=
  parse_list_eq_full j props lists objs comps hc h0 hna hl hlp ho

/-- **no_alias_of_es_shape.**  The hypothesis of the two theorems above holds for every selector Rally uses
    (dot-free components different from `item`) as soon as the objects *on the way* to the selected node have
    pairwise different, dot-free keys — the Elasticsearch vocabulary (`took`, `hits`, `total`, `_shards`, …).
    Nothing is assumed about the rest of the document (hits, `_source`, aggregations, …). -/
theorem no_alias_of_es_shape (comps : List Str) (j : Json) (hdf : ∀ k ∈ comps, '.' ∉ k ∧ k ≠ itemKey)
    (hg : GoodAlong comps j) : NoAlias comps j :=
  noAlias_of_goodAlong comps j hdf hg

/-- the hypothesis is needed: a top-level key `hits.total` aliases the nested `hits` → `total`
    (ijson reports both under the prefix `hits.total`) and `parse` stops at the first one -/
def nat (ds : Str) : NumLit := ⟨false, ds, [], none⟩

def aliasDoc : Json :=
  .obj [(kHitsTotal, .num (nat ['7'])), (kHits, .obj [(kTotal, .num (nat ['5']))])]

theorem alias_witness :
    pget (parseSel [kHitsTotal] [] [] (events [] aliasDoc)) kHitsTotal = some (.s (.num (nat ['7']))) ∧
    getPath aliasDoc [kHits, kTotal] = some (.num (nat ['5'])) :=
  ⟨by decide, rfl⟩

/-! ## 2. Bulk accounting -/

/-- A bulk response `{…, "errors": e, "took": t, "items": [ {"<op>": {…}}, … ]}`: pairwise different dot-free
    top-level keys (any order, any further keys), `errors`/`took` scalars or absent, one action per item. -/
structure BulkResp (kvs : List (Str × Json)) (items : List Json) : Prop where
  good : GoodObj kvs
  hitems : oget kvs kItems = some (.arr items)
  single : ∀ item ∈ items, ∃ data, SingleMember item data
  errorsScalar : scalarOrAbsent (oget kvs kErrors)
  tookScalar : scalarOrAbsent (oget kvs kTook)

/-- number of failed items in the property's sense (`status > 299 ∨ _shards.failed > 0`, by full-parse lookups) -/
def nFailed (items : List Json) : Nat := items.countP itemFailedB
def nSucceeded (items : List Json) : Nat := items.countP (fun i => !itemFailedB i)

/-- **bulk_detailed_counts.**  Detailed path, every response whose items the loop can process (`Classified`:
    status / shard counters present and integral): reported successful iff no item failed, success and error
    counts are the numbers of succeeded and failed items. -/
theorem bulk_detailed_counts (kvs : List (Str × Json)) (items : List Json) (rs : List (Option (Int × Option Str)))
    (h : BulkResp kvs items) (hc : Classified true items rs) :
    ∃ details, detailedStats (.obj kvs) = .ok
      { took := (oget kvs kTook).map (fun n => PVal.s n.toSVal), success := nFailed items == 0,
        successCount := some (nSucceeded items), errorCount := nFailed items, details := details } ∧
      ∀ d, d ∈ details ↔ some d ∈ rs := by
  have hi : itemsOf (.obj kvs) = .ok items := by simp [itemsOf, subscript, h.hitems, bind, Except.bind, pure, Except.pure]
  obtain ⟨c1, c2⟩ := tally_counts rs {}
  obtain ⟨n1, n2⟩ := classified_counts true items rs hc h.single
  refine ⟨(tally {} rs).details, ?_, fun d => by simpa using tally_details rs {} d⟩
  unfold detailedStats
  rw [hi]
  simp only [countItems_eq true items rs {} hc, tookOf_ok kvs h.tookScalar, statsOf]
  simp [c1, c2, n1, n2, nFailed, nSucceeded]

/-- **bulk_fast_counts_when_flagged.**  Fast path, `errors` truthy: the same counts as the detailed path. -/
theorem bulk_fast_counts_when_flagged (bulkSize : Int) (unitDocs : Bool) (kvs : List (Str × Json)) (items : List Json)
    (rs : List (Option (Int × Option Str))) (h : BulkResp kvs items) (hc : Classified false items rs)
    (hf : errorsFlag kvs = true) :
    ∃ details, simpleStats bulkSize unitDocs (.obj kvs) = .ok
      { took := (oget kvs kTook).map (fun n => PVal.s n.toSVal), success := nFailed items == 0,
        successCount := some (nSucceeded items), errorCount := nFailed items, details := details } ∧
      ∀ d, d ∈ details ↔ some d ∈ rs := by
  have hi : itemsOf (.obj kvs) = .ok items := by simp [itemsOf, subscript, h.hitems, bind, Except.bind, pure, Except.pure]
  obtain ⟨c1, c2⟩ := tally_counts rs {}
  obtain ⟨n1, n2⟩ := classified_counts false items rs hc h.single
  refine ⟨(tally {} rs).details, ?_, fun d => by simpa using tally_details rs {} d⟩
  rw [simpleStats_normal bulkSize unitDocs kvs h.good h.errorsScalar h.tookScalar]
  rw [hf]
  unfold simpleStatsWith
  rw [hi]
  simp only [if_true, countItems_eq false items rs {} hc, statsOf]
  simp [c1, c2, n1, n2, nFailed, nSucceeded]

/-- **bulk_fast_unflagged.**  Fast path, `errors` false or absent: success, zero errors, and the *requested*
    bulk size as success count (None unless the unit is "docs") — the items are not looked at. -/
theorem bulk_fast_unflagged (bulkSize : Int) (unitDocs : Bool) (kvs : List (Str × Json)) (items : List Json)
    (h : BulkResp kvs items) (hf : errorsFlag kvs = false) :
    simpleStats bulkSize unitDocs (.obj kvs) = .ok
      { took := (oget kvs kTook).map (fun n => PVal.s n.toSVal), success := true,
        successCount := if unitDocs then some bulkSize else none, errorCount := 0, details := [] } := by
  rw [simpleStats_normal bulkSize unitDocs kvs h.good h.errorsScalar h.tookScalar]
  rw [hf]
  rfl

/-- The three numbers the property speaks about. -/
def Agree (s d : BulkStats) (items : List Json) : Prop :=
  s.success = d.success ∧ s.successCount = d.successCount ∧ s.errorCount = d.errorCount ∧
  d.success = (nFailed items == 0) ∧ d.successCount = some (nSucceeded items : Int) ∧ d.errorCount = nFailed items

/-- **bulk_counts_agree (partial).**  Both paths report success iff no item failed and the numbers of
    succeeded / failed items, PROVIDED the `errors` flag covers every failed item (flag false ⇒ no item failed,
    which for Elasticsearch means: no item that only reports failed shards), the unit is "docs" with the bulk
    size equal to the number of items. -/
theorem bulk_counts_agree_partial (kvs : List (Str × Json)) (items : List Json) (rs : List (Option (Int × Option Str)))
    (h : BulkResp kvs items) (hc : Classified true items rs)
    (hcover : errorsFlag kvs = false → nFailed items = 0) :
    ∃ s d, simpleStats (items.length : Int) true (.obj kvs) = .ok s ∧ detailedStats (.obj kvs) = .ok d ∧ Agree s d items := by
  obtain ⟨dd, hdet, _⟩ := bulk_detailed_counts kvs items rs h hc
  cases hf : errorsFlag kvs with
  | true =>
    obtain ⟨ds, hs, _⟩ := bulk_fast_counts_when_flagged (items.length : Int) true kvs items rs h (classified_true_false items rs hc) hf
    exact ⟨_, _, hs, hdet, rfl, rfl, rfl, rfl, rfl, rfl⟩
  | false =>
    have h0 := hcover hf
    have hs := bulk_fast_unflagged (items.length : Int) true kvs items h hf
    refine ⟨_, _, hs, hdet, ?_, ?_, ?_, rfl, rfl, rfl⟩
    · simp [h0]
    · have : nSucceeded items + nFailed items = items.length := countP_not_add itemFailedB items
      simp only [if_true]
      congr 1
      omega
    · simp [h0]

/-- the full statement (without the hypothesis on the flag) -/
def BulkFastAlwaysAgrees : Prop :=
  ∀ (kvs : List (Str × Json)) (items : List Json) (rs : List (Option (Int × Option Str))),
    BulkResp kvs items → Classified true items rs →
    ∃ s d, simpleStats (items.length : Int) true (.obj kvs) = .ok s ∧ detailedStats (.obj kvs) = .ok d ∧ Agree s d items

def shardsFailDoc : List (Str × Json) :=
  [(kTook, .num (nat ['3'])), (kErrors, .bool false),
   (kItems, .arr [.obj [(['i','n','d','e','x'],
      .obj [(kShards, .obj [(kTotal, .num (nat ['2'])), (kSuccessful, .num (nat ['1'])), (kFailed, .num (nat ['1']))]),
            (kStatus, .num (nat ['2','0','1']))])]])]

def shardsFailItems : List Json :=
  [.obj [(['i','n','d','e','x'],
      .obj [(kShards, .obj [(kTotal, .num (nat ['2'])), (kSuccessful, .num (nat ['1'])), (kFailed, .num (nat ['1']))]),
            (kStatus, .num (nat ['2','0','1']))])]]

theorem shardsFail_resp : BulkResp shardsFailDoc shardsFailItems :=
  ⟨⟨by decide, by decide⟩, rfl, by
      intro item hi
      simp only [shardsFailItems, List.mem_cons, List.mem_nil_iff, or_false] at hi
      exact ⟨_, _, hi⟩, rfl, rfl⟩

/-- **Negation witness (genuine divergence of the two code paths).**  `errors = false`, one item with status
    201 whose `_shards.failed` is 1 (a failed replica — Elasticsearch does not set `errors` for it): the fast
    path says success / 1 / 0, the detailed path says failure / 0 / 1. -/
theorem bulk_fast_always_agrees_false : ¬ BulkFastAlwaysAgrees := by
  intro hall
  obtain ⟨s, d, hs, hd, hag⟩ := hall shardsFailDoc shardsFailItems [some (201, none)] shardsFail_resp
    (.cons (by decide) .nil)
  have hs' : simpleStats (shardsFailItems.length : Int) true (.obj shardsFailDoc) = .ok
      { took := some (.s (.num (nat ['3']))), success := true, successCount := some 1, errorCount := 0, details := [] } := by decide
  have hd' : detailedStats (.obj shardsFailDoc) = .ok
      { took := some (.s (.num (nat ['3']))), success := false, successCount := some 0, errorCount := 1, details := [(201, none)] } := by decide
  rw [hs'] at hs
  rw [hd'] at hd
  cases hs
  cases hd
  exact absurd hag.1 (by decide)

/-- non-vacuity of the partial theorem: the same response with `errors = true` is handled by both paths -/
example : (simpleStats 1 true (.obj ((kErrors, .bool true) :: shardsFailDoc.tail.tail))).toOption.map (fun s => (s.success, s.successCount, s.errorCount)) =
      some (false, some 0, 1) ∧
    (detailedStats (.obj ((kErrors, .bool true) :: shardsFailDoc.tail.tail))).toOption.map (fun s => (s.success, s.successCount, s.errorCount)) =
      some (false, some 0, 1) := by decide

/-- non-vacuity of `bulk_detailed_counts` and `bulk_counts_agree_partial`: the witness response (one item
    with a failed shard) with `errors = true` satisfies all hypotheses; both paths then report failure / 0 / 1 -/
def flaggedDoc : List (Str × Json) := (kTook, .num (nat ['3'])) :: (kErrors, .bool true) :: shardsFailDoc.tail.tail

theorem flagged_resp : BulkResp flaggedDoc shardsFailItems :=
  ⟨⟨by decide, by decide⟩, rfl, shardsFail_resp.single, rfl, rfl⟩

example : ∃ s d, simpleStats 1 true (.obj flaggedDoc) = .ok s ∧ detailedStats (.obj flaggedDoc) = .ok d ∧
    s.success = false ∧ d.success = false ∧ s.errorCount = 1 ∧ d.errorCount = 1 := by
  obtain ⟨s, d, h1, h2, a1, _, a3, a4, _, a6⟩ := bulk_counts_agree_partial flaggedDoc shardsFailItems [some (201, none)]
    flagged_resp (.cons (by decide) .nil) (by decide)
  refine ⟨s, d, h1, h2, ?_, ?_, ?_, ?_⟩
  · rw [a1, a4]; decide
  · rw [a4]; decide
  · rw [a3, a6]; decide
  · rw [a6]; decide

def failedItem (reason : Json) : Json :=
  .obj [(['i','n','d','e','x'], .obj [(kStatus, .num (nat ['5','0','0'])),
    (kError, .obj [(['t','y','p','e'], .str ['x']), (kReason, reason)])])]

def mixedItems : List Json := [failedItem .null, failedItem (.str ['b','o','o','m'])]
def mixedDoc : List (Str × Json) := [(kErrors, .bool true), (kItems, .arr mixedItems)]

/-- **bulk_never_raises.**  Since commit 027a7b5 (`sorted(..., key=(status, reason or ""))`) neither path can
    raise on a response whose items the loop can process. -/
theorem bulk_never_raises (kvs : List (Str × Json)) (items : List Json) (rs : List (Option (Int × Option Str)))
    (h : BulkResp kvs items) (hc : Classified true items rs) : ∃ d, detailedStats (.obj kvs) = .ok d := by
  obtain ⟨dd, hdet, _⟩ := bulk_detailed_counts kvs items rs h hc
  exact ⟨_, hdet⟩

/-- the former witness of the TypeError (two failed items with the same status, one `"reason": null`, one
    textual) is now counted: failure / 0 / 2 in both paths -/
example : (detailedStats (.obj mixedDoc)).toOption.map (fun s => (s.success, s.successCount, s.errorCount)) = some (false, some 0, 2) ∧
    (simpleStats 2 true (.obj mixedDoc)).toOption.map (fun s => (s.success, s.successCount, s.errorCount)) = some (false, some 0, 2) := by
  decide

/-! ## 3. The `search_after` cursor -/

/-- the sort value of the last hit, by full parsing: `doc["hits"]["hits"][-1]["sort"]` -/
def lastHitSort (j : Json) : Option Json :=
  match getPath j [kHits, kHits] with
  | some (.arr hs) =>
    match hs.getLast? with
    | some h => getPath h [kSort]
    | none => none
  | _ => none

/-- `k` is a position of the token `"sort"` in `text` -/
def TokenAt (text : Str) (k : Nat) : Prop := isPrefix sortTok (text.drop k) = true

/-- **last_hit_sort_in_text.**  The member `"sort": <value>` of the last hit occurs in the rendered response. -/
theorem last_hit_sort_in_text (st : Style) (j : Json) (sv : Json) (h : lastHitSort j = some sv) :
    ∃ pre post, renderDoc st j = pre ++ memberText st kSort sv ++ post := by
  unfold lastHitSort at h
  cases hg : getPath j [kHits, kHits] with
  | none => rw [hg] at h; cases h
  | some hv =>
    rw [hg] at h
    cases hv with
    | arr hs =>
      simp only at h
      cases hl : hs.getLast? with
      | none => rw [hl] at h; cases h
      | some lh =>
        rw [hl] at h
        simp only at h
        -- unfold the two-step path
        cases j with
        | obj top =>
          simp only [getPath] at hg
          cases ht : oget top kHits with
          | none => rw [ht] at hg; cases hg
          | some hobj =>
            rw [ht] at hg
            simp only at hg
            obtain ⟨t1, t2, etop, _⟩ := oget_some_split top kHits hobj ht
            obtain ⟨h1, h2, ehobj⟩ := getPath_one hg
            obtain ⟨l1, l2, elh⟩ := getPath_one h
            obtain ⟨hs0, ehs⟩ : ∃ hs0, hs = hs0 ++ [lh] := by
              have := List.getLast?_eq_some_iff.mp hl
              obtain ⟨ys, hy⟩ := this
              exact ⟨ys, hy⟩
            have i1 : Inside (memberText st kSort sv) (render st lh) := by
              rw [elh]; exact render_obj_inside st l1 kSort sv l2
            have i2 : Inside (render st lh) (render st (.arr hs)) := by
              rw [ehs]; exact render_arr_last_inside st hs0 lh
            have i3 : Inside (render st (.arr hs)) (render st hobj) := by
              rw [ehobj]
              exact (inside_member_value st kHits (.arr hs)).trans (render_obj_inside st h1 kHits (.arr hs) h2)
            have i4 : Inside (render st hobj) (render st (.obj top)) := by
              rw [etop]
              exact (inside_member_value st kHits hobj).trans (render_obj_inside st t1 kHits hobj t2)
            have i5 := (((i1.trans i2).trans i3).trans i4).ctx st.lead st.trail
            obtain ⟨P, Q, e⟩ := i5
            exact ⟨P, Q, by unfold renderDoc; rw [e]⟩
        | null => cases hg
        | bool b => cases hg
        | num n => cases hg
        | str x => cases hg
        | arr xs => cases hg
    | null => simp at h
    | bool b => simp at h
    | num n => simp at h
    | str x => simp at h
    | obj o => simp at h

/-- **cursor_is_last_sort.**  For every response, every whitespace/escaping style *without whitespace between
    a key and its colon*, if the last hit's sort value is a flat array of scalars (arbitrary strings: quotes,
    brackets, escapes, non-ASCII; arbitrary number literals), then at **every** place `pre` where that member
    `"sort":[…]` occurs in the text such that no `"sort"` token starts after `pre`, the extractor returns
    exactly that array.  (With `last_hit_sort_in_text` such a place exists; the two hypotheses on the text are
    each necessary, see the witnesses.  Code after commit 6007750.) -/
theorem cursor_is_last_sort (st : Style) (hst : st.valid = true) (hbc : st.beforeColon = []) (j : Json)
    (vals : List Json) (_h : lastHitSort j = some (.arr vals)) (hv : ∀ v ∈ vals, ScalarOK v)
    (pre post : Str)
    (hpos : renderDoc st j = pre ++ memberText st kSort (.arr vals) ++ post)
    (hlast : ∀ k, pre.length < k → ¬ TokenAt (renderDoc st j) k) :
    lastSort (renderDoc st j) = .ok (some (.arr vals)) := by
  rw [hpos] at hlast ⊢
  exact lastSort_member st hst hbc vals hv pre post (fun k hk => by
    have := hlast k hk
    simpa [TokenAt] using this)

/-- **cursor_none_without_token.**  A text without any `"sort"` token (e.g. no hits) yields no cursor. -/
theorem cursor_none_without_token (text : Str) (h : ∀ k, ¬ TokenAt text k) : lastSort text = .ok none :=
  lastSort_no_token text (fun k => by simpa [TokenAt] using h k)

/-- non-vacuity of `cursor_is_last_sort`: `{"hits":{"hits":[{"_id":"x","sort":["q\"]",-1.5e3,null]}]}}` (a quote
    and a `]` inside a sort string) in the python-style rendering satisfies every hypothesis (the last-token
    hypothesis through `rfind`) -/
example : lastSort (renderDoc { afterComma := [' '], afterColon := [' '] }
      (.obj [(kHits, .obj [(kHits, .arr [.obj [(['_','i','d'], .str ['x']),
        (kSort, .arr [.str ['q', '"', ']'], .num ⟨true, ['1'], ['5'], some (['e'], ['3'])⟩, .null])]])])])) =
    .ok (some (.arr [.str ['q', '"', ']'], .num ⟨true, ['1'], ['5'], some (['e'], ['3'])⟩, .null])) := by
  refine cursor_is_last_sort _ (by decide) rfl _ _ rfl ?_
    ['{', '"', 'h', 'i', 't', 's', '"', ':', ' ', '{', '"', 'h', 'i', 't', 's', '"', ':', ' ', '[', '{', '"', '_', 'i', 'd', '"', ':', ' ', '"', 'x', '"', ',', ' ']
    ['}', ']', '}', '}']  (by decide) ?_
  · intro v hv
    simp only [List.mem_cons, List.mem_nil_iff, or_false] at hv
    rcases hv with hv | hv | hv <;> subst hv
    · trivial
    · exact numOK_of_valid _ (by decide)
    · trivial
  · intro k hk
    have := rfind_some_later sortTok (by decide) _ 32 (by decide : rfind sortTok (renderDoc { afterComma := [' '], afterColon := [' '] }
      (.obj [(kHits, .obj [(kHits, .arr [.obj [(['_','i','d'], .str ['x']),
        (kSort, .arr [.str ['q', '"', ']'], .num ⟨true, ['1'], ['5'], some (['e'], ['3'])⟩, .null])]])])])) = some 32) k hk
    simp [TokenAt, this]

/-- the statement without the two hypotheses on the text -/
def CursorAlwaysLastSort : Prop :=
  ∀ (st : Style) (j : Json) (vals : List Json), st.valid = true → st.beforeColon = [] →
    lastHitSort j = some (.arr vals) → (∀ v ∈ vals, ScalarOK v) → lastSort (renderDoc st j) = .ok (some (.arr vals))

def searchDoc (hit : List (Str × Json)) : Json := .obj [(kHits, .obj [(kHits, .arr [.obj hit])])]

def isDecodeErr : Except Err (Option Json) → Bool
  | .error .decode => true
  | _ => false

def isOkNone : Except Err (Option Json) → Bool
  | .ok none => true
  | _ => false

/-- `{"hits":{"hits":[{"sort":["a]b",3]}]}}` -/
def bracketDoc : Json := searchDoc [(kSort, .arr [.str ['a', ']', 'b'], .num (nat ['3'])])]

def isOkSome : Except Err (Option Json) → Bool
  | .ok (some _) => true
  | _ => false

/-- **Historical witness (defect of the pinned revision, repaired by commit 6007750).**  A sort string
    containing `]`: the old regex capture stopped inside the string and `json.loads` raised; the repaired
    extractor decodes the value. -/
theorem cursor_bracket_witness_pinned :
    isDecodeErr (lastSortPinned (renderDoc {} bracketDoc)) = true ∧ isOkSome (lastSort (renderDoc {} bracketDoc)) = true := by
  decide

/-- `{"hits":{"hits":[{"sort":[1],"_source":{"f":"sort"}}]}}` -/
def laterTokenDoc : Json :=
  searchDoc [(kSort, .arr [.num (nat ['1'])]), (['_','s','o','u','r','c','e'], .obj [(['f'], .str kSort)])]

/-- **Negation witness (known finding `cursor-later-sort-token`).**  A later `"sort"` token (here a string
    value equal to `sort` behind the sort key; equally a `top_hits` aggregation, `inner_hits`, a terms bucket
    key …): the extractor looks at the wrong place and returns no cursor. -/
theorem cursor_later_token_witness :
    isOkNone (lastSort (renderDoc {} laterTokenDoc)) = true ∧ lastHitSort laterTokenDoc = some (.arr [.num (nat ['1'])]) :=
  ⟨by decide, rfl⟩

theorem cursor_always_last_sort_false : ¬ CursorAlwaysLastSort := by
  intro h
  have := h {} laterTokenDoc [.num (nat ['1'])] (by decide) rfl rfl (by
    intro v hv
    simp only [List.mem_cons, List.mem_nil_iff, or_false] at hv
    subst hv
    exact numOK_of_valid _ (by decide))
  have hw := cursor_later_token_witness.1
  rw [this] at hw
  cases hw

/-- **Witness 3.**  Pretty-printed text (`"sort" : [1]`): the regex needs the colon right after the key. -/
theorem cursor_space_before_colon_witness :
    isOkNone (lastSort (renderDoc { beforeColon := [' '] } (searchDoc [(kSort, .arr [.num (nat ['1'])])]))) = true := by decide

/-- non-vacuity: a two-value cursor with an escaped quote and a float, python-style whitespace -/
example : lastSort (renderDoc { afterComma := [' '], afterColon := [' '] }
      (searchDoc [(['_','i','d'], .str ['x']), (kSort, .arr [.str ['q', '"'], .num ⟨true, ['1'], ['5'], some (['e'], ['3'])⟩, .null])])) |>.toOption.isSome := by
  decide

/-! ## 4. Page and hit accounting of `Query`

`SearchShape` (RallyProofs): the objects on the way to the selected names have pairwise different dot-free
keys, the selected names are scalars or absent, `hits.total` is a number or an object with `value`; everything
else in the page (hits, sources, aggregations, further keys, key order) is arbitrary.  The right-hand sides are
the *same* loops run on what full parsing finds (`fullScalar` / `fullHits` / `fullListFlag` = `getPath`
lookups), so pages fetched, hits, `hits_relation`, `took` and `timed_out` accumulate exactly as full parsing
would make them. -/

/-- **request_body_eq_full.**  Detailed meta-data of a request-body search. -/
theorem request_body_eq_full (j : Json) (h : SearchShape j) : requestBodyDetailed j = requestBodyFull j :=
  requestBody_eq_full j h

/-- **scroll_pages_and_hits.**  `_scroll_query` over any sequence of pages. -/
theorem scroll_pages_and_hits (size : Option Nat) (total : Nat) (resps : List Json) (h : ∀ r ∈ resps, SearchShape r) :
    scrollQuery size total resps = scrollQueryWith (fullScrollView true) (fullScrollView false) size total resps :=
  scrollQuery_eq_full size total resps h

/-- **search_after_pages_and_hits.**  `_search_after_query` over any sequence of pages, with or without a
    point in time (the cursor handed on is `lastSort` of the page text, see section 3). -/
theorem search_after_pages_and_hits (st : Style) (pit : Bool) (size total : Nat) (resps : List Json)
    (h : ∀ r ∈ resps, SearchShape r) :
    searchAfterQuery st pit size total resps = saLoopWith (saExtractFull st pit) pit size total resps 1 {} :=
  searchAfterQuery_eq_full st pit size total resps h

/-- an ES 7 page: `{"took":5,"timed_out":false,"_shards":{"total":1,"failed":0},"hits":{"total":{"value":3,
    "relation":"eq"},"hits":[{"_source":{"hits.total":"x","a.b":[1]},"sort":[1]}]}}` — dotted keys and a
    `sort` inside the hits do not matter -/
def page7 : Json :=
  .obj [(kTook, .num (nat ['5'])), (kTimedOut, .bool false),
    (kShards, .obj [(kTotal, .num (nat ['1'])), (kFailed, .num (nat ['0']))]),
    (kHits, .obj [(kTotal, .obj [(kValue, .num (nat ['3'])), (kRelation, .str ['e', 'q'])]),
      (kHits, .arr [.obj [(['_','s','o','u','r','c','e'], .obj [(kHitsTotal, .str ['x']), (['a', '.', 'b'], .arr [.num (nat ['1'])])]),
        (kSort, .arr [.num (nat ['1'])])]])])]

theorem page7_shape : SearchShape page7 :=
  ⟨goodAlong_of_B _ _ (by decide), goodAlong_of_B _ _ (by decide), rfl, rfl, trivial, trivial,
    Or.inr ⟨_, rfl, rfl⟩, rfl, rfl, rfl, trivial, trivial, rfl⟩

/-- non-vacuity: the shape hypothesis holds for `page7`, and on it hits = 3, relation = "eq", took = 5 -/
example : (requestBodyDetailed page7).hits = .s (.num (nat ['3'])) ∧ (requestBodyDetailed page7).hitsRel = pyEq ∧
    (requestBodyDetailed page7).took = .s (.num (nat ['5'])) := by
  rw [request_body_eq_full page7 page7_shape]
  decide

example : (scrollQuery (some 10) 5 [page7]).toOption.map (fun a => (a.pages, a.hits)) = some (1, .s (.num (nat ['3']))) := by
  rw [scroll_pages_and_hits _ _ _ (by intro r hr; simp only [List.mem_singleton] at hr; subst hr; exact page7_shape)]
  decide

/- non-vacuity for the search_after extraction on `page7` (what one loop iteration reads; the loop's
   continuation test is float arithmetic on `Rat`, which the kernel does not evaluate by `decide`) -/
set_option maxRecDepth 8000 in
example : (saExtract {} false pyNone page7).toOption.map (fun p => (p.1.hitsValue, p.1.took)) =
    some (some (.s (.num (nat ['3']))), some (.s (.num (nat ['5'])))) := by
  rw [saExtract_eq_full {} false pyNone page7 page7_shape]
  decide

/-- non-vacuity of `parse_props_eq_full` / `parse_list_flags_eq_full`: on `page7` the hypotheses hold for
    `hits.total.value` and `hits.hits`, although `_source` contains the keys `hits.total` and `a.b` -/
example : pget (parseSel [kTook, kHitsTotalValue] [kHitsHits] [] (events [] page7)) kHitsTotalValue = some (.s (.num (nat ['3']))) := by
  have := parse_props_eq_full page7 [kTook, kHitsTotalValue] [kHitsHits] [] [kHits, kTotal, kValue] (by simp) (by decide)
    (no_alias_of_es_shape _ _ (by decide) page7_shape.gHits) (by decide) (by decide) (by simp)
  exact this rfl

example : pget (parseSel [kTook] [kHitsHits] [] (events [] page7)) kHitsHits = some (.s (.bool false)) := by
  have := parse_list_flags_eq_full page7 [kTook] [kHitsHits] [] [kHits, kHits] (by simp) (by decide)
    (no_alias_of_es_shape _ _ (by decide) (goodAlong_of_B _ _ (by decide))) (by decide) (by decide) (by simp)
  exact this

/-! ## 5. The composite-aggregation `after_key` -/

/-- the dict full parsing gives for a flat object (members in order, a later duplicate overwrites, `null` ↦ None) -/
def fullFlat (kvs : List (Str × Json)) : List (Str × SVal) := kvs.foldl (fun acc kv => dset acc kv.1 kv.2.toSVal) []

/-- **after_key_eq_full.**  For an unambiguous dotted name at which full parsing finds an object with scalar
    members (none of them requested as a property), `parse(…, objects=[name])` returns exactly the fully
    parsed object — `null` members included (code after commit 4b176e5). -/
theorem after_key_eq_full (j : Json) (props lists : List Str) (comps : List Str) (hc : comps ≠ [])
    (h0 : joinDots comps ≠ []) (hna : NoAlias comps j) (hop : joinDots comps ∉ props)
    (kvs : List (Str × Json)) (hget : getPath j comps = some (.obj kvs))
    (hflat : ∀ kv ∈ kvs, kv.2.isScalar = true ∧ (joinDots comps ++ '.' :: kv.1) ∉ props) :
    pget (parseSel props lists [joinDots comps] (events [] j)) (joinDots comps) = some (.dict (fullFlat kvs)) := by
  rw [parse_object_flat j props lists comps hc h0 hna hop kvs hget hflat, flatDict_eq_foldl]
  rfl

/-- `{"aggregations":{"c":{"after_key":{"p":null,"q":1.5,"r":"x]"}}}}` (a composite source with `missing_bucket`) -/
def nullAfterDoc : Json :=
  .obj [(kAggregations, .obj [(['c'], .obj [(kAfterKey,
    .obj [(['p'], .null), (['q'], .num ⟨false, ['1'], ['5'], none⟩), (['r'], .str ['x', ']'])])])])]

/-- non-vacuity (and the former witness of the dropped `null` member): all three members arrive -/
example : pget (parseSel [kTook] [] [joinDots [kAggregations, ['c'], kAfterKey]] (events [] nullAfterDoc))
      (joinDots [kAggregations, ['c'], kAfterKey]) =
    some (.dict [(['p'], .none), (['q'], .num ⟨false, ['1'], ['5'], none⟩), (['r'], .str ['x', ']'])]) := by
  have := after_key_eq_full nullAfterDoc [kTook] [] [kAggregations, ['c'], kAfterKey] (by simp) (by decide)
    (noAlias_of_goodAlong _ _ (by decide) (goodAlong_of_B _ _ (by decide))) (by decide)
    [(['p'], .null), (['q'], .num ⟨false, ['1'], ['5'], none⟩), (['r'], .str ['x', ']'])] rfl (by
      intro kv hkv
      simp only [List.mem_cons, List.mem_nil_iff, or_false] at hkv
      rcases hkv with hkv | hkv | hkv <;> subst hkv <;> exact ⟨rfl, by decide⟩)
  exact this

/-! ## 6. Several calls on the same extractor / runner instance

Rally shares one runner instance (hence one `SearchAfterExtractor` / `CompositeAggExtractor`) among all tasks of
an operation type.  In the model an instance has no state that survives a call, so **a sequence of calls is
the map of the independent calls**: every call is a function of (response, parameters) only, whatever was
extracted before (other aggregation paths, point in time on/off, hits total known/unknown, detailed results
on/off).  The harness runs such sequences on one real instance and on the registered runners and requires
every call to agree with the model's answer for that call alone and with full parsing. -/

theorem search_after_extractor_session (st : Style) (cs : List SaxCall) :
    session (saxCallOn st) () cs = cs.map (fun c => searchAfterExtract st c.pit c.hitsTotal c.resp) :=
  session_stateless _ _ (fun _ _ => rfl) () cs

theorem composite_extractor_session (cs : List CaxCall) :
    session caxCallOn () cs = cs.map (fun c => compositeExtract c.pit c.path c.hitsTotal c.resp) :=
  session_stateless _ _ (fun _ _ => rfl) () cs

theorem bulk_stats_session (cs : List BulkCall) :
    session bulkCallOn () cs =
      cs.map (fun c => if c.detailed then detailedStats c.resp else simpleStats c.bulkSize c.unitDocs c.resp) :=
  session_stateless _ _ (fun _ _ => rfl) () cs

theorem parse_session (cs : List ParseCall) :
    session parseCallOn () cs = cs.map (fun c => parseSel c.props c.lists c.objs (events [] c.resp)) :=
  session_stateless _ _ (fun _ _ => rfl) () cs

/-- in particular the `after_key` of a composite aggregation at path `p₂` is found although the same instance
    was used for a different path `p₁` before (together with `after_key_eq_full` for the second call) -/
theorem composite_extractor_second_call (c₁ c₂ : CaxCall) :
    session caxCallOn () [c₁, c₂] =
      [compositeExtract c₁.pit c₁.path c₁.hitsTotal c₁.resp, compositeExtract c₂.pit c₂.path c₂.hitsTotal c₂.resp] :=
  composite_extractor_session [c₁, c₂]

/-- **query_sessions_results.**  Invocations of paginated-search / composite-agg tasks that share a request
    body: the reported pages / hits / took / timed_out and every cursor handed on *within* an invocation do not
    depend on what earlier invocations left in the body … -/
theorem search_after_query_session (st : Style) (left : BodyLeft) (cs : List SaQCall) :
    (session (saQueryOn st) left cs).map (·.1) = cs.map (fun c => searchAfterQuery st c.pit c.size c.total c.resps) :=
  session_result_indep _ _ (fun s a => by unfold saQueryOn; cases searchAfterQuery st a.pit a.size a.total a.resps <;> rfl) left cs

theorem composite_query_session (left : AfterLeft) (cs : List CaQCall) :
    (session caQueryOn left cs).map (·.1) = cs.map (fun c => compositeQuery c.pit c.path c.total c.resps) :=
  session_result_indep _ _ (fun s a => by unfold caQueryOn; cases compositeQuery a.pit a.path a.total a.resps <;> rfl) left cs

/-- … the only thing carried over is the cursor in the FIRST request of the next invocation: it is what the
    previous invocation left in the body, and nothing is left when the loop stopped for lack of further results
    (fewer cursors than pages); it stays when the loop stopped because `pages` was reached. -/
theorem first_request_cursor_is_leftover (st : Style) (left : BodyLeft) (c : SaQCall) :
    (saQueryOn st left c).2.2 = left := by
  unfold saQueryOn; cases searchAfterQuery st c.pit c.size c.total c.resps <;> rfl

theorem body_clean_after_last_page (st : Style) (left : BodyLeft) (c : SaQCall) (acc : PageAcc)
    (h : searchAfterQuery st c.pit c.size c.total c.resps = .ok acc) (hstop : acc.cursors.length ≠ acc.pages) :
    (saQueryOn st left c).1 = none := by
  unfold saQueryOn saLeftAfter
  rw [h]
  simp [hstop]

/-- the leftover is real (observation, outside this property's statement): a cursor stays in the body when the
    page limit is reached first -/
example : saLeftAfter none { pages := 2, cursors := [some (.arr [.num (nat ['1'])]), some (.arr [.num (nat ['3'])])] } =
    some (some (.arr [.num (nat ['3'])])) := rfl

/-! ## 6. What the two bulk paths SAY about the failures (`error-description`) -/

/-- **bulk_fast_description_eq_detailed.**  Every bulk response whose items the loop can process and whose `errors`
    flag is set: the fast path and the detailed path (= full parsing) collect the same `(status, reason)` pairs — one
    for EVERY failed item, however many there are — and therefore report the same `error-description` text. -/
theorem bulk_fast_description_eq_detailed (bulkSize : Int) (unitDocs : Bool) (kvs : List (Str × Json)) (items : List Json)
    (rs : List (Option (Int × Option Str))) (h : BulkResp kvs items) (hc : Classified true items rs)
    (hf : errorsFlag kvs = true) :
    ∃ s d, simpleStats bulkSize unitDocs (.obj kvs) = .ok s ∧ detailedStats (.obj kvs) = .ok d ∧
      s.details = d.details ∧ s.description = d.description ∧ (∀ x, x ∈ s.details ↔ some x ∈ rs) := by
  have hi : itemsOf (.obj kvs) = .ok items := by simp [itemsOf, subscript, h.hitems, bind, Except.bind, pure, Except.pure]
  have hs : simpleStats bulkSize unitDocs (.obj kvs) =
      statsOf ((oget kvs kTook).map (fun n => PVal.s n.toSVal)) (tally {} rs) := by
    rw [simpleStats_normal bulkSize unitDocs kvs h.good h.errorsScalar h.tookScalar, hf]
    unfold simpleStatsWith
    rw [hi]
    simp only [if_true, countItems_eq false items rs {} (classified_true_false items rs hc)]
  have hd : detailedStats (.obj kvs) = statsOf ((oget kvs kTook).map (fun n => PVal.s n.toSVal)) (tally {} rs) := by
    unfold detailedStats
    rw [hi]
    simp only [countItems_eq true items rs {} hc, tookOf_ok kvs h.tookScalar]
  exact ⟨_, _, hs, hd, rfl, rfl, fun x => by simpa [statsOf] using tally_details rs {} x⟩

/-- **description_shows_sorted_failures.**  The entries the description is made of are a re-ordering of ALL collected
    pairs (nothing is dropped before the five smallest are taken), it is cut iff there are more than five, … -/
theorem description_shows_sorted_failures (ds : List (Int × Option Str)) :
    (sortDetails ds).Perm ds ∧ (descOf ds).shown = (sortDetails ds).take 5 ∧
    ((descOf ds).truncated.isSome ↔ ds.length > 5) := by
  refine ⟨sortDetails_perm ds, rfl, ?_⟩
  unfold descOf
  by_cases h : ds.length > 5 <;> simp [h]

/-- **truncation_summary_counts_every_failure.**  … and the `TRUNCATED <n>x<status>, …` summary accounts for every
    collected pair: the counts add up to the number of distinct failures and every status that occurs is listed. -/
theorem truncation_summary_counts_every_failure (ds : List (Int × Option Str)) :
    countSum (statusCounts ds) = ds.length ∧ ∀ d ∈ ds, ∃ n, (d.1, n) ∈ statusCounts ds ∧ n > 0 :=
  ⟨statusCounts_sum ds, fun d hd => statusCounts_mem ds d hd⟩

/-- eight version conflicts, then a mapping error (400) and a rejected item (429): the 400 is shown first although it
    was met ninth, and the summary counts all ten -/
def tenFailures : List (Int × Option Str) :=
  [(409, some ['a']), (409, some ['b']), (409, some ['c']), (409, some ['d']), (409, some ['e']), (409, some ['f']),
   (409, some ['g']), (409, some ['h']), (400, some ['m']), (429, none)]

example : (descOf tenFailures).shown = [(400, some ['m']), (409, some ['a']), (409, some ['b']), (409, some ['c']), (409, some ['d'])] ∧
    (descOf tenFailures).truncated = some [(400, 1), (409, 8), (429, 1)] := by decide

example : descEntry (429, none) = sHttp ++ intStr 429 ∧ descEntry (400, some ['m']) = sHttp ++ intStr 400 ++ sMsg ++ ['m'] :=
  ⟨rfl, rfl⟩

/-! ## 7. Several paginated searches in flight on the ONE registered `Query` object -/

/-- **searches_in_flight_independent.**  Whatever the interleaving of the page requests of the searches that are in
    flight on the shared runner (any schedule that gives search `j` enough quanta to finish), search `j` ends exactly
    as `searchAfterQuery` says for ITS OWN page size, page limit and responses — the parameters of the searches that
    run in between (in particular their `results-per-page`) are irrelevant: there is no state on the `Query` object. -/
theorem searches_in_flight_independent (st : Style) (calls : List SaQCall) (sched : List Nat) (j : Nat) (c : SaQCall)
    (hj : calls[j]? = some c) (hfair : c.resps.length + 1 ≤ sched.count j) :
    ((saSchedule st sched (calls.map saStart))[j]?).map (·.res)
      = some (some (searchAfterQuery st c.pit c.size c.total c.resps)) := by
  rw [saSchedule_get]
  simp only [List.getElem?_map, hj, Option.map_some, saStart]
  rw [saQuanta_complete st c.pit c.size c.total c.resps 1 {} (sched.count j) hfair]
  rfl

/-- two searches with different page sizes (2 and 10) over pages of three hits, requests interleaved: the hypotheses of
    the theorem hold for both (each gets three quanta, needs at most `pages served + 1`) -/
def twoSearches : List SaQCall := [⟨false, 2, 9, [page7, page7]⟩, ⟨false, 10, 9, [page7]⟩]

example : twoSearches[0]? = some ⟨false, 2, 9, [page7, page7]⟩ ∧ [page7, page7].length + 1 ≤ [0, 1, 0, 1, 0, 1].count 0 ∧
    twoSearches[1]? = some ⟨false, 10, 9, [page7]⟩ ∧ [page7].length + 1 ≤ [0, 1, 0, 1, 0, 1].count 1 := by
  refine ⟨rfl, by decide, rfl, by decide⟩

end C19
