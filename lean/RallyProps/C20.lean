import RallyModel.Compare
import RallyProofs.Compare
import RallyGen.CompareRows
/-!
# C20 — race comparison reports signed differences with the right direction

Property theorems about the model `RallyModel/Compare.lean` of `reporter.ComparisonReporter`
(`_metrics_table`, `_line`, `_diff`), instantiated with the **generated** table of `_line` call
sites `CompareRows.blocks`.  All theorems quantify over every pair of result structures (any
tasks, any subset of metrics, ints and floats, zero / negative zero / negative values).

`Val.wf` = magnitudes are non-negative (what a Python float is); `Val.exact` additionally says that
an `int` converts to `float` without rounding (every |i| ≤ 2^53) – it is only needed where the
statement compares the *true* values of an int and a float.

The percentage column (repaired in 207673c: division by `abs(baseline)`, `pct_convention`) follows the direction for
every baseline (`pct_direction_full`, `improvement_marking_pct`) and is antisymmetric up to neutrality for any two
non-zero values (`pct_swap_nonzero`).  What remains false is antisymmetry at a **zero** baseline (known finding
`pct-zero-baseline`): `PctSwapFull` is kept as a statement, refuted by `pct_swap_full_false`, and proved under the
extra hypothesis in `pct_swap_partial`.  `pct_direction_signed_baseline_Pinned` records the defect of the old formula.
The transform guards are symmetric since 66ce162 (`guards_symmetric`), so `swap_table_generated` needs no hypothesis.
-/
namespace C20
open Compare

/-! ## rows_iff_both_present -/

/-- **rows_iff_both_present** (one scope: the global attributes, one task, or one ML job / transform):
    the table has a row for a `_line` call site iff the metric is present in *both* races. -/
theorem rows_iff_both_present (plain showProc : Bool) (specs : List RowSpec) (task : Str) (b c : Scope) (r : Row) :
    r ∈ scopeRows plain showProc specs task b c ↔
      ∃ s ∈ specs, active showProc s = true ∧ ∃ bv cv, lookup s.key b.vals = some bv ∧
        lookup s.key c.vals = some cv ∧ r = mkRow plain s task (unitOf s.unit b) bv cv := by
  unfold scopeRows
  simp only [List.mem_filterMap, List.mem_filter, line_eq_some_iff]
  constructor
  · rintro ⟨s, ⟨hs, ha⟩, h⟩; exact ⟨s, hs, ha, h⟩
  · rintro ⟨s, hs, ha, h⟩; exact ⟨s, ⟨hs, ha⟩, h⟩

/-- tasks: rows exist exactly for the tasks named in both races (each compared through the first
    record of that name, as `GlobalStats.metrics` does), and inside a task for the metrics in both. -/
theorem task_rows_iff (plain showProc : Bool) (specs : List RowSpec) (b c : Stats) (r : Row) :
    r ∈ taskRows plain showProc specs b c ↔
      ∃ t ∈ b.tasks, ∃ bt ct, findTask t.name b.tasks = some bt ∧ findTask t.name c.tasks = some ct ∧
        r ∈ scopeRows plain showProc specs t.name bt.sc ct.sc := by
  unfold taskRows
  simp only [List.mem_flatMap]
  constructor
  · rintro ⟨t, ht, hr⟩
    cases hc : findTask t.name c.tasks <;> cases hb : findTask t.name b.tasks <;> simp [hc, hb] at hr
    exact ⟨t, ht, _, _, hb, hc, hr⟩
  · rintro ⟨t, ht, bt, ct, hb, hc, hr⟩
    exact ⟨t, ht, by simp [hb, hc, hr]⟩

/-- the name a record is listed and looked up under is its `task` field whenever it has one – whatever its
    operation is called; only a record without a task key (race files before Rally 0.8.0) goes by its operation -/
theorem task_name_def (n op : Str) (sc : Scope) :
    (TaskM.mk (some n) op sc).name = n ∧ (TaskM.mk none op sc).name = op := ⟨rfl, rfl⟩

/-- **each task is compared through its own record**: in a race with pairwise distinct task names the lookup
    `metrics(t)` returns the record whose name is `t` – never a record of another task that shares the operation
    or whose operation is called like `t` -/
theorem task_lookup_own_record (l : List TaskM) (hnd : (l.map TaskM.name).Nodup) (t : TaskM) (ht : t ∈ l) :
    findTask t.name l = some t ∧ ∀ u, findTask t.name l = some u → u = t := by
  have h := findTask_of_nodup hnd ht
  exact ⟨h, fun u hu => by rw [h] at hu; cases hu; rfl⟩

/-- **task_rows_own_values**: with pairwise distinct task names in both races, the rows listed for a task are
    exactly the rows built from the values stored in *the* baseline record and *the* contender record of that
    name (matched by their own `task` field, in the order of the baseline's records). -/
theorem task_rows_own_values (plain showProc : Bool) (specs : List RowSpec) (b c : Stats)
    (hb : (b.tasks.map TaskM.name).Nodup) (hc : (c.tasks.map TaskM.name).Nodup) (r : Row) :
    r ∈ taskRows plain showProc specs b c ↔
      ∃ bt ∈ b.tasks, ∃ ct ∈ c.tasks, ct.name = bt.name ∧ r ∈ scopeRows plain showProc specs bt.name bt.sc ct.sc := by
  rw [task_rows_iff]
  constructor
  · rintro ⟨t, ht, bt, ct, h1, h2, hr⟩
    have e1 := findTask_of_nodup hb ht
    rw [e1] at h1; cases h1
    exact ⟨t, ht, ct, (findTask_some h2).1, (findTask_some h2).2, hr⟩
  · rintro ⟨bt, hbt, ct, hct, hn, hr⟩
    refine ⟨bt, hbt, bt, ct, findTask_of_nodup hb hbt, ?_, hr⟩
    rw [← hn]; exact findTask_of_nodup hc hct

/-- ML jobs / transforms: one group of rows per pair of entries with the same id (when no `is None` guard
    skips the block; a skipped block has no rows). -/
theorem join_rows_iff (plain showProc : Bool) (k : Str) (gb gc : Option Str) (specs : List RowSpec) (b c : Stats)
    (bl cl : List Entry) (hb : getList k b = some bl) (hc : getList k c = some cl)
    (hskip : (guardSkips gb b || guardSkips gc c) = false) :
    ∃ rows, joinRows plain showProc k gb gc specs b c = .ok rows ∧
      ∀ r, r ∈ rows ↔ ∃ be ∈ bl, ∃ ce ∈ cl, ce.id = be.id ∧ r ∈ scopeRows plain showProc specs be.id be.sc ce.sc := by
  unfold joinRows
  simp only [hskip, hb, hc]
  cases bl with
  | nil => exact ⟨[], by simp, by simp⟩
  | cons e bl =>
    refine ⟨_, rfl, ?_⟩
    intro r
    simp only [List.mem_flatMap, List.mem_filter, decide_eq_true_eq]
    constructor
    · rintro ⟨be, hbe, ce, ⟨hce, hid⟩, hr⟩; exact ⟨be, hbe, ce, hce, hid, hr⟩
    · rintro ⟨be, hbe, ce, hce, hid, hr⟩; exact ⟨be, hbe, ce, ⟨hce, hid⟩, hr⟩

/-- the table is the concatenation of its blocks -/
theorem table_rows_iff (blocks : List Block) (plain showProc : Bool) (b c : Stats) (rows : List Row)
    (h : metricsTable blocks plain showProc b c = .ok rows) (r : Row) :
    r ∈ rows ↔ ∃ blk ∈ blocks, ∃ rs, blockRows plain showProc b c blk = .ok rs ∧ r ∈ rs := by
  induction blocks generalizing rows with
  | nil => simp [metricsTable] at h; subst h; simp
  | cons blk rest ih =>
    simp only [metricsTable] at h
    cases h1 : blockRows plain showProc b c blk with
    | error e => simp [h1] at h
    | ok r1 =>
      cases h2 : metricsTable rest plain showProc b c with
      | error e => simp [h1, h2] at h
      | ok r2 =>
        simp [h1, h2] at h
        subst h
        simp only [List.mem_append, ih r2 h2, List.mem_cons]
        constructor
        · rintro (hr | ⟨bk, hbk, rs, hrs, hr⟩)
          · exact ⟨blk, Or.inl rfl, r1, h1, hr⟩
          · exact ⟨bk, Or.inr hbk, rs, hrs, hr⟩
        · rintro ⟨bk, (rfl | hbk), rs, hrs, hr⟩
          · rw [h1] at hrs; cases hrs; exact Or.inl hr
          · exact Or.inr ⟨bk, hbk, rs, hrs, hr⟩

/-! ## cells_def -/

/-- **cells_def**: a row shows the label, the task, the formatted baseline and contender values,
    `formatter(contender − baseline)` printed with 5 decimals and the relative difference
    `(contender − baseline) / baseline · 100` (0 for a zero baseline) printed with 2 decimals and `%`. -/
theorem cells_def (plain : Bool) (s : RowSpec) (task : Str) (unit : Option Str) (bv cv : Val) :
    let r := mkRow plain s task unit bv cv
    r.label = s.label ∧ r.task = task ∧ r.unit = unit ∧
    r.base = s.fmt.apply bv ∧ r.cont = s.fmt.apply cv ∧
    r.diff = mkCell plain s.incGood 5 false (s.fmt.apply (cv.sub bv)) ∧
    r.diff.n = scaled 5 (s.fmt.apply (cv.sub bv)).toSM.mag ∧
    r.diff.neg = (s.fmt.apply (cv.sub bv)).toSM.neg ∧
    r.pct = mkCell plain s.incGood 2 true
      (Val.mulK (if (if s.pctAbs then bv.abs else bv).truthy
        then .flt ((cv.sub bv).div (if s.pctAbs then bv.abs else bv)) else .int 0) 100) ∧
    r.pct.pct = true ∧ r.diff.pct = false := by
  refine ⟨rfl, rfl, rfl, rfl, rfl, rfl, ?_, ?_, rfl, ?_, ?_⟩
  all_goals
    simp only [mkRow, diffCell, pctCell, diffVal]
    rcases mkCell_cases plain s.incGood _ _ _ with ⟨_, e⟩ | ⟨_, e⟩ | ⟨_, _, e⟩ <;> rw [e]

/-- for two ints and the identity formatter the Diff cell is the exact integer difference -/
theorem diff_int_exact (i j : ℤ) : diffVal .ident (.int i) (.int j) = .int (j - i) := rfl

/-! ## direction table (generated) and colour_follows_direction -/

def throughputWord : Str := ['h', 'r', 'o', 'u', 'g', 'h', 'p', 'u', 't']

/-- **direction_table**: in the table extracted from the implementation, exactly the throughput rows
    treat an increase as an improvement; every other row (latency, service time, processing time,
    error rate, times, counts, sizes) treats a decrease as an improvement. -/
theorem direction_table :
    ∀ s ∈ allSpecs CompareRows.blocks, s.incGood = hasInfix throughputWord s.label := by decide

def metricKeys : List Str := [
  ['t', 'o', 't', 'a', 'l', '_', 't', 'i', 'm', 'e'],
  ['t', 'o', 't', 'a', 'l', '_', 't', 'i', 'm', 'e', '_', 'p', 'e', 'r', '_', 's', 'h', 'a', 'r', 'd', '.', 'm', 'i', 'n'],
  ['t', 'o', 't', 'a', 'l', '_', 't', 'i', 'm', 'e', '_', 'p', 'e', 'r', '_', 's', 'h', 'a', 'r', 'd', '.', 'm', 'e', 'd', 'i', 'a', 'n'],
  ['t', 'o', 't', 'a', 'l', '_', 't', 'i', 'm', 'e', '_', 'p', 'e', 'r', '_', 's', 'h', 'a', 'r', 'd', '.', 'm', 'a', 'x'],
  ['i', 'n', 'd', 'e', 'x', 'i', 'n', 'g', '_', 't', 'h', 'r', 'o', 't', 't', 'l', 'e', '_', 't', 'i', 'm', 'e'],
  ['m', 'e', 'r', 'g', 'e', '_', 't', 'i', 'm', 'e'],
  ['m', 'e', 'r', 'g', 'e', '_', 'c', 'o', 'u', 'n', 't'],
  ['m', 'e', 'r', 'g', 'e', '_', 't', 'h', 'r', 'o', 't', 't', 'l', 'e', '_', 't', 'i', 'm', 'e'],
  ['r', 'e', 'f', 'r', 'e', 's', 'h', '_', 't', 'i', 'm', 'e'],
  ['r', 'e', 'f', 'r', 'e', 's', 'h', '_', 'c', 'o', 'u', 'n', 't'],
  ['f', 'l', 'u', 's', 'h', '_', 't', 'i', 'm', 'e'],
  ['f', 'l', 'u', 's', 'h', '_', 'c', 'o', 'u', 'n', 't'],
  ['y', 'o', 'u', 'n', 'g', '_', 'g', 'c', '_', 't', 'i', 'm', 'e'],
  ['y', 'o', 'u', 'n', 'g', '_', 'g', 'c', '_', 'c', 'o', 'u', 'n', 't'],
  ['o', 'l', 'd', '_', 'g', 'c', '_', 't', 'i', 'm', 'e'],
  ['o', 'l', 'd', '_', 'g', 'c', '_', 'c', 'o', 'u', 'n', 't'],
  ['z', 'g', 'c', '_', 'c', 'y', 'c', 'l', 'e', 's', '_', 'g', 'c', '_', 't', 'i', 'm', 'e'],
  ['z', 'g', 'c', '_', 'c', 'y', 'c', 'l', 'e', 's', '_', 'g', 'c', '_', 'c', 'o', 'u', 'n', 't'],
  ['z', 'g', 'c', '_', 'p', 'a', 'u', 's', 'e', 's', '_', 'g', 'c', '_', 't', 'i', 'm', 'e'],
  ['z', 'g', 'c', '_', 'p', 'a', 'u', 's', 'e', 's', '_', 'g', 'c', '_', 'c', 'o', 'u', 'n', 't'],
  ['d', 'a', 't', 'a', 's', 'e', 't', '_', 's', 'i', 'z', 'e'],
  ['s', 't', 'o', 'r', 'e', '_', 's', 'i', 'z', 'e'],
  ['t', 'r', 'a', 'n', 's', 'l', 'o', 'g', '_', 's', 'i', 'z', 'e'],
  ['m', 'e', 'm', 'o', 'r', 'y', '_', 's', 'e', 'g', 'm', 'e', 'n', 't', 's'],
  ['m', 'e', 'm', 'o', 'r', 'y', '_', 'd', 'o', 'c', '_', 'v', 'a', 'l', 'u', 'e', 's'],
  ['m', 'e', 'm', 'o', 'r', 'y', '_', 't', 'e', 'r', 'm', 's'],
  ['m', 'e', 'm', 'o', 'r', 'y', '_', 'n', 'o', 'r', 'm', 's'],
  ['m', 'e', 'm', 'o', 'r', 'y', '_', 'p', 'o', 'i', 'n', 't', 's'],
  ['m', 'e', 'm', 'o', 'r', 'y', '_', 's', 't', 'o', 'r', 'e', 'd', '_', 'f', 'i', 'e', 'l', 'd', 's'],
  ['s', 'e', 'g', 'm', 'e', 'n', 't', '_', 'c', 'o', 'u', 'n', 't'],
  ['i', 'n', 'g', 'e', 's', 't', '_', 'p', 'i', 'p', 'e', 'l', 'i', 'n', 'e', '_', 'c', 'l', 'u', 's', 't', 'e', 'r', '_', 'c', 'o', 'u', 'n', 't'],
  ['i', 'n', 'g', 'e', 's', 't', '_', 'p', 'i', 'p', 'e', 'l', 'i', 'n', 'e', '_', 'c', 'l', 'u', 's', 't', 'e', 'r', '_', 't', 'i', 'm', 'e'],
  ['i', 'n', 'g', 'e', 's', 't', '_', 'p', 'i', 'p', 'e', 'l', 'i', 'n', 'e', '_', 'c', 'l', 'u', 's', 't', 'e', 'r', '_', 'f', 'a', 'i', 'l', 'e', 'd'],
  ['t', 'h', 'r', 'o', 'u', 'g', 'h', 'p', 'u', 't', '.', 'm', 'i', 'n'],
  ['t', 'h', 'r', 'o', 'u', 'g', 'h', 'p', 'u', 't', '.', 'm', 'e', 'a', 'n'],
  ['t', 'h', 'r', 'o', 'u', 'g', 'h', 'p', 'u', 't', '.', 'm', 'e', 'd', 'i', 'a', 'n'],
  ['t', 'h', 'r', 'o', 'u', 'g', 'h', 'p', 'u', 't', '.', 'm', 'a', 'x'],
  ['l', 'a', 't', 'e', 'n', 'c', 'y', '.', '5', '0', '_', '0'],
  ['l', 'a', 't', 'e', 'n', 'c', 'y', '.', '9', '0', '_', '0'],
  ['l', 'a', 't', 'e', 'n', 'c', 'y', '.', '9', '9', '_', '0'],
  ['l', 'a', 't', 'e', 'n', 'c', 'y', '.', '9', '9', '_', '9'],
  ['l', 'a', 't', 'e', 'n', 'c', 'y', '.', '9', '9', '_', '9', '9'],
  ['l', 'a', 't', 'e', 'n', 'c', 'y', '.', '1', '0', '0', '_', '0'],
  ['s', 'e', 'r', 'v', 'i', 'c', 'e', '_', 't', 'i', 'm', 'e', '.', '5', '0', '_', '0'],
  ['s', 'e', 'r', 'v', 'i', 'c', 'e', '_', 't', 'i', 'm', 'e', '.', '9', '0', '_', '0'],
  ['s', 'e', 'r', 'v', 'i', 'c', 'e', '_', 't', 'i', 'm', 'e', '.', '9', '9', '_', '0'],
  ['s', 'e', 'r', 'v', 'i', 'c', 'e', '_', 't', 'i', 'm', 'e', '.', '9', '9', '_', '9'],
  ['s', 'e', 'r', 'v', 'i', 'c', 'e', '_', 't', 'i', 'm', 'e', '.', '9', '9', '_', '9', '9'],
  ['s', 'e', 'r', 'v', 'i', 'c', 'e', '_', 't', 'i', 'm', 'e', '.', '1', '0', '0', '_', '0'],
  ['p', 'r', 'o', 'c', 'e', 's', 's', 'i', 'n', 'g', '_', 't', 'i', 'm', 'e', '.', '5', '0', '_', '0'],
  ['p', 'r', 'o', 'c', 'e', 's', 's', 'i', 'n', 'g', '_', 't', 'i', 'm', 'e', '.', '1', '0', '0', '_', '0'],
  ['e', 'r', 'r', 'o', 'r', '_', 'r', 'a', 't', 'e'],
  ['m', 'i', 'n'],
  ['m', 'e', 'a', 'n'],
  ['m', 'e', 'd', 'i', 'a', 'n'],
  ['m', 'a', 'x']]

set_option maxRecDepth 20000 in
/-- every metric of a race result has a `_line` call site (no metric is silently dropped) -/
theorem table_covers_metrics : ∀ k ∈ metricKeys, ∃ s ∈ allSpecs CompareRows.blocks, s.key = k := by decide

def listMetricKeys : List (Str × Str) := [
  (['m', 'l', '_', 'p', 'r', 'o', 'c', 'e', 's', 's', 'i', 'n', 'g', '_', 't', 'i', 'm', 'e'], ['m', 'i', 'n']),
  (['m', 'l', '_', 'p', 'r', 'o', 'c', 'e', 's', 's', 'i', 'n', 'g', '_', 't', 'i', 'm', 'e'], ['m', 'e', 'a', 'n']),
  (['m', 'l', '_', 'p', 'r', 'o', 'c', 'e', 's', 's', 'i', 'n', 'g', '_', 't', 'i', 'm', 'e'], ['m', 'e', 'd', 'i', 'a', 'n']),
  (['m', 'l', '_', 'p', 'r', 'o', 'c', 'e', 's', 's', 'i', 'n', 'g', '_', 't', 'i', 'm', 'e'], ['m', 'a', 'x']),
  (['t', 'o', 't', 'a', 'l', '_', 't', 'r', 'a', 'n', 's', 'f', 'o', 'r', 'm', '_', 'p', 'r', 'o', 'c', 'e', 's', 's', 'i', 'n', 'g', '_', 't', 'i', 'm', 'e', 's'], ['m', 'e', 'a', 'n']),
  (['t', 'o', 't', 'a', 'l', '_', 't', 'r', 'a', 'n', 's', 'f', 'o', 'r', 'm', '_', 'i', 'n', 'd', 'e', 'x', '_', 't', 'i', 'm', 'e', 's'], ['m', 'e', 'a', 'n']),
  (['t', 'o', 't', 'a', 'l', '_', 't', 'r', 'a', 'n', 's', 'f', 'o', 'r', 'm', '_', 's', 'e', 'a', 'r', 'c', 'h', '_', 't', 'i', 'm', 'e', 's'], ['m', 'e', 'a', 'n']),
  (['t', 'o', 't', 'a', 'l', '_', 't', 'r', 'a', 'n', 's', 'f', 'o', 'r', 'm', '_', 't', 'h', 'r', 'o', 'u', 'g', 'h', 'p', 'u', 't'], ['m', 'e', 'a', 'n'])]

def joinedKeys : Block → List (Str × Str)
  | .joined k _ _ specs => specs.map (fun s => (k, s.key))
  | _ => []

/-- every ML job statistic and every transform statistic has a call site in the block of its own list -/
theorem table_covers_list_metrics : ∀ p ∈ listMetricKeys, p ∈ CompareRows.blocks.flatMap joinedKeys := by decide

/-- the unit shown matches the conversion applied -/
theorem unit_matches_formatter :
    ∀ s ∈ allSpecs CompareRows.blocks,
      (s.fmt = .msToMin → s.unit = .const ['m', 'i', 'n']) ∧ (s.fmt = .msToSec → s.unit = .const ['s']) ∧
      (s.fmt = .bytesToGb → s.unit = .const ['G', 'B']) ∧ (s.fmt = .bytesToMb → s.unit = .const ['M', 'B']) ∧
      (s.fmt = .times100 → s.unit = .const ['%']) := by decide

/-- **colour_follows_direction** (Diff column, console table): green only for a real improvement,
    red only for a real regression, according to the row's direction; the `+` goes with an increase. -/
theorem colour_follows_direction (s : RowSpec) (task : Str) (unit : Option Str) (bv cv : Val)
    (hb : bv.exact) (hc : cv.exact) :
    let d := (mkRow false s task unit bv cv).diff
    (d.colour = .green → (s.incGood = true ∧ bv.rat < cv.rat) ∨ (s.incGood = false ∧ cv.rat < bv.rat)) ∧
    (d.colour = .red → (s.incGood = true ∧ cv.rat < bv.rat) ∨ (s.incGood = false ∧ bv.rat < cv.rat)) ∧
    (d.plus = true → bv.rat < cv.rat) ∧
    (d.colour = .neutral ↔ (-(thr 5) < (diffVal s.fmt bv cv).rat ∧ (diffVal s.fmt bv cv).rat < thr 5)) ∧
    d.colour ≠ .none := by
  have hp := thr_pos 5
  have hpos := diffVal_pos_iff s.fmt hb hc
  have hneg := diffVal_neg_iff s.fmt hb hc
  simp only [mkRow, diffCell]
  rcases mkCell_cases false s.incGood 5 false (diffVal s.fmt bv cv) with ⟨h, e⟩ | ⟨h, e⟩ | ⟨h, h', e⟩ <;> rw [e]
  · have hlt : bv.rat < cv.rat := hpos.mp (lt_of_lt_of_le hp h)
    cases hi : s.incGood <;> simp [greaterCol, hlt] <;> intro h1 <;> linarith
  · have hlt : cv.rat < bv.rat := hneg.mp (by linarith)
    cases hi : s.incGood <;> simp [smallerCol, hlt] <;> intro h1 <;> linarith
  · simp [neutr, h, h']

/-- the same with the generated direction: a row whose label names a throughput is green only when the
    contender is higher and red only when it is lower; every other row the other way round. -/
theorem improvement_marking (s : RowSpec) (hs : s ∈ allSpecs CompareRows.blocks) (task : Str) (unit : Option Str)
    (bv cv : Val) (hb : bv.exact) (hc : cv.exact) :
    ((mkRow false s task unit bv cv).diff.colour = .green →
      if hasInfix throughputWord s.label then bv.rat < cv.rat else cv.rat < bv.rat) ∧
    ((mkRow false s task unit bv cv).diff.colour = .red →
      if hasInfix throughputWord s.label then cv.rat < bv.rat else bv.rat < cv.rat) := by
  have hd := direction_table s hs
  have h := colour_follows_direction s task unit bv cv hb hc
  rw [← hd]
  constructor
  · intro hg
    rcases h.1 hg with ⟨h1, h2⟩ | ⟨h1, h2⟩ <;> simp [h1, h2]
  · intro hr
    rcases h.2.1 hr with ⟨h1, h2⟩ | ⟨h1, h2⟩ <;> simp [h1, h2]

/-! ## prints_zero_is_neutral -/

/-- **prints_zero_is_neutral**: a Diff / Diff % cell whose digits are all `0` is coloured neutrally
    (never green or red) and carries no `+` — for every formatter, direction and pair of values. -/
theorem prints_zero_is_neutral (plain : Bool) (s : RowSpec) (task : Str) (unit : Option Str) (bv cv : Val)
    (hb : bv.wf) :
    let r := mkRow plain s task unit bv cv
    ((∀ ch ∈ fixedStr r.diff.prec r.diff.n, ch = '0' ∨ ch = '.') →
        r.diff.colour = neutr plain ∧ r.diff.plus = false) ∧
    ((∀ ch ∈ fixedStr r.pct.prec r.pct.n, ch = '0' ∨ ch = '.') →
        r.pct.colour = neutr plain ∧ r.pct.plus = false) := by
  constructor
  · intro h
    exact mkCell_zero_neutral plain s.incGood 5 false (diffVal_wf s.fmt bv cv) (fixedStr_zero h)
  · intro h
    exact mkCell_zero_neutral plain s.incGood 2 true (pctVal_wf hb s.pctAbs cv) (fixedStr_zero h)

/-! ## self_compare_neutral -/

/-- a row that shows no difference: `0.00000` and `0.00%` (or `-0.00%`), neutral, no `+` -/
def noDifference (plain : Bool) (r : Row) : Prop :=
  r.base = r.cont ∧ r.diff = ⟨neutr plain, false, false, 0, 5, false⟩ ∧
    ∃ sg, r.pct = ⟨neutr plain, false, sg, 0, 2, true⟩

theorem mkRow_self (plain : Bool) (s : RowSpec) (task : Str) (unit : Option Str) (v : Val) :
    noDifference plain (mkRow plain s task unit v v) :=
  ⟨rfl, diffCell_self plain s.incGood s.fmt v, pctCell_self plain s.incGood s.pctAbs v⟩

theorem scope_self (plain showProc : Bool) (specs : List RowSpec) (task : Str) (b : Scope) :
    ∀ r ∈ scopeRows plain showProc specs task b b, noDifference plain r := by
  intro r hr
  obtain ⟨s, _, _, bv, cv, h1, h2, rfl⟩ := (rows_iff_both_present plain showProc specs task b b r).mp hr
  rw [h1] at h2; cases h2
  exact mkRow_self plain s task _ bv

theorem block_self (plain showProc : Bool) (st : Stats)
    (hnd : ∀ k l, getList k st = some l → (l.map Entry.id).Nodup) (blk : Block) (rs : List Row)
    (h : blockRows plain showProc st st blk = .ok rs) : ∀ r ∈ rs, noDifference plain r := by
  cases blk with
  | scalars specs =>
    simp only [blockRows, Except.ok.injEq] at h; subst h
    exact scope_self plain showProc specs [] st.glob
  | tasks specs =>
    simp only [blockRows, Except.ok.injEq] at h; subst h
    intro r hr
    obtain ⟨t, _, bt, ct, h1, h2, hr⟩ := (task_rows_iff plain showProc specs st st r).mp hr
    rw [h1] at h2; cases h2
    exact scope_self plain showProc specs t.name bt.sc r hr
  | joined k gb gc specs =>
    simp only [blockRows] at h
    unfold joinRows at h
    by_cases hsk : (guardSkips gb st || guardSkips gc st) = true
    · rw [if_pos hsk] at h; cases h; intro r hr; cases hr
    · rw [if_neg hsk] at h
      cases hl : getList k st with
      | none => simp only [hl] at h; cases h
      | some l =>
        cases l with
        | nil => simp only [hl] at h; cases h; intro r hr; cases hr
        | cons e l =>
          simp only [hl] at h
          cases h
          intro r hr
          simp only [List.mem_flatMap, List.mem_filter, decide_eq_true_eq] at hr
          obtain ⟨be, hbe, ce, ⟨hce, hid⟩, hr⟩ := hr
          have hnd' := hnd k _ hl
          have : ce = be := List.inj_on_of_nodup_map hnd' hce hbe hid
          subst this
          exact scope_self plain showProc specs ce.id ce.sc r hr

/-- **self_compare_neutral**: comparing a race with itself shows no difference in any row
    (ML jobs / transforms are matched by name, so their names must be distinct within a race). -/
theorem self_compare_neutral (blocks : List Block) (plain showProc : Bool) (st : Stats)
    (hnd : ∀ k l, getList k st = some l → (l.map Entry.id).Nodup) (rows : List Row)
    (h : metricsTable blocks plain showProc st st = .ok rows) : ∀ r ∈ rows, noDifference plain r := by
  intro r hr
  obtain ⟨blk, _, rs, hrs, hmem⟩ := (table_rows_iff blocks plain showProc st st rows h r).mp hr
  exact block_self plain showProc st hnd blk rs hrs r hmem

/-! ## swap_antisymmetric -/

/-- `r'` is `r` with baseline and contender exchanged: same metric, values exchanged, and the Diff
    cell shows the same digits with the opposite sign and the opposite colour (`CellOpp`). -/
def swapOf (r r' : Row) : Prop :=
  r'.label = r.label ∧ r'.task = r.task ∧ r'.base = r.cont ∧ r'.cont = r.base ∧ CellOpp r.diff r'.diff

/-- **swap_antisymmetric** (one row, Diff column, all values): exchanging baseline and contender
    keeps the digits, flips green ↔ red (neutral stays neutral), turns `+x` into `-x` and back, and
    never prints a `-` on both sides. -/
theorem swap_antisymmetric (plain : Bool) (s : RowSpec) (task : Str) (u u' : Option Str) (bv cv : Val) :
    swapOf (mkRow plain s task u bv cv) (mkRow plain s task u' cv bv) :=
  ⟨rfl, rfl, rfl, rfl,
    mkCell_swap plain s.incGood 5 false (diffVal_oppV s.fmt bv cv) (diffVal_wf s.fmt bv cv) (diffVal_wf s.fmt cv bv)⟩

theorem scope_swap (plain showProc : Bool) (specs : List RowSpec) (task : Str) (b c : Scope) :
    ∀ r ∈ scopeRows plain showProc specs task b c, ∃ r' ∈ scopeRows plain showProc specs task c b, swapOf r r' := by
  intro r hr
  obtain ⟨s, hs, ha, bv, cv, h1, h2, rfl⟩ := (rows_iff_both_present plain showProc specs task b c r).mp hr
  exact ⟨mkRow plain s task (unitOf s.unit c) cv bv,
    (rows_iff_both_present plain showProc specs task c b _).mpr ⟨s, hs, ha, cv, bv, h2, h1, rfl⟩,
    swap_antisymmetric plain s task _ _ bv cv⟩

/-- a block tests the same list for `None` on the baseline and on the contender side (or none at all) -/
def guardSym : Block → Bool
  | .joined _ gb gc _ => gb == gc
  | _ => true

/-- since 66ce162 the transform blocks return early if *either* race has no transform statistics:
    in the table extracted from the implementation every guard is symmetric -/
theorem guards_symmetric : ∀ blk ∈ CompareRows.blocks, guardSym blk = true := by decide

theorem block_swap (plain showProc : Bool) (b c : Stats) (blk : Block) (hsym : guardSym blk = true)
    (rs rs' : List Row) (h : blockRows plain showProc b c blk = .ok rs) (h' : blockRows plain showProc c b blk = .ok rs') :
    ∀ r ∈ rs, ∃ r' ∈ rs', swapOf r r' := by
  cases blk with
  | scalars specs =>
    simp only [blockRows, Except.ok.injEq] at h h'; subst h; subst h'
    exact scope_swap plain showProc specs [] b.glob c.glob
  | tasks specs =>
    simp only [blockRows, Except.ok.injEq] at h h'; subst h; subst h'
    intro r hr
    obtain ⟨t, _, bt, ct, h1, h2, hr⟩ := (task_rows_iff plain showProc specs b c r).mp hr
    obtain ⟨r', hr', hsw⟩ := scope_swap plain showProc specs t.name bt.sc ct.sc r hr
    refine ⟨r', (task_rows_iff plain showProc specs c b r').mpr ?_, hsw⟩
    have hct := findTask_some h2
    refine ⟨ct, hct.1, ct, bt, ?_, ?_, ?_⟩
    · rw [hct.2]; exact h2
    · rw [hct.2]; exact h1
    · rw [hct.2]; exact hr'
  | joined k gb gc specs =>
    intro r hr
    have hgg : gb = gc := by simpa [guardSym] using hsym
    subst hgg
    by_cases hsk : (guardSkips gb b || guardSkips gb c) = true
    · exfalso
      simp only [blockRows, joinRows, hsk, if_true, Except.ok.injEq] at h
      subst h; cases hr
    have hns : (guardSkips gb b || guardSkips gb c) = false := by simpa using hsk
    have hns' : (guardSkips gb c || guardSkips gb b) = false := by rw [Bool.or_comm]; exact hns
    simp only [blockRows] at h h'
    -- both lists are present, otherwise one side is an error or has no rows
    cases hb : getList k b with
    | none =>
      exfalso
      unfold joinRows at h
      simp [hns, hb] at h
    | some bl =>
      cases hc : getList k c with
      | none =>
        exfalso
        unfold joinRows at h
        simp only [hns, hb, hc] at h
        cases bl with
        | nil => simp at h; subst h; simp at hr
        | cons e bl => simp at h
      | some cl =>
        obtain ⟨rows, e1, m1⟩ := join_rows_iff plain showProc k gb gb specs b c bl cl hb hc hns
        obtain ⟨rows', e2, m2⟩ := join_rows_iff plain showProc k gb gb specs c b cl bl hc hb hns'
        rw [e1] at h; cases h
        rw [e2] at h'; cases h'
        obtain ⟨be, hbe, ce, hce, hid, hr⟩ := (m1 r).mp hr
        obtain ⟨r', hr', hsw⟩ := scope_swap plain showProc specs be.id be.sc ce.sc r hr
        refine ⟨r', (m2 r').mpr ⟨ce, hce, be, hbe, hid.symm, ?_⟩, hsw⟩
        rw [hid]; exact hr'

/-- **swap_antisymmetric (whole table)**: every row of `compare(b, c)` has its mirror image in `compare(c, b)`. -/
theorem swap_table (blocks : List Block) (plain showProc : Bool) (b c : Stats) (hg : ∀ blk ∈ blocks, guardSym blk = true)
    (rows rows' : List Row) (h : metricsTable blocks plain showProc b c = .ok rows)
    (h' : metricsTable blocks plain showProc c b = .ok rows') :
    ∀ r ∈ rows, ∃ r' ∈ rows', swapOf r r' := by
  intro r hr
  obtain ⟨blk, hblk, rs, hrs, hmem⟩ := (table_rows_iff blocks plain showProc b c rows h r).mp hr
  -- the mirrored block is ok as well because the whole mirrored table is
  have hok : ∃ rs', blockRows plain showProc c b blk = .ok rs' := by
    clear hr hrs hmem h
    induction blocks generalizing rows' with
    | nil => cases hblk
    | cons b0 rest ih =>
      simp only [metricsTable] at h'
      cases h1 : blockRows plain showProc c b b0 with
      | error e => simp [h1] at h'
      | ok r1 =>
        cases h2 : metricsTable rest plain showProc c b with
        | error e => simp [h1, h2] at h'
        | ok r2 =>
          rcases List.mem_cons.mp hblk with rfl | hin
          · exact ⟨r1, h1⟩
          · exact ih (fun bk hm => hg bk (List.mem_cons_of_mem _ hm)) r2 h2 hin
  obtain ⟨rs', hrs'⟩ := hok
  obtain ⟨r', hr', hsw⟩ := block_swap plain showProc b c blk
    (hg blk hblk) rs rs' hrs hrs' r hmem
  exact ⟨r', (table_rows_iff blocks plain showProc c b rows' h' r').mpr ⟨blk, hblk, rs', hrs', hr'⟩, hsw⟩

/-- **swap_antisymmetric for the comparison as implemented**: no hypothesis on the races is left -/
theorem swap_table_generated (plain showProc : Bool) (b c : Stats) (rows rows' : List Row)
    (h : metricsTable CompareRows.blocks plain showProc b c = .ok rows)
    (h' : metricsTable CompareRows.blocks plain showProc c b = .ok rows') :
    ∀ r ∈ rows, ∃ r' ∈ rows', swapOf r r' :=
  swap_table CompareRows.blocks plain showProc b c guards_symmetric rows rows' h h'

/-! ### the percentage column -/

/-- since 207673c every call site of the table extracted from the implementation divides by `abs(baseline)`:
    the relative difference has the sign of the absolute difference -/
theorem pct_convention : ∀ s ∈ allSpecs CompareRows.blocks, s.pctAbs = true := by decide

/-- what the property text asks of the percentage column as well: colour follows the direction … -/
def PctDirectionFull (absB : Bool) : Prop :=
  ∀ (incGood : Bool) (b c : Val), b.exact → c.exact →
    ((pctCell false incGood absB b c).colour = .green → (incGood = true ∧ b.rat < c.rat) ∨ (incGood = false ∧ c.rat < b.rat)) ∧
    ((pctCell false incGood absB b c).colour = .red → (incGood = true ∧ c.rat < b.rat) ∨ (incGood = false ∧ b.rat < c.rat))

/-- … and swapping baseline and contender flips its colour -/
def PctSwapFull (absB : Bool) : Prop :=
  ∀ (incGood : Bool) (b c : Val), b.wf → c.wf →
    (pctCell false incGood absB c b).colour = (pctCell false incGood absB b c).colour.flip

/-- historical (the code before 207673c divided by the signed `baseline`): baseline −1, contender −2 on a
    higher-is-better row: the value *decreased*, yet the percentage cell was `+100.00%` in green.  Pinned so that
    a return to the signed division is known to break the direction clause. -/
theorem pct_direction_signed_baseline_Pinned : ¬ PctDirectionFull false := by
  intro h
  have hex1 : (Val.int (-1)).exact := by simp [Val.exact, fl_one]
  have hex2 : (Val.int (-2)).exact := by
    have := Dbl.fl_natCast (n := 2) (by norm_num)
    simpa [Val.exact] using this
  have hcol : (pctCell false true false (.int (-1)) (.int (-2))).colour = .green := by
    unfold pctCell
    rw [pctVal_m1_m2]
    rcases mkCell_cases false true 2 true (.flt ⟨false, 100⟩) with ⟨_, e⟩ | ⟨h1, _⟩ | ⟨_, h1, _⟩
    · rw [e]; rfl
    · have := thr_pos 2; simp [Val.rat, SM.val] at h1; linarith
    · have := thr_le_one 2; simp [Val.rat, SM.val] at h1; linarith
  rcases (h true (.int (-1)) (.int (-2)) hex1 hex2).1 hcol with ⟨_, h2⟩ | ⟨h1, _⟩
  · norm_num [Val.rat] at h2
  · cases h1

/-- KNOWN FINDING `pct-zero-baseline`, witness (either convention): baseline 0, contender 5 prints `0.00%`
    neutral; swapped it prints `-100.00%` green – the percentage column is not antisymmetric at a zero baseline -/
theorem pct_swap_full_false (absB : Bool) : ¬ PctSwapFull absB := by
  intro h
  have h1 := h false (.int 0) (.int 5) trivial trivial
  unfold pctCell at h1
  rw [pctVal_0_5, pctVal_5_0, mkCell_zero_mag] at h1
  rcases mkCell_cases false false 2 true (.flt ⟨true, 100⟩) with ⟨h2, _⟩ | ⟨_, e⟩ | ⟨h2, _, _⟩
  · have := thr_pos 2; simp [Val.rat, SM.val] at h2; linarith
  · rw [e] at h1; simp [smallerCol, neutr, Colour.flip] at h1
  · have := thr_le_one 2; simp [Val.rat, SM.val] at h2; linarith

/-- **pct_direction_partial**: for a *positive* baseline – or for any non-zero baseline at a call site that
    divides by `abs(baseline)` – the percentage cell follows the direction. -/
theorem pct_direction_partial (incGood absB : Bool) (b c : Val) (hb : b.exact) (hc : c.exact)
    (hnz : b.truthy = true) (hs : absB = true ∨ 0 < b.rat) :
    ((pctCell false incGood absB b c).colour = .green → (incGood = true ∧ b.rat < c.rat) ∨ (incGood = false ∧ c.rat < b.rat)) ∧
    ((pctCell false incGood absB b c).colour = .red → (incGood = true ∧ c.rat < b.rat) ∨ (incGood = false ∧ b.rat < c.rat)) := by
  have hp := thr_pos 2
  have hsg : (!absB && b.toSM.neg) = false := by
    rcases hs with h | h
    · rw [h]; rfl
    · rw [(toSM_neg_of_rat_pos hb.wf h).1]; simp
  obtain ⟨m, hm0, hmz, hv⟩ := pctVal_shape absB c hb.wf hnz
  rw [hsg] at hv
  have hsub := sub_wf c b
  unfold pctCell
  rw [hv]
  rcases mkCell_cases false incGood 2 true (.flt ⟨(c.sub b).toSM.neg != false, m⟩) with ⟨h, e⟩ | ⟨h, e⟩ | ⟨h, h', e⟩ <;> rw [e]
  · -- value ≥ thr > 0: the subtraction result is positive
    have hv0 : 0 < (Val.flt ⟨(c.sub b).toSM.neg != false, m⟩).rat := lt_of_lt_of_le hp h
    have := sm_pos_of_val_pos (x := ⟨(c.sub b).toSM.neg != false, m⟩) hm0 hv0
    have hneg : (c.sub b).toSM.neg = false := by simpa using this.1
    have hmag : (c.sub b).toSM.mag ≠ 0 := fun h0 => (ne_of_gt this.2) (hmz.mpr h0)
    have hlt : b.rat < c.rat := by
      rw [← sub_rat_pos_iff hb hc]
      by_contra hle
      rw [not_lt] at hle
      rcases eq_or_lt_of_le hle with h0 | hl
      · -- rat = 0 ⇒ magnitude 0
        cases hs : c.sub b with
        | int k =>
          rw [hs] at h0 hmag
          simp only [Val.rat] at h0
          have : k = 0 := by exact_mod_cast h0
          subst this
          simp [Val.toSM, Dbl.fl_zero] at hmag
        | flt y =>
          rw [hs] at h0 hmag hsub
          simp only [Val.rat, SM.val] at h0
          simp only [Val.toSM] at hmag
          split_ifs at h0
          · exact hmag (by linarith)
          · exact hmag h0
      · have := (toSM_neg_of_rat_neg hsub hl).1
        rw [this] at hneg; cases hneg
    cases incGood <;> simp [greaterCol, hlt]
  · have hv0 : (Val.flt ⟨(c.sub b).toSM.neg != false, m⟩).rat < 0 := by linarith
    have := sm_neg_of_val_neg (x := ⟨(c.sub b).toSM.neg != false, m⟩) hm0 hv0
    have hneg : (c.sub b).toSM.neg = true := by simpa using this.1
    have hlt : c.rat < b.rat := by
      rw [← sub_rat_neg_iff hb hc]
      by_contra hle
      rw [not_lt] at hle
      rcases eq_or_lt_of_le hle with h0 | hl
      · cases hs : c.sub b with
        | int k =>
          rw [hs] at h0 hneg
          simp only [Val.rat] at h0
          have : k = 0 := by exact_mod_cast h0.symm
          subst this
          simp [Val.toSM] at hneg
        | flt y =>
          -- a float zero may carry a minus sign, but then the magnitude (and the percentage) is 0
          have hmag0 : (c.sub b).toSM.mag = 0 := by
            rw [hs] at h0 hsub ⊢
            simp only [Val.rat, SM.val] at h0
            simp only [Val.toSM]
            split_ifs at h0 <;> linarith
          have : m = 0 := hmz.mpr hmag0
          rw [this] at this
          exact absurd (hmz.mpr hmag0) (ne_of_gt ‹_ ∧ 0 < m›.2)
      · have := (toSM_neg_of_rat_pos hsub hl).1
        rw [this] at hneg; cases hneg
    cases incGood <;> simp [smallerCol, hlt]
  · simp [neutr]

/-- **pct_direction_full**: with the division by `abs(baseline)` the percentage cell follows the direction for
    *every* baseline (a zero baseline prints `0.00%` neutral, so nothing is marked). -/
theorem pct_direction_full : PctDirectionFull true := by
  intro incGood b c hb hc
  by_cases ht : b.truthy = true
  · exact pct_direction_partial incGood true b c hb hc ht (Or.inl rfl)
  · have hf : b.truthy = false := by simpa using ht
    unfold pctCell
    rw [pctVal_of_falsy true hf c, mkCell_zero_mag]
    simp [neutr]

/-- the Diff % cell of every row of the comparison as implemented: green only for a real improvement, red only
    for a real regression, by the generated direction of the row (throughput up is good, everything else down) -/
theorem improvement_marking_pct (s : RowSpec) (hs : s ∈ allSpecs CompareRows.blocks) (task : Str) (unit : Option Str)
    (bv cv : Val) (hb : bv.exact) (hc : cv.exact) :
    ((mkRow false s task unit bv cv).pct.colour = .green →
      if hasInfix throughputWord s.label then bv.rat < cv.rat else cv.rat < bv.rat) ∧
    ((mkRow false s task unit bv cv).pct.colour = .red →
      if hasInfix throughputWord s.label then cv.rat < bv.rat else bv.rat < cv.rat) := by
  have hd := direction_table s hs
  have hp := pct_convention s hs
  have h := pct_direction_full s.incGood bv cv hb hc
  simp only [mkRow, hp]
  rw [← hd]
  constructor
  · intro hg
    rcases h.1 hg with ⟨h1, h2⟩ | ⟨h1, h2⟩ <;> simp [h1, h2]
  · intro hr
    rcases h.2 hr with ⟨h1, h2⟩ | ⟨h1, h2⟩ <;> simp [h1, h2]

/-- **pct_swap_partial**: for two non-zero values of equal sign (any two non-zero values at a call site that
    divides by `abs(baseline)`), exchanging baseline and contender never shows the same non-neutral colour twice
    and never prints `+` twice: a `+`/greater cell becomes a `-` cell that is the opposite colour or
    (relative differences have different magnitudes) neutral. -/
theorem pct_swap_partial (plain incGood absB : Bool) (b c : Val) (hb : b.wf) (hc : c.wf)
    (tb : b.truthy = true) (tc : c.truthy = true) (hs : absB = true ∨ b.toSM.neg = c.toSM.neg) :
    let d := pctCell plain incGood absB b c
    let e := pctCell plain incGood absB c b
    (d.plus = true → e.plus = false ∧ e.neg = true ∧ (e.colour = d.colour.flip ∨ e.colour = neutr plain)) ∧
    (e.plus = true → d.plus = false ∧ d.neg = true ∧ (d.colour = e.colour.flip ∨ d.colour = neutr plain)) ∧
    (d.n ≠ 0 → e.n ≠ 0 → d.neg ≠ e.neg) := by
  obtain ⟨m, hm0, hmz, hv⟩ := pctVal_shape absB c hb tb
  obtain ⟨m', hm0', hmz', hv'⟩ := pctVal_shape absB b hc tc
  have hs' : (!absB && b.toSM.neg) = (!absB && c.toSM.neg) := by
    rcases hs with h | h
    · rw [h]; rfl
    · rw [h]
  obtain ⟨hmag, hsgn⟩ := (sub_oppV b c).toSM
  have hp := thr_pos 2
  -- when the difference is non-zero the two sign bits are opposite
  have hopp : (c.sub b).toSM.mag ≠ 0 → ((c.sub b).toSM.neg != (!absB && b.toSM.neg)) = !((b.sub c).toSM.neg != (!absB && c.toSM.neg)) := by
    intro hne
    rcases hsgn with h | ⟨h0, _, _⟩
    · rw [h, hs']; cases (b.sub c).toSM.neg <;> cases (!absB && c.toSM.neg) <;> rfl
    · exact absurd h0 hne
  simp only [pctCell]
  rw [hv, hv']
  have key : ∀ (pl ig : Bool) (s s' : Bool) (x x' : ℚ), 0 ≤ x → 0 ≤ x' → (x ≠ 0 → x' ≠ 0 ∧ s = !s') → (x' ≠ 0 → x ≠ 0) →
      ((mkCell pl ig 2 true (.flt ⟨s, x⟩)).plus = true →
        (mkCell pl ig 2 true (.flt ⟨s', x'⟩)).plus = false ∧ (mkCell pl ig 2 true (.flt ⟨s', x'⟩)).neg = true ∧
        ((mkCell pl ig 2 true (.flt ⟨s', x'⟩)).colour = (mkCell pl ig 2 true (.flt ⟨s, x⟩)).colour.flip ∨
         (mkCell pl ig 2 true (.flt ⟨s', x'⟩)).colour = neutr pl)) := by
    intro pl ig s s' x x' hx hx' hne _
    rcases mkCell_cases pl ig 2 true (.flt ⟨s, x⟩) with ⟨h, e⟩ | ⟨_, e⟩ | ⟨_, _, e⟩ <;> rw [e] <;> intro hpl
    · have hv0 : 0 < (Val.flt ⟨s, x⟩).rat := lt_of_lt_of_le hp h
      obtain ⟨hsf, hxp⟩ := sm_pos_of_val_pos (x := ⟨s, x⟩) hx hv0
      obtain ⟨hx'ne, hss⟩ := hne (ne_of_gt hxp)
      have hs' : s' = true := by
        have : s = false := hsf
        rw [this] at hss
        cases s' with
        | false => cases hss
        | true => rfl
      have hneg' : (Val.flt ⟨s', x'⟩).rat < 0 := by
        simp only [Val.rat, SM.val, hs', if_true]
        have : 0 < x' := lt_of_le_of_ne hx' (Ne.symm hx'ne)
        linarith
      rcases mkCell_cases pl ig 2 true (.flt ⟨s', x'⟩) with ⟨h2, _⟩ | ⟨_, e2⟩ | ⟨_, _, e2⟩
      · linarith
      · rw [e2]; exact ⟨rfl, hs', Or.inl (flip_greater pl ig).symm⟩
      · rw [e2]; exact ⟨rfl, hs', Or.inr rfl⟩
    · simp at hpl
    · simp at hpl
  have hmm : m ≠ 0 → m' ≠ 0 ∧ ((c.sub b).toSM.neg != (!absB && b.toSM.neg)) = !((b.sub c).toSM.neg != (!absB && c.toSM.neg)) := by
    intro hne
    have h1 : (c.sub b).toSM.mag ≠ 0 := fun h0 => hne (hmz.mpr h0)
    exact ⟨fun h0 => h1 (by rw [hmag]; exact hmz'.mp h0), hopp h1⟩
  have hmm' : m' ≠ 0 → m ≠ 0 ∧ ((b.sub c).toSM.neg != (!absB && c.toSM.neg)) = !((c.sub b).toSM.neg != (!absB && b.toSM.neg)) := by
    intro hne
    have h1 : (b.sub c).toSM.mag ≠ 0 := fun h0 => hne (hmz'.mpr h0)
    have h2 : (c.sub b).toSM.mag ≠ 0 := by rw [hmag]; exact h1
    refine ⟨fun h0 => h2 (hmz.mp h0), ?_⟩
    rw [hopp h2]; simp
  refine ⟨key plain incGood _ _ m m' hm0 hm0' hmm (fun h => (hmm' h).1),
          key plain incGood _ _ m' m hm0' hm0 hmm' (fun h => (hmm h).1), ?_⟩
  intro hd he
  have hmne : m ≠ 0 := by
    intro h0
    apply hd
    rcases mkCell_cases plain incGood 2 true (.flt ⟨(c.sub b).toSM.neg != (!absB && b.toSM.neg), m⟩) with ⟨_, e⟩ | ⟨_, e⟩ | ⟨_, _, e⟩ <;>
      rw [e] <;> simp [Val.toSM, h0, scaled_zero]
  have hsg := (hmm hmne).2
  have hneg : ∀ (s : Bool) (x : ℚ), (mkCell plain incGood 2 true (.flt ⟨s, x⟩)).neg = s := by
    intro s x
    rcases mkCell_cases plain incGood 2 true (.flt ⟨s, x⟩) with ⟨_, e⟩ | ⟨_, e⟩ | ⟨_, _, e⟩ <;> rw [e] <;> rfl
  rw [hneg, hneg, hsg]
  cases ((b.sub c).toSM.neg != (!absB && c.toSM.neg)) <;> simp

/-- the percentage column of the comparison as implemented (division by `abs(baseline)`): for any two non-zero
    values, whatever their signs, the swap turns a `+`/greater cell into a `-` cell of the opposite colour (or neutral) -/
theorem pct_swap_nonzero (plain incGood : Bool) (b c : Val) (hb : b.wf) (hc : c.wf)
    (tb : b.truthy = true) (tc : c.truthy = true) :
    let d := pctCell plain incGood true b c
    let e := pctCell plain incGood true c b
    (d.plus = true → e.plus = false ∧ e.neg = true ∧ (e.colour = d.colour.flip ∨ e.colour = neutr plain)) ∧
    (e.plus = true → d.plus = false ∧ d.neg = true ∧ (d.colour = e.colour.flip ∨ d.colour = neutr plain)) ∧
    (d.n ≠ 0 → e.n ≠ 0 → d.neg ≠ e.neg) :=
  pct_swap_partial plain incGood true b c hb hc tb tc (Or.inl rfl)

/-! ## plain_eq_rich_minus_colour -/

/-- **plain_eq_rich_minus_colour**: the table written to the report file (`plain=True`) is the console
    table (`plain=False`) with the colour removed from every Diff / Diff % cell – same rows, same
    order, same errors – and removing the colour of a cell is exactly stripping the escape codes
    from its text. -/
theorem plain_eq_rich_minus_colour (blocks : List Block) (showProc : Bool) (b c : Stats) :
    metricsTable blocks true showProc b c = (metricsTable blocks false showProc b c).map (List.map Row.uncolour) ∧
    ∀ d : DCell, stripAnsi d.render = d.uncolour.render ∧ d.uncolour.render = d.text := by
  refine ⟨?_, fun d => ⟨stripAnsi_render d, rfl⟩⟩
  induction blocks with
  | nil => rfl
  | cons blk rest ih =>
    simp only [metricsTable, ih, block_plain]
    cases blockRows false showProc b c blk <;> cases metricsTable rest false showProc b c <;>
      simp [Except.map]

/-! ## sizes: the value shown, times the unit, is the value stored -/

/-- **size_conversion_exact**: dividing by 1024 is exact in binary floating point, so for every unit the model of
    `convert.bytes_to_unit(unit, v)` shows exactly `v / (bytes per unit)` – no rounding at all (for a Python float,
    or an int that converts to float exactly) -/
theorem size_conversion_exact (u : HUnit) (v : Val) (hx : v.exact) (hd : v.dbl) :
    (u.fmt.apply v).rat * u.factor = v.rat := by
  have haux := Fmt_bytes_exact_aux hd
  have hval := toSM_val_of_exact hx
  by_cases ht : v.truthy = true
  · cases u
    · simp only [HUnit.fmt, HUnit.factor]
      rw [rat_of_flt_apply _ (by decide) v ht, haux.1, hval]
    · simp only [HUnit.fmt, HUnit.factor]
      rw [rat_of_flt_apply _ (by decide) v ht, haux.2.1, hval]
    · simp only [HUnit.fmt, HUnit.factor]
      rw [rat_of_flt_apply _ (by decide) v ht, haux.2.2, hval]
    · simp [HUnit.fmt, HUnit.factor, Fmt.apply]
  · have hf : v.truthy = false := by simpa using ht
    have h0 := rat_zero_of_not_truthy hf
    cases u <;> simp [HUnit.fmt, HUnit.factor, Fmt.apply, hf, h0]

/-- **unit_choice**: `bytes_to_human_unit` picks the largest unit in which the magnitude exceeds 1 -/
theorem unit_choice (v : Val) (hx : v.exact) (hd : v.dbl) :
    (humanUnit v = .gb ↔ 1073741824 < |v.rat|) ∧
    (humanUnit v = .mb ↔ 1048576 < |v.rat| ∧ |v.rat| ≤ 1073741824) ∧
    (humanUnit v = .kb ↔ 1024 < |v.rat| ∧ |v.rat| ≤ 1048576) ∧
    (humanUnit v = .bytes ↔ |v.rat| ≤ 1024) := by
  have hg := size_conversion_exact .gb v hx hd
  have hm := size_conversion_exact .mb v hx hd
  have hk := size_conversion_exact .kb v hx hd
  simp only [HUnit.fmt, HUnit.factor] at hg hm hk
  have key : ∀ (x f : ℚ), 0 < f → x * f = v.rat → ((x > 1 ∨ x < -1) ↔ f < |v.rat|) := by
    intro x f hf hxf
    rw [← hxf, abs_mul, abs_of_pos hf]
    have h1 : f < |x| * f ↔ 1 < |x| := by
      constructor
      · intro h; by_contra hc; rw [not_lt] at hc; nlinarith [abs_nonneg x]
      · intro h; nlinarith
    rw [h1, lt_abs]
    constructor
    · rintro (h | h)
      · left; exact h
      · right; linarith
    · rintro (h | h)
      · left; exact h
      · right; linarith
  have kg := key _ 1073741824 (by norm_num) hg
  have km := key _ 1048576 (by norm_num) hm
  have kk := key _ 1024 (by norm_num) hk
  unfold humanUnit
  simp only []
  by_cases c1 : (Fmt.bytesToGb.apply v).rat > 1 ∨ (Fmt.bytesToGb.apply v).rat < -1
  · have := kg.mp c1
    simp only [c1, if_true]
    refine ⟨by simp [this], by simp; intro _; linarith, by simp; intro _; linarith, by simp; linarith⟩
  · have n1 : ¬ (1073741824 < |v.rat|) := fun h => c1 (kg.mpr h)
    simp only [c1, if_false]
    by_cases c2 : (Fmt.bytesToMb.apply v).rat > 1 ∨ (Fmt.bytesToMb.apply v).rat < -1
    · have := km.mp c2
      simp only [c2, if_true]
      refine ⟨by simp [n1], by simp [this]; linarith, by simp; intro _; linarith, by simp; linarith⟩
    · have n2 : ¬ (1048576 < |v.rat|) := fun h => c2 (km.mpr h)
      simp only [c2, if_false]
      by_cases c3 : (Fmt.bytesToKb.apply v).rat > 1 ∨ (Fmt.bytesToKb.apply v).rat < -1
      · have := kk.mp c3
        simp only [c3, if_true]
        refine ⟨by simp [n1], by simp [n2], by simp [this]; linarith, by simp; linarith⟩
      · have n3 : ¬ (1024 < |v.rat|) := fun h => c3 (kk.mpr h)
        simp only [c3, if_false]
        refine ⟨by simp [n1], by simp [n2], by simp [n3], by simp; linarith⟩

/-- **disk_row_values**: a per-field disk usage row carries the unit chosen from the smaller of the two values,
    and in that unit the Baseline / Contender cells are exactly the stored byte counts (so the Diff cell, built by
    the same formatter from `contender − baseline`, is the difference in that unit); being an `mkRow` row it also
    obeys `colour_follows_direction`, `prints_zero_is_neutral`, `swap_antisymmetric`. -/
theorem disk_row_values (plain incGood pctAbs : Bool) (label : Str) (bv cv : Val)
    (hb : bv.exact) (hc : cv.exact) (hbd : bv.dbl) (hcd : cv.dbl) :
    let u := humanUnit (pymin bv cv)
    let r := diskRow plain incGood pctAbs label bv cv
    r.unit = some u.str ∧ r.label = label ∧ r.task = [] ∧
    r.base.rat * u.factor = bv.rat ∧ r.cont.rat * u.factor = cv.rat ∧
    r.diff = mkCell plain incGood 5 false (u.fmt.apply (cv.sub bv)) ∧
    (pymin bv cv = bv ∨ pymin bv cv = cv) ∧ (pymin bv cv).rat ≤ bv.rat ∧ (pymin bv cv).rat ≤ cv.rat :=
  ⟨rfl, rfl, rfl, size_conversion_exact _ bv hb hbd, size_conversion_exact _ cv hc hcd, rfl,
    by unfold pymin; split_ifs <;> simp,
    by unfold pymin; split_ifs with h <;> [exact le_of_lt h; exact le_refl _],
    by unfold pymin; split_ifs with h <;> [exact le_refl _; exact not_lt.mp h]⟩

/-- the per-field disk usage rows of the implementation are lower-is-better and divide by `abs(baseline)` (probed) -/
theorem disk_rows_direction : CompareRows.diskIncGood = false ∧ CompareRows.diskPctAbs = true := by decide

/-- the rows with a fixed size unit (store / dataset / translog size, heap usage) name the unit of their formatter,
    so `size_conversion_exact` applies to them with that unit -/
theorem fixed_size_rows_unit :
    ∀ s ∈ allSpecs CompareRows.blocks, ∀ u ∈ [HUnit.gb, HUnit.mb, HUnit.kb], s.fmt = u.fmt → s.unit = .const u.str := by
  decide

/-! ## compare(baseline_id, contender_id): the two races are the ones that were named -/

/-- **compare_uses_named_races**: a comparison by id shows the table of a stored race whose id *is* the baseline id
    and one whose id *is* the contender id (the only ones, ids being directory names) -/
theorem compare_uses_named_races (blocks : List Block) (plain showProc : Bool) (store : List (Str × Stats))
    (bid cid : Str) (rows : List Row) (h : compareById blocks plain showProc store bid cid = .ok rows) :
    ∃ b c, (bid, b) ∈ store ∧ (cid, c) ∈ store ∧ metricsTable blocks plain showProc b c = .ok rows ∧
      ((store.map Prod.fst).Nodup → ∀ b' c', (bid, b') ∈ store → (cid, c') ∈ store →
        metricsTable blocks plain showProc b' c' = .ok rows) := by
  unfold compareById findRace at h
  cases hb : lookup bid store with
  | none => simp [hb] at h
  | some b =>
    cases hc : lookup cid store with
    | none => simp [hb, hc] at h
    | some c =>
      simp only [hb, hc] at h
      refine ⟨b, c, lookup_mem hb, lookup_mem hc, h, ?_⟩
      intro hnd b' c' hb' hc'
      have e1 := lookup_of_nodup hnd hb'
      have e2 := lookup_of_nodup hnd hc'
      rw [hb] at e1; rw [hc] at e2
      cases e1; cases e2; exact h

/-- an id that no stored race has – for instance a proper prefix of one – is an error, never another race -/
theorem compare_unknown_id (blocks : List Block) (plain showProc : Bool) (store : List (Str × Stats)) (bid cid : Str)
    (h : (∀ p ∈ store, p.1 ≠ bid) ∨ (∀ p ∈ store, p.1 ≠ cid)) :
    compareById blocks plain showProc store bid cid = .error .notFound := by
  unfold compareById findRace
  rcases h with h | h
  · rw [lookup_none h]
  · rw [lookup_none h]
    cases lookup bid store <;> rfl

/-! ## several comparisons through one reporter object -/

/-- **session_is_map**: whatever state the reporter object is in, a history of `_metrics_table` / `report` calls on it
    produces, call by call, exactly what each call produces on a reporter of its own – nothing is carried from one
    comparison to the next (the one attribute a call writes, `self.plain`, is overwritten before it is read). -/
theorem session_is_map (blocks : List Block) (showProc : Bool) (s : RState) (calls : List Call) :
    runSession blocks showProc s calls = calls.map (freshCall blocks showProc) := by
  induction calls generalizing s with
  | nil => rfl
  | cons c cs ih =>
    simp only [runSession, List.map_cons, ih]
    cases c <;> rfl

/-- hence, anywhere in a history, comparing a race with itself shows no difference … -/
theorem session_self_compare (blocks : List Block) (showProc : Bool) (s : RState) (pre post : List Call) (plain : Bool)
    (st : Stats) (hnd : ∀ k l, getList k st = some l → (l.map Entry.id).Nodup) (rows : List Row)
    (h : (runSession blocks showProc s (pre ++ [Call.table plain st st] ++ post))[pre.length]? = some [.ok rows]) :
    ∀ r ∈ rows, noDifference plain r := by
  rw [session_is_map] at h
  simp [freshCall, callStep, tableIn] at h
  exact self_compare_neutral blocks plain showProc st hnd rows h

/-- … and a comparison and its mirror image, however far apart in the history, are row-wise swapped
    (for the comparison as implemented) -/
theorem session_swap (showProc : Bool) (s : RState) (calls : List Call) (i j : Nat) (plain : Bool) (b c : Stats)
    (rows rows' : List Row)
    (hi : calls[i]? = some (Call.table plain b c)) (hj : calls[j]? = some (Call.table plain c b))
    (h : (runSession CompareRows.blocks showProc s calls)[i]? = some [.ok rows])
    (h' : (runSession CompareRows.blocks showProc s calls)[j]? = some [.ok rows']) :
    ∀ r ∈ rows, ∃ r' ∈ rows', swapOf r r' := by
  rw [session_is_map] at h h'
  simp only [List.getElem?_map, hi, hj, Option.map_some, freshCall, callStep, tableIn, Option.some.injEq,
    List.cons.injEq, and_true] at h h'
  exact swap_table_generated plain showProc b c rows rows' h h'

/-! ## every metric of a task is listed on its own account (no guard keyed on another metric) -/

/-- **scope_rows_count**: in one scope (one task, the global attributes, one list entry) the number of rows is the
    number of active call sites whose metric is present in both races – each of them once, nothing else. -/
theorem scope_rows_count (plain showProc : Bool) (specs : List RowSpec) (task : Str) (b c : Scope) :
    (scopeRows plain showProc specs task b c).length =
      ((specs.filter (active showProc)).filter (bothPresent b c)).length := by
  unfold scopeRows
  generalize specs.filter (active showProc) = l
  induction l with
  | nil => rfl
  | cons s rest ih =>
    cases hb : lookup s.key b.vals with
    | none =>
      have hl : line plain s task b c = none := by
        cases hc : lookup s.key c.vals <;> simp only [line, hb, hc]
      have hq : bothPresent b c s = false := by simp [bothPresent, hb]
      simp [List.filterMap_cons, List.filter_cons, hl, hq, ih]
    | some bv =>
      cases hc : lookup s.key c.vals with
      | none =>
        have hl : line plain s task b c = none := by simp only [line, hb, hc]
        have hq : bothPresent b c s = false := by simp [bothPresent, hc]
        simp [List.filterMap_cons, List.filter_cons, hl, hq, ih]
      | some cv =>
        have hl : line plain s task b c = some (mkRow plain s task (unitOf s.unit b) bv cv) := by simp only [line, hb, hc]
        have hq : bothPresent b c s = true := by simp [bothPresent, hb, hc]
        simp [List.filterMap_cons, List.filter_cons, hl, hq, ih]

/-- **row_depends_only_on_own_metric**: whether (and how) a call site is listed depends on the two values of that
    very metric (and its unit) only – two pairs of records that agree on it and differ in anything else (say: the
    throughput statistics are `None` in one of them) give the same row. -/
theorem row_depends_only_on_own_metric (plain : Bool) (s : RowSpec) (task : Str) (b b' c c' : Scope)
    (hb : lookup s.key b.vals = lookup s.key b'.vals) (hc : lookup s.key c.vals = lookup s.key c'.vals)
    (hu : unitOf s.unit b = unitOf s.unit b') :
    line plain s task b c = line plain s task b' c' := by
  simp only [line, hb, hc, hu]

/-- **task_metric_listed**: with pairwise distinct task names, a metric that the baseline record and the contender
    record of one task both have is listed for that task – no hypothesis on any other metric of the task. -/
theorem task_metric_listed (plain showProc : Bool) (specs : List RowSpec) (b c : Stats)
    (hb : (b.tasks.map TaskM.name).Nodup) (hc : (c.tasks.map TaskM.name).Nodup)
    (bt ct : TaskM) (hbt : bt ∈ b.tasks) (hct : ct ∈ c.tasks) (hn : ct.name = bt.name)
    (s : RowSpec) (hs : s ∈ specs) (ha : active showProc s = true) (bv cv : Val)
    (hbv : lookup s.key bt.sc.vals = some bv) (hcv : lookup s.key ct.sc.vals = some cv) :
    mkRow plain s bt.name (unitOf s.unit bt.sc) bv cv ∈ taskRows plain showProc specs b c := by
  rw [task_rows_own_values plain showProc specs b c hb hc]
  exact ⟨bt, hbt, ct, hct, hn,
    (rows_iff_both_present plain showProc specs bt.name bt.sc ct.sc _).mpr ⟨s, hs, ha, bv, cv, hbv, hcv, rfl⟩⟩

/-- **task_rows_exactly_once**: with pairwise distinct task names in the baseline, the rows of the table's task
    block that carry the name of a baseline task are exactly the rows of that task's own scope: as many as there
    are active call sites present in both records (`scope_rows_count`), in particular 0 for a task the contender
    lacks – and never fewer because some other metric of the task is missing. -/
theorem task_rows_exactly_once (plain showProc : Bool) (specs : List RowSpec) (b c : Stats)
    (hb : (b.tasks.map TaskM.name).Nodup) (t : TaskM) (ht : t ∈ b.tasks) :
    rowsOfTask t.name (taskRows plain showProc specs b c) =
      match findTask t.name c.tasks with
      | some ct => scopeRows plain showProc specs t.name t.sc ct.sc
      | none => [] := by
  have hrow : ∀ (n : Str) (x y : Scope), ∀ r ∈ scopeRows plain showProc specs n x y, r.task = n := by
    intro n x y r hr
    obtain ⟨s, _, _, bv, cv, _, _, rfl⟩ := (rows_iff_both_present plain showProc specs n x y r).mp hr
    rfl
  have key : ∀ (l : List TaskM), (l.map TaskM.name).Nodup → (∀ u ∈ l, findTask u.name b.tasks = some u) → t ∈ l →
      rowsOfTask t.name (l.flatMap (fun u =>
        match findTask u.name c.tasks, findTask u.name b.tasks with
        | some ct, some bt => scopeRows plain showProc specs u.name bt.sc ct.sc
        | _, _ => [])) =
      match findTask t.name c.tasks with
      | some ct => scopeRows plain showProc specs t.name t.sc ct.sc
      | none => [] := by
    intro l
    induction l with
    | nil => intro _ _ h; cases h
    | cons u rest ih =>
      intro hnd hown hmem
      have hu := hown u (List.mem_cons_self ..)
      simp only [List.map_cons, List.nodup_cons] at hnd
      simp only [List.flatMap_cons, rowsOfTask, List.filter_append]
      by_cases hut : u = t
      · subst hut
        have hrest : List.filter (fun r => decide (r.task = u.name)) (rest.flatMap (fun u =>
            match findTask u.name c.tasks, findTask u.name b.tasks with
            | some ct, some bt => scopeRows plain showProc specs u.name bt.sc ct.sc
            | _, _ => [])) = [] := by
          rw [List.filter_eq_nil_iff]
          intro r hr
          simp only [List.mem_flatMap] at hr
          obtain ⟨v, hv, hrv⟩ := hr
          have hvn : v.name ≠ u.name := fun e => hnd.1 (List.mem_map.mpr ⟨v, hv, e⟩)
          cases h1 : findTask v.name c.tasks <;> cases h2 : findTask v.name b.tasks <;> simp [h1, h2] at hrv
          have := hrow _ _ _ r hrv
          simp [this, hvn]
        rw [hrest, List.append_nil, hu]
        cases h1 : findTask u.name c.tasks with
        | none => simp
        | some ct =>
          simp only
          rw [List.filter_eq_self]
          intro r hr
          simp [hrow _ _ _ r hr]
      · have hmem' : t ∈ rest := by
          rcases List.mem_cons.mp hmem with h | h
          · exact absurd h.symm hut
          · exact h
        have htn : u.name ≠ t.name := fun e => hnd.1 (List.mem_map.mpr ⟨t, hmem', e.symm⟩)
        have hhead : List.filter (fun r => decide (r.task = t.name))
            (match findTask u.name c.tasks, findTask u.name b.tasks with
            | some ct, some bt => scopeRows plain showProc specs u.name bt.sc ct.sc
            | _, _ => []) = [] := by
          rw [List.filter_eq_nil_iff]
          intro r hr
          cases h1 : findTask u.name c.tasks <;> cases h2 : findTask u.name b.tasks <;> simp [h1, h2] at hr
          have := hrow _ _ _ r hr
          simp [this, htn]
        rw [hhead, List.nil_append]
        exact ih hnd.2 (fun v hv => hown v (List.mem_cons_of_mem _ hv)) hmem'
  unfold taskRows
  exact key b.tasks hb (fun u hu => findTask_of_nodup hb hu) ht

/-- `summary_stats` stores the four throughput statistics together or not at all -/
theorem summary_stats_all_or_none (mean median : Option Val) (stats : Option (Val × Val)) (unit : Option Str) :
    (∃ mn me md mx, mean = some me ∧ median = some md ∧ stats = some (mn, mx) ∧
      (summaryStats mean median stats unit).vals = [(kTpMin, mn), (kTpMean, me), (kTpMedian, md), (kTpMax, mx)]) ∨
    ((mean = none ∨ median = none ∨ stats = none) ∧ (summaryStats mean median stats unit).vals = []) := by
  cases mean <;> cases median <;> cases stats <;> simp [summaryStats]

/-- the error-rate call site of the generated table -/
def errSpec : RowSpec :=
  ⟨kErrorRate, ['e', 'r', 'r', 'o', 'r', ' ', 'r', 'a', 't', 'e'], .const ['%'], false, .times100, false, true⟩

/-- the generated table has a per-task block that contains the error-rate call site (not behind `output.processingtime`) -/
theorem error_rate_in_task_block :
    (CompareRows.blocks.any (fun blk => match blk with
      | .tasks r => decide (errSpec ∈ r)
      | _ => false)) = true := by decide

/-- **error_rate_listed_without_throughput**: records as `GlobalStatsCalculator` writes them (`opRecord`): whatever the
    throughput statistics of the task are in the two races – in particular all `None` in one or both
    (`summaryStats none none none`, a task without samples of type normal, e.g. every request failed) – and whatever
    percentiles exist, the comparison lists the task's error rate with both stored values. -/
theorem error_rate_listed_without_throughput (plain showProc : Bool) (b c : Stats)
    (hb : (b.tasks.map TaskM.name).Nodup) (hc : (c.tasks.map TaskM.name).Nodup)
    (n opb opc : Str) (tpb tpc : Scope) (tb tc : List (Str × Val)) (eb ec : Val)
    (hbt : opRecord n opb tpb tb eb ∈ b.tasks) (hct : opRecord n opc tpc tc ec ∈ c.tasks)
    (rows : List Row) (h : metricsTable CompareRows.blocks plain showProc b c = .ok rows) :
    mkRow plain errSpec n (some ['%']) eb ec ∈ rows := by
  have hex := error_rate_in_task_block
  rw [List.any_eq_true] at hex
  obtain ⟨blk, hblk, hd⟩ := hex
  cases blk with
  | scalars r => simp at hd
  | joined k gb gc r => simp at hd
  | tasks specs =>
    simp only [decide_eq_true_eq] at hd
    rw [table_rows_iff CompareRows.blocks plain showProc b c rows h]
    refine ⟨.tasks specs, hblk, _, rfl, ?_⟩
    have hl : ∀ (op : Str) (tp : Scope) (t : List (Str × Val)) (e : Val),
        lookup errSpec.key (opRecord n op tp t e).sc.vals = some e := by
      intro op tp t e; simp [opRecord, errSpec, lookup]
    exact task_metric_listed plain showProc specs b c hb hc _ _ hbt hct rfl errSpec hd rfl eb ec (hl ..) (hl ..)

/-! ## non-vacuity: the hypotheses are satisfiable and the statements talk about real rows -/

def gcCount : RowSpec := ⟨['k'], ['G', 'C'], .const [], false, .ident, false, false⟩
def sc (v : Val) : Scope := ⟨[(['k'], v)], []⟩

/-- a row exists when both sides have the metric … -/
example : (scopeRows false false [gcCount] [] (sc (.int 5)) (sc (.int 7))).length = 1 := rfl
/-- … and none when one side lacks it -/
example : scopeRows false false [gcCount] [] (sc (.int 5)) ⟨[], []⟩ = [] := rfl
/-- two tasks sharing the operation `b`, the explicitly named one first: names are distinct and looking up the
    default-named task `b` finds the second record, not the first one whose *operation* is `b` -/
example :
    let l : List TaskM := [⟨some ['w'], ['b'], sc (.int 1)⟩, ⟨some ['b'], ['b'], sc (.int 2)⟩]
    (l.map TaskM.name).Nodup ∧ (findTask ['b'] l).map (fun t => t.sc.vals.length) = some 1 ∧
      (findTask ['b'] l).map TaskM.task = some (some ['b']) := by decide
/-- the hypotheses of size_conversion_exact are satisfiable: 3 GiB as an int is exact and a double … -/
example : (Val.int 3221225472).exact ∧ (Val.int 3221225472).dbl := by
  have := Dbl.fl_natCast (n := 3221225472) (by norm_num)
  have h2 : Dbl.fl (((3221225472 : ℤ).natAbs : ℕ) : ℚ) = (((3221225472 : ℤ).natAbs : ℕ) : ℚ) := by simpa using this
  exact ⟨h2, by
    unfold Val.dbl
    simp only [Val.toSM]
    rw [h2, h2]⟩
/-- … and a store in which `n1` is a proper prefix of `n10` -/
example : compareById [] true false [(['n', '1', '0'], ⟨⟨[], []⟩, [], []⟩)] ['n', '1'] ['n', '1', '0'] = .error .notFound := rfl
/-- a history with a report in between: three calls, four tables -/
example : ((runSession [] false ⟨true⟩ [.table true ⟨⟨[], []⟩, [], []⟩ ⟨⟨[], []⟩, [], []⟩, .report ⟨⟨[], []⟩, [], []⟩ ⟨⟨[], []⟩, [], []⟩,
    .table false ⟨⟨[], []⟩, [], []⟩ ⟨⟨[], []⟩, [], []⟩]).map List.length) = [1, 2, 1] := rfl
/-- exact ints exist (hypothesis of colour_follows_direction) -/
example : (Val.int 7).exact ∧ (Val.flt ⟨true, 1 / 2⟩).exact := by
  constructor
  · have := Dbl.fl_natCast (n := 7) (by norm_num); simpa [Val.exact] using this
  · simp [Val.exact]
/-- 5 → 7 on a lower-is-better row is a regression: red, `+`, digits 200000 (= 2.00000) -/
example : ((mkRow false gcCount [] none (.int 5) (.int 7)).diff.colour = .red) ∧
    (mkRow false gcCount [] none (.int 5) (.int 7)).diff.plus = true := by
  have h2 : Dbl.fl 2 = 2 := by have := Dbl.fl_natCast (n := 2) (by norm_num); simpa using this
  have hle := thr_le_one 5
  simp only [mkRow, diffCell, diffVal, gcCount, Fmt.apply, Val.sub]
  rcases mkCell_cases false false 5 false (.int (7 - 5)) with ⟨_, e⟩ | ⟨h, _⟩ | ⟨_, h, _⟩
  · rw [e]; exact ⟨rfl, rfl⟩
  · have := thr_pos 5; simp [Val.rat] at h; linarith
  · simp [Val.rat] at h; linarith
/-- the generated table is not empty and contains both directions -/
example : (allSpecs CompareRows.blocks).length = 79 ∧
    (∃ s ∈ allSpecs CompareRows.blocks, s.incGood = true) ∧ (∃ s ∈ allSpecs CompareRows.blocks, s.incGood = false) := by
  decide
/-- `0.00000` is what a zero cell prints, with and without colour -/
example : (DCell.render ⟨.none, false, false, 0, 5, false⟩ = ['0', '.', '0', '0', '0', '0', '0']) ∧
    (DCell.render ⟨.none, false, true, 0, 2, true⟩ = ['-', '0', '.', '0', '0', '%']) ∧
    stripAnsi (DCell.render ⟨.green, true, false, 123456, 5, false⟩) = ['+', '1', '.', '2', '3', '4', '5', '6'] := by
  decide
/-- a task whose throughput statistics are all `None` in the contender (every request failed) and present in the
    baseline: `summaryStats` gives no throughput leaves, the hypotheses of `error_rate_listed_without_throughput` /
    `task_metric_listed` / `task_rows_exactly_once` hold, and the table lists exactly one row for the task – its error rate -/
def recB : TaskM := opRecord ['q'] ['s'] (summaryStats (some (.int 9)) (some (.int 9)) (some (.int 8, .int 10)) (some ['o'])) [] (.int 0)
def recC : TaskM := opRecord ['q'] ['s'] (summaryStats none none none (some ['o'])) [] (.int 1)
def emptyLists : List (Str × Option (List Entry)) :=
  CompareRows.blocks.filterMap (fun blk => match blk with
    | .joined k _ _ _ => some (k, some [])
    | _ => none)
example : (summaryStats none none none (some ['o'])).vals = [] ∧ ([recB].map TaskM.name).Nodup ∧
    (match metricsTable CompareRows.blocks true false ⟨⟨[], []⟩, [recB], emptyLists⟩ ⟨⟨[], []⟩, [recC], emptyLists⟩ with
     | .ok rows => (rowsOfTask ['q'] rows).map (fun r => r.label)
     | .error _ => []) = [errSpec.label] := by
  refine ⟨rfl, by simp [recB, opRecord, TaskM.name], ?_⟩
  decide
/-- `scope_rows_count` / `row_depends_only_on_own_metric` on a concrete scope: one of two call sites present in both -/
example : (scopeRows false false [gcCount, errSpec] [] (sc (.int 5)) (sc (.int 7))).length = 1 ∧
    bothPresent (sc (.int 5)) (sc (.int 7)) gcCount = true ∧ bothPresent (sc (.int 5)) (sc (.int 7)) errSpec = false := by
  decide
/-- the hypotheses of pct_swap_partial / pct_direction_partial are satisfiable (2 → 4) -/
example : (Val.int 2).wf ∧ (Val.int 2).truthy = true ∧ (Val.int 2).toSM.neg = (Val.int 4).toSM.neg ∧ 0 < (Val.int 2).rat := by
  simp [Val.wf, Val.truthy, Val.toSM, Val.rat]
/-- a self comparison with a negative value prints `-0.00%`: the sign bit in `noDifference` is needed -/
example : pctVal false (.int (-1)) (.int (-1)) = .flt ⟨true, 0⟩ := by
  simp [pctVal, Val.sub, Val.truthy, Val.div, Val.mulK, Val.toSM, Dbl.fl_zero]

end C20
