import RallyModel.Alloc
import RallyProofs.Alloc
/-!
# C02 — every task gets exactly its clients; clients are partitioned over workers

Property theorems about `RallyModel/Alloc.lean` (the model of `driver.Allocator`,
`track.Parallel.clients`, `calculate_worker_assignments`).  All statements quantify over every
schedule (any element sizes, explicit `clients` smaller or larger than the sum, empty elements)
and every host list; there is no bound on sizes.
-/
namespace C02
open Alloc

/-- `Parallel.clients` is the explicit value if given, otherwise the sum over the sub-tasks -/
theorem parallel_clients (e : Element) :
    e.clients = match e.clientsOverride with
      | some c => c
      | none => (e.tasks.map (·.clients)).sum := by
  unfold Element.clients sumClients
  cases e.clientsOverride <;> rfl

/-- the allocation matrix is rectangular -/
theorem matrix_rectangular (s : List Element) (r r' : Nat)
    (hr : r < maxClients s) (hr' : r' < maxClients s) :
    (row s r).length = (row s r').length := by
  unfold row
  simp only [List.length_cons]
  rw [rowFrom_length _ _ _ _ (maxClients_pos s) hr, rowFrom_length _ _ _ _ (maxClients_pos s) hr']

/-- join points are aligned: a column holds a join point in one row iff it does in every row -/
theorem join_points_aligned (s : List Element) (r r' : Nat)
    (hr : r < maxClients s) (hr' : r' < maxClients s) :
    (row s r).map Entry.isJoin = (row s r').map Entry.isJoin := by
  unfold row
  simp only [List.map_cons]
  rw [rowFrom_isJoin _ _ _ r r' (maxClients_pos s) hr hr']

/-- within the entries of one element, exactly the last one is a join point (so all its task
    entries and padding lie strictly between join `j-1` and join `j` on every row), and the row
    segment has the same length `⌈total/m⌉ + 1` on every row -/
theorem element_between_joins (m : Nat) (e : Element) (j r : Nat) (hm : m > 0) (hr : r < m) :
    (elemRow m e j r).map Entry.isJoin = List.replicate (ceilDiv e.total m) false ++ [true] :=
  elemRow_isJoin m e j r hm hr

/-- every logical client index `c < total` of an element is placed on exactly one row, the row
    `c % m`, exactly once; and nothing else is placed -/
theorem client_exactly_once (m total c r : Nat) (hm : m > 0) (hr : r < m) :
    (c ∈ rowIdxs m total r ↔ c < total ∧ c % m = r) ∧ (rowIdxs m total r).Nodup := by
  refine ⟨mem_rowIdxs hm hr, ?_⟩
  unfold rowIdxs
  refine List.Pairwise.map _ ?_ List.nodup_range
  intro a b hab h
  have : a * m = b * m := by omega
  exact hab (Nat.eq_of_mul_eq_mul_right hm this)

/-- the logical clients of an element are numbered 0 … total−1 and there are exactly Σ clients of them -/
theorem expand_length (e : Element) : (expand e).length = e.total := by
  unfold expand Element.total sumClients
  generalize e.tasks = ts
  induction ts with
  | nil => rfl
  | cons s ss ih =>
    rw [List.flatMap_cons, List.length_append, ih]
    simp

/-- each sub-task gets exactly the client indices `0 … clients−1`, each once, in order
    (sub-tasks are told apart by their identity `id`) -/
theorem task_gets_its_indices (e : Element) (s : Sub) (hs : s ∈ e.tasks)
    (hnd : (e.tasks.map (·.id)).Nodup) :
    ((expand e).filter (fun p => p.1.id == s.id)).map (·.2) = List.range s.clients := by
  unfold expand
  generalize e.tasks = tl at hs hnd ⊢
  induction tl with
  | nil => simp at hs
  | cons t ts ih =>
    simp only [List.map_cons, List.nodup_cons] at hnd
    simp only [List.flatMap_cons, List.filter_append, List.map_append]
    rcases List.mem_cons.mp hs with rfl | hmem
    · have h1 : ((List.range s.clients).map fun i => (s, i)).filter (fun p => p.1.id == s.id) =
          (List.range s.clients).map fun i => (s, i) := by
        apply List.filter_eq_self.mpr
        intro p hp
        simp only [List.mem_map] at hp
        obtain ⟨i, _, rfl⟩ := hp
        simp
      have h2 : (ts.flatMap fun s' => (List.range s'.clients).map fun i => (s', i)).filter
          (fun p => p.1.id == s.id) = [] := by
        apply List.filter_eq_nil_iff.mpr
        intro p hp
        simp only [List.mem_flatMap, List.mem_map] at hp
        obtain ⟨s', hs', i, _, rfl⟩ := hp
        simp only [beq_iff_eq]
        intro heq
        exact hnd.1 (List.mem_map.mpr ⟨s', hs', heq⟩)
      rw [h1, h2]
      simp [List.map_map, Function.comp_def]
    · have h1 : ((List.range t.clients).map fun i => (t, i)).filter (fun p => p.1.id == s.id) = [] := by
        apply List.filter_eq_nil_iff.mpr
        intro p hp
        simp only [List.mem_map] at hp
        obtain ⟨i, _, rfl⟩ := hp
        simp only [beq_iff_eq]
        intro heq
        exact hnd.1 (List.mem_map.mpr ⟨s, hmem, heq.symm⟩)
      rw [h1]
      simpa using ih hmem hnd.2

/-- one step per schedule element, one progress entry per step, and the entry of step `k` is the
    task set of element `k` — also for elements left empty by filters (repaired code) -/
theorem steps_match_progress (s : List Element) :
    numberOfSteps s = s.length ∧ (tasksPerJoinpoint s).length = numberOfSteps s ∧
      ∀ k (h : k < s.length), (tasksPerJoinpoint s)[k]? = some (allocatedSubs s[k]) := by
  have h1 : numberOfSteps s = s.length := by
    unfold numberOfSteps joinPoints row
    simp only [List.filter_cons, Entry.isJoin, if_true, List.length_cons]
    rw [count_isJoin_rowFrom _ _ _ _ (maxClients_pos s) (maxClients_pos s)]
    omega
  refine ⟨h1, by simp [tasksPerJoinpoint, h1], ?_⟩
  intro k h
  simp [tasksPerJoinpoint, h]

/-- Historical witness (pinned code before the `fix:` commit): `tasks_per_joinpoint` skipped
    empty elements, so `[pre, ∅, post]` had 3 steps but 2 progress entries. -/
theorem pinned_steps_mismatch :
    let s : List Element := [⟨none, [⟨1, 1, false, false⟩]⟩, ⟨none, []⟩, ⟨none, [⟨2, 1, false, false⟩]⟩]
    numberOfSteps s = 3 ∧ (tasksPerJoinpointPinned s).length = 2 := by decide

/-! ### worker assignment -/

/-- client ids 0 … n−1 are handed out without loss or duplication, in order (hence every worker
    gets a contiguous range and the ranges are consecutive) -/
theorem assign_partition (hosts : List Host) (n : Nat) (hne : hosts ≠ [])
    (hc : ∀ h ∈ hosts, h.cores > 0) :
    flatClients (assign hosts n) = List.range n := by
  unfold assign
  rw [assignFrom_flat _ _ _ _ hc]
  have hl : hosts.length > 0 := List.length_pos_iff.mpr hne
  rw [assignRemaining_zero _ _ _ (ceilDiv_mul_ge n hosts.length hl)]
  simp [List.range_eq_range']

/-- the code's final `assert remaining_clients == 0` can never fail -/
theorem assert_remaining_zero (hosts : List Host) (n : Nat) (hne : hosts ≠ []) :
    assignRemaining (ceilDiv n hosts.length) hosts n = 0 :=
  assignRemaining_zero _ _ _ (ceilDiv_mul_ge n hosts.length (List.length_pos_iff.mpr hne))

/-- every worker's client list is a contiguous range -/
theorem worker_ranges_contiguous (start : Nat) (cs : List Nat) (w : List Nat)
    (h : w ∈ ranges start cs) : ∃ a, w = List.range' a w.length := by
  induction cs generalizing start with
  | nil => simp [ranges] at h
  | cons c cs ih =>
    simp only [ranges, List.mem_cons] at h
    rcases h with rfl | h
    · exact ⟨start, by simp⟩
    · exact ih _ h

theorem assignFrom_shape (per : Nat) (hosts : List Host) (idx rem : Nat) :
    ∀ p ∈ assignFrom per hosts idx rem, ∃ h ∈ hosts, ∃ i cnt, p = (h.name, ranges i (perWorker h.cores cnt)) := by
  induction hosts generalizing idx rem with
  | nil => simp [assignFrom]
  | cons h hs ih =>
    intro p hp
    simp only [assignFrom, List.mem_cons] at hp
    rcases hp with rfl | hp
    · exact ⟨h, List.mem_cons_self, idx, min per rem, rfl⟩
    · obtain ⟨h', hh', i, cnt, rfl⟩ := ih _ _ p hp
      exact ⟨h', List.mem_cons_of_mem _ hh', i, cnt, rfl⟩

/-- exactly one worker per core on every host, and per-host worker loads differ by at most one -/
theorem assign_one_worker_per_core_balanced (hosts : List Host) (n : Nat) :
    ∀ p ∈ assign hosts n, ∃ h ∈ hosts, p.1 = h.name ∧ p.2.length = h.cores ∧
      ∀ a ∈ p.2.map List.length, ∀ b ∈ p.2.map List.length, a ≤ b + 1 := by
  intro p hp
  obtain ⟨h, hh, i, cnt, rfl⟩ := assignFrom_shape _ _ _ _ p hp
  refine ⟨h, hh, rfl, by simp [ranges_length, perWorker_length], ?_⟩
  intro a ha b hb
  rw [ranges_lengths] at ha hb
  exact perWorker_balanced _ _ a b ha hb

/-- each host gets `min(⌈n/h⌉, remaining)` clients -/
theorem assign_host_share (per : Nat) (h : Host) (hs : List Host) (idx rem : Nat) (hc : h.cores > 0) :
    ∃ ws, (assignFrom per (h :: hs) idx rem).head? = some (h.name, ws) ∧
      (ws.map List.length).sum = min per rem := by
  refine ⟨_, rfl, ?_⟩
  rw [ranges_lengths, perWorker_sum _ _ hc]

/-! ### non-vacuity (tests, labelled as tests) -/

example : maxClients [⟨some 2, [⟨1, 3, true, false⟩, ⟨2, 1, false, false⟩]⟩, ⟨none, [⟨3, 3, false, false⟩]⟩] = 3 := by decide
example : (allocations [⟨some 2, [⟨1, 3, true, false⟩, ⟨2, 1, false, false⟩]⟩]).map List.length = [4, 4] := by decide
example : assign [⟨0, 2⟩, ⟨1, 1⟩] 5 = [(0, [[0, 1], [2]]), (1, [[3, 4]])] := by decide
example : (⟨1, 3, true, false⟩ : Sub) ∈ [(⟨1, 3, true, false⟩ : Sub), ⟨2, 1, false, false⟩] ∧
    ([(⟨1, 3, true, false⟩ : Sub), ⟨2, 1, false, false⟩].map (·.id)).Nodup := by decide

end C02
