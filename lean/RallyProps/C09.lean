import RallyModel.RaceCtl
import RallyModel.Race
import RallyProofs.Race
import RallyProofs.RaceStuck
import RallyProofs.Retry
import RallyGen.FailureRelay
/-!
# C09 — any failure or cancellation ends the race as failed, never as success

Three layers, each for all inputs of its kind:
* race control's decision logic (`RaceCtl`) for EVERY sequence of messages the benchmark actor may receive;
* the forwarding relay: for EVERY actor whose guarded handler raises and EVERY possible sender, the resulting
  `BenchmarkFailure` travels along the `receiveMsg_BenchmarkFailure` handlers to the benchmark actor and from there
  to the start sender, in at most 4 hops — over a table regenerated from the source on every run;
* executor failures are polled: in every reachable state of the protocol model of C01 a worker with an executor
  has exactly one wake-up pending (so the failed future is inspected at the next wake-up);
* a failed executor blocks completion: a worker whose executor never finishes stays inside its column, so for EVERY
  continuation of the race (any interleaving of everybody else's progress and of all message deliveries) the barrier
  never opens again — no further TaskFinished, no BenchmarkComplete, hence (first layer) no stored results.
-/
namespace C09
open RaceCtl

theorem run_append (s : State) (a b : List Msg) : run s (a ++ b) = run (run s a) b := by
  simp [run, List.foldl_append]

/-- flags only ever go up -/
theorem step_monotone (s : State) (m : Msg) :
    (s.error = true → (step s m).error = true) ∧ (s.cancelled = true → (step s m).cancelled = true) ∧
    (s.faultSeen = true → (step s m).faultSeen = true) ∧ s.replies <+: (step s m).replies := by
  cases m <;> simp [step]

theorem run_monotone (s : State) (ms : List Msg) :
    (s.error = true → (run s ms).error = true) ∧ (s.cancelled = true → (run s ms).cancelled = true) ∧
    s.replies <+: (run s ms).replies := by
  induction ms generalizing s with
  | nil => simp [run]
  | cons m ms ih =>
    have h1 := step_monotone s m
    have h2 := ih (step s m)
    simp only [run, List.foldl_cons] at h2 ⊢
    exact ⟨fun h => h2.1 (h1.1 h), fun h => h2.2.1 (h1.2.1 h), List.IsPrefix.trans h1.2.2.2 h2.2.2⟩

/-- a fault message sets one of the two suppressing flags and is answered at once by a non-success reply -/
theorem fault_sets_flag (s : State) (m : Msg) (hm : isFault m = true) :
    ((step s m).error = true ∨ (step s m).cancelled = true) ∧
    ∃ r, r ≠ Reply.success ∧ (step s m).replies = s.replies ++ [r] := by
  cases m <;> simp [isFault] at hm <;> simp [step]

/-- **no_results_after_fault_or_cancel** — once a failure, poison or cancel message has been handled, no later
    BenchmarkComplete stores results, prints the summary or stores the race with results:
    for every prefix `pre`, fault `m` and suffix `post`. -/
theorem no_results_after_fault_or_cancel (pre post : List Msg) (m : Msg) (hm : isFault m = true)
    (hpre : (run {} pre).resultsStored = false) :
    (run {} (pre ++ m :: post)).resultsStored = false := by
  rw [run_append]
  generalize hs : run {} pre = s at hpre
  have hflag : (step s m).error = true ∨ (step s m).cancelled = true := (fault_sets_flag s m hm).1
  have hrs : (step s m).resultsStored = false := by cases m <;> simp [isFault] at hm <;> simpa [step] using hpre
  simp only [run, List.foldl_cons]
  generalize step s m = t at hflag hrs
  induction post generalizing t with
  | nil => simpa using hrs
  | cons x xs ih =>
    simp only [List.foldl_cons]
    apply ih
    · rcases hflag with h | h
      · exact Or.inl ((step_monotone t x).1 h)
      · exact Or.inr ((step_monotone t x).2.1 h)
    · cases x <;> simp [step, hrs]
      rcases hflag with h | h <;> simp [h]

theorem step_stores_results (t : State) (x : Msg) (h0 : t.resultsStored = false)
    (h1 : (step t x).resultsStored = true) : x = .benchComplete ∧ t.error = false ∧ t.cancelled = false := by
  cases x <;> simp [step, h0] at h1
  exact ⟨rfl, h1.2, h1.1⟩

theorem run_snoc (s : State) (xs : List Msg) (x : Msg) : run s (xs ++ [x]) = step (run s xs) x := by
  simp [run, List.foldl_append]

/-- results are stored only by a BenchmarkComplete handled while neither flag is set -/
theorem results_only_without_flags (ms : List Msg) (h : (run {} ms).resultsStored = true) :
    ∃ pre post, ms = pre ++ Msg.benchComplete :: post ∧ (run {} pre).error = false ∧ (run {} pre).cancelled = false := by
  induction ms using List.reverseRecOn with
  | nil => simp [run] at h
  | append_singleton xs x ih =>
    by_cases hx : (run {} xs).resultsStored = true
    · obtain ⟨pre, post, heq, h1, h2⟩ := ih hx
      exact ⟨pre, post ++ [x], by simp [heq], h1, h2⟩
    · have hx' : (run {} xs).resultsStored = false := by simpa using hx
      rw [run_snoc] at h
      obtain ⟨rfl, h1, h2⟩ := step_stores_results _ _ hx' h
      exact ⟨xs, [], rfl, h1, h2⟩

/-- **never_success_after_fault** — if a failure, poison or cancel message is handled before the first
    EngineStopped, the first reply to the start sender — the only one `race()` looks at — is not Success:
    the race is reported failed or cancelled, whatever else arrives in whatever order. -/
theorem never_success_after_fault (pre post : List Msg) (m : Msg) (hm : isFault m = true)
    (hpre : Msg.engineStopped ∉ pre) :
    outcome (run {} (pre ++ m :: post)) = .failed ∨ outcome (run {} (pre ++ m :: post)) = .cancelled := by
  -- before the fault no success reply has been sent
  have hnosucc : ∀ (l : List Msg) (s : State), Msg.engineStopped ∉ l → Reply.success ∉ s.replies →
      Reply.success ∉ (run s l).replies := by
    intro l
    induction l with
    | nil => intro s _ h; simpa [run] using h
    | cons x xs ih =>
      intro s hx hs
      simp only [run, List.foldl_cons]
      apply ih
      · intro h; exact hx (List.mem_cons_of_mem _ h)
      · cases x <;> simp [step] <;> first | exact hs | (simp at hx)
  have h0 := hnosucc pre {} hpre (by simp)
  rw [run_append]
  generalize run {} pre = s at h0
  obtain ⟨_, r, hr, hrep⟩ := fault_sets_flag s m hm
  have hpref := (run_monotone (step s m) post).2.2
  simp only [run, List.foldl_cons] at hpref ⊢
  rw [hrep] at hpref
  obtain ⟨t, ht⟩ := hpref
  unfold outcome
  rw [← ht]
  -- the first reply is the head of s.replies ++ [r], none of which is success
  cases hsr : s.replies with
  | nil => cases r <;> simp at hr ⊢
  | cons a as =>
    have : a ≠ Reply.success := by
      intro h; apply h0; rw [hsr, h]; exact List.mem_cons_self
    cases a <;> simp at this ⊢

/-- a fault-free run is reported as success exactly after the mechanic confirmed the stop -/
theorem success_needs_engine_stopped (ms : List Msg) (h : outcome (run {} ms) = .success) :
    Msg.engineStopped ∈ ms := by
  by_contra hc
  have hnosucc : ∀ (l : List Msg) (s : State), Msg.engineStopped ∉ l → Reply.success ∉ s.replies →
      Reply.success ∉ (run s l).replies := by
    intro l
    induction l with
    | nil => intro s _ h; simpa [run] using h
    | cons x xs ih =>
      intro s hx hs
      simp only [run, List.foldl_cons]
      apply ih
      · intro h; exact hx (List.mem_cons_of_mem _ h)
      · cases x <;> simp [step] <;> first | exact hs | (simp at hx)
  have := hnosucc ms {} hc (by simp)
  unfold outcome at h
  cases hr : (run {} ms).replies with
  | nil => simp [hr] at h
  | cons a as =>
    rw [hr] at h this
    cases a <;> simp at h this

/-! ### the forwarding relay (table regenerated from the source by harness/c09.py:translate) -/

/-- follow the `receiveMsg_BenchmarkFailure` forwarding rules from the actor that receives the failure -/
def relay (next : Actor → Option Actor) : Nat → Actor → List Actor
  | 0, a => [a]
  | fuel + 1, a =>
    match next a with
    | some b => a :: relay next fuel b
    | none => [a]

/-- **failure_reaches_race_control** — for every actor with a guarded handler and every sender the table lists
    for it, the BenchmarkFailure that `no_retry` sends to the sender is forwarded hop by hop to the start sender
    within at most 4 hops, passing through the benchmark actor (which sets `error`) unless it was sent to the start
    sender directly. -/
theorem failure_reaches_race_control :
    ∀ p ∈ FailureRelay.guardedHandlerSenders,
      let path := relay FailureRelay.forwardsTo 5 p.2
      path.getLast? = some Actor.startSender ∧ path.length ≤ 5 ∧
      (p.2 ≠ Actor.startSender → Actor.benchmark ∈ path) := by
  decide +kernel

/-- every handler that runs user-influenced code is guarded by `no_retry`, or its actor converts the resulting
    PoisonMessage into a BenchmarkFailure for its parent -/
theorem unguarded_handlers_are_covered :
    ∀ h ∈ FailureRelay.unguardedHandlers, h.2.2 = true := by
  decide +kernel

/-- **executor_failure_is_polled** — in every reachable state of the protocol model a worker that has an executor
    (running, finished or — in the real system — failed) has exactly one wake-up pending, so the future's exception
    is inspected at the next wake-up and reported (Worker.receiveMsg_WakeupMessage). -/
theorem executor_failure_is_polled (cfg : Race.Cfg) (hwf : cfg.WF) (s : Race.State) (hr : Race.Reach cfg s)
    (w : Nat) (hw : w < cfg.W) (hex : (s.ws w).exec ≠ .none) : (s.ws w).wake = 1 := by
  have hwi := (Race.reach_inv hwf hr).winv w hw
  obtain ⟨e, c, hp⟩ := Race.inCol_of_exec hwi hex
  unfold Race.WInv at hwi
  simp only [hp] at hwi
  exact hwi.2.2.2.2.2.2.2.1

/-- **failed_executor_blocks_completion** — take any reachable state of the protocol model of C01 in which worker `w`
    is inside a column (it has an executor), and let that executor never finish (its future failed: no task of it
    returns any more, the future never becomes done-without-exception, and the wake-up that finds the exception only
    reports it).  Then for EVERY continuation — any interleaving of all other workers' progress and of every message
    delivery, including deliveries to `w` — `w` stays in that column, the driver's step counter does not move, race
    control is sent nothing more, and in particular never `BenchmarkComplete`. -/
theorem failed_executor_blocks_completion (cfg : Race.Cfg) (hwf : cfg.WF) (s : Race.State) (hr : Race.Reach cfg s)
    (w e c : Nat) (hw : w < cfg.W) (hp : (s.ws w).pos = .inCol e c)
    (evs : List Race.Event) (hstuck : ∀ ev ∈ evs, ev.ownOf w = false) (s' : Race.State)
    (hrun : Race.runEvs cfg s evs = some s') :
    (s'.ws w).pos = .inCol e c ∧ s'.d.stepP1 = s.d.stepP1 ∧ s'.d2r = s.d2r ∧ Race.MsgDR.benchComplete ∉ s'.d2r := by
  have hp' := Race.runEvs_keeps_pos evs s s' hrun hstuck hp
  have hr' := Race.reach_runEvs evs s s' hr hrun
  have hi := Race.reach_inv hwf hr
  have hi' := Race.reach_inv hwf hr'
  have h1 := hi.winv w hw
  have h2 := hi'.winv w hw
  unfold Race.WInv at h1 h2
  simp only [hp] at h1
  simp only [hp'] at h2
  have hD : s'.d.stepP1 = s.d.stepP1 := by omega
  have hne : ¬ s'.d.stepP1 = cfg.S + 1 := by omega
  refine ⟨hp', hD, ?_, ?_⟩
  · rw [hi'.d2r_eq, hi.d2r_eq, hD]
  · rw [hi'.d2r_eq]
    simp [hne]

/-- … and therefore, in race control's model, nothing that is sent from then on can make it store results: results
    are stored only on a `BenchmarkComplete` (and only while neither flag is set). -/
theorem results_need_benchmark_complete (ms : List Msg) (h : Msg.benchComplete ∉ ms) : (run {} ms).resultsStored = false := by
  cases hrs : (run {} ms).resultsStored with
  | false => rfl
  | true =>
    obtain ⟨pre, post, heq, _, _⟩ := results_only_without_flags ms hrs
    exact absurd (by rw [heq]; simp) h

/-- **poll_has_one_outcome** — every wake-up of a worker ends in exactly one of: driving on, reporting a cancellation,
    reporting a failure, or arming the next wake-up. -/
theorem poll_has_one_outcome (sd c : Bool) (f : Fut) : ((poll sd c f).filter (·.isOutcome)).length = 1 := by
  cases sd <;> cases c <;> cases f <;> rfl

/-- **failed_future_is_reported_and_never_driven** — a worker that is not about to start the next step and has not been
    cancelled, and whose executor's future ended with an exception, ships its samples, reports the failure and does
    nothing else: it neither drives on nor arms another wake-up (so it stays where it is — the hypothesis of
    `failed_executor_blocks_completion`). -/
theorem failed_future_is_reported_and_never_driven : poll false false .doneExc = [.shipSamples, .sendFailure] := rfl

/-- a cancelled worker reports the cancellation and neither drives on nor polls again, whatever its executor did -/
theorem cancelled_worker_reports_and_stops (f : Fut) : poll false true f = [.shipSamples, .sendCancelled] := by
  cases f <;> rfl

/-- driving on happens only when told to start the next step or when the executor ended without an exception -/
theorem drive_only_when_told_or_finished (sd c : Bool) (f : Fut) (h : PollAct.drive ∈ poll sd c f) :
    sd = true ∨ (c = false ∧ f = .doneOk) := by
  cases sd <;> cases c <;> cases f <;> simp [poll] at h ⊢

/-- the task executor of track preparation: a failed task is reported and nothing else happens (no next task is asked
    for, no further poll); every wake-up has exactly one outcome -/
theorem task_executor_failure_is_reported :
    pollTaskExecutor .doneExc = [.sendFailure] ∧ ∀ f, ((pollTaskExecutor f).filter (·.isOutcome)).length = 1 := by
  refine ⟨rfl, fun f => ?_⟩
  cases f <;> rfl

/-! ### track preparation: failures of every processor, in every status of the preparator -/

/-- **track_preparator_forwards_failure_in_every_status** — whatever status the track preparator is in (initializing, a processor
    running, a processor complete — e.g. while the NEXT processor is asked for its tasks — or none), a BenchmarkFailure it receives is
    passed on to the driver and its status is left alone: the relay table `FailureRelay.forwardsTo` holds in every state. -/
theorem track_preparator_forwards_failure_in_every_status (st : PrepStatus) :
    prepHandle st .benchmarkFailure = ([.forwardToDriver], st) ∧ prepHandle st .poison = ([.failureToDriver], st) := ⟨rfl, rfl⟩

/-- **seeding_failure_is_reported** — when the next track processor raises while it is asked for its tasks, the handler never
    declares the track prepared; in the regular state (a processor running, last child idle) it sends exactly one BenchmarkFailure,
    to the sender of the WorkerIdle (a task executor, which relays it back: `failure_reaches_race_control`), and it is then in
    status `complete` — the status in which the relayed failure arrives (previous theorem). -/
theorem seeding_failure_is_reported (st : PrepStatus) (last : Bool) :
    PrepSend.trackPrepared ∉ (prepHandle st (.workerIdle last .raises)).1 ∧
    (st = .running → last = true → prepHandle st (.workerIdle last .raises) = ([.failureToSender], .complete)) := by
  cases st <;> cases last <;> simp [prepHandle]

/-- **track_prepared_only_when_every_processor_is_done** — TrackPrepared is sent by exactly one (status, message) combination: a
    processor is running, the last child reports idle and no processor is left. -/
theorem track_prepared_only_when_every_processor_is_done (st : PrepStatus) (ev : PrepEv)
    (h : PrepSend.trackPrepared ∈ (prepHandle st ev).1) : st = .running ∧ ev = .workerIdle true .noneLeft := by
  cases ev with
  | benchmarkFailure => simp [prepHandle] at h
  | poison => simp [prepHandle] at h
  | readyForWork b => cases b <;> simp [prepHandle] at h
  | workerIdle l n => cases l <;> cases n <;> cases st <;> simp [prepHandle] at h ⊢

/-- **preparation_reports_every_failure** — for EVERY queue of track processors (any number, any number of tasks each): the track
    is declared prepared iff no processor raises when asked for its tasks and no task fails; otherwise a BenchmarkFailure arrives
    at the driver. -/
theorem preparation_reports_every_failure (first : Bool) (ps : List Proc) :
    prepRun first ps = .prepared ↔ ∀ p ∈ ps, p.seedRaises = false ∧ p.taskFails.any id = false := by
  induction ps generalizing first with
  | nil => simp [prepRun]
  | cons p ps ih =>
    simp only [prepRun, List.mem_cons, forall_eq_or_imp]
    cases h1 : p.seedRaises
    · cases h2 : p.taskFails.any id
      · simpa using ih false
      · simp
    · simp

/-- … and the failure needs at most three messages to get to the driver, wherever in the queue it happens -/
theorem preparation_failure_within_three_hops (first : Bool) (ps : List Proc) (h : Nat) (hf : prepRun first ps = .failed h) :
    1 ≤ h ∧ h ≤ 3 := by
  induction ps generalizing first with
  | nil => simp [prepRun] at hf
  | cons p ps ih =>
    simp only [prepRun] at hf
    cases h1 : p.seedRaises
    · cases h2 : p.taskFails.any id
      · simp only [h1, h2] at hf; exact ih false (by simpa using hf)
      · simp [h1, h2] at hf; omega
    · cases first <;> simp [h1] at hf <;> omega

/-- the three hops are the relay table's: a failure handed to a task executor travels preparator → driver → race control -/
theorem task_executor_relays_to_the_driver :
    relay FailureRelay.forwardsTo 2 .taskExecutor = [.taskExecutor, .trackPreparator, .driver] := by decide +kernel

/-! ### one request: the abort policy, and requests behind the retry wrapper -/

/-- **request_failure_aborts** — under on-error=abort every failed request (an unsuccessful result, any transport error, any API
    error) ends in RallyAssertionError; a connection error of the exact class does so under every policy; and a sample that says
    "success" is only produced for a runner that returned a value other than an unsuccessful dict. -/
theorem request_failure_aborts (o : RunOut) :
    (o.isRequestFailure = true → execSingle true o = .assertionError) ∧
    (∀ abort, execSingle abort .connErrorExact = .assertionError) ∧
    (∀ abort, execSingle abort o = .sample true → o = .tuple2 ∨ o = .dictSuccess ∨ o = .dictNoKey ∨ o = .otherValue) := by
  refine ⟨?_, fun abort => rfl, fun abort => ?_⟩
  · cases o <;> simp [RunOut.isRequestFailure, execSingle]
  · cases o <;> cases abort <;> simp [execSingle]

/-- under on-error=abort no outcome of the runner yields a sample of a failed request: the executor either gets a successful
    sample or an exception -/
theorem abort_never_records_a_failed_request (o : RunOut) : execSingle true o ≠ .sample false := by
  cases o <;> simp [execSingle]

/-- a successful sample under on-error=abort comes from a returned value that is not an unsuccessful result -/
theorem success_sample_needs_a_good_value (k : Retry.Kind) (h : execSingle true (ofRetryKind k) = .sample true) :
    k.isValue = true ∧ k ≠ Retry.Kind.dictFail := by
  cases k <;> simp [ofRetryKind, execSingle, Retry.Kind.isValue] at h ⊢

/-- **retried_request_never_invents_success** — for EVERY retry configuration and EVERY script of answers to the attempts: if a
    request behind the retry wrapper ends as a successful sample under on-error=abort, then some attempt really returned a value
    that is not an unsuccessful result (or the configuration allows no attempt at all: retries < 0). In particular a request whose
    attempts were all answered with errors (time-outs included, the last attempt included) never counts as a success. -/
theorem retried_request_never_invents_success (p : Retry.Params) (outs : List Retry.Outcome)
    (h : retriedRequest true p outs = some (.sample true)) :
    (∃ (i : Nat) (o : Retry.Outcome), outs[i]? = some o ∧ o.kind.isValue = true ∧ o.kind ≠ Retry.Kind.dictFail) ∨
      (Retry.cfg p).maxAttempts = 0 := by
  have hres := Retry.loop_res (Retry.cfg p) 0 outs
  unfold retriedRequest Retry.retry at h
  cases hr : (Retry.loop (Retry.cfg p) 0 outs).res with
  | returned o =>
    rw [hr] at hres h
    obtain ⟨i, _, hi, _⟩ := hres
    have hv := success_sample_needs_a_good_value o.kind (by simpa using h)
    exact Or.inl ⟨i, o, hi, hv.1, hv.2⟩
  | raised o =>
    rw [hr] at hres h
    obtain ⟨i, _, hi, hs⟩ := hres
    have hv := success_sample_needs_a_good_value o.kind (by simpa using h)
    have := Retry.classify_raise_isValue _ _ _ hs
    rw [hv.1] at this
    cases this
  | fellThrough =>
    rw [hr] at hres
    right
    have := hres.1
    omega
  | pending => rw [hr] at h; simp at h

/-- **exhausted_retries_abort** — the other direction, at the last attempt: whatever the earlier attempts were, when the deciding
    attempt is an error or an unsuccessful result, on-error=abort turns the request into an exception (never `none`, never a sample). -/
theorem decided_failure_aborts (p : Retry.Params) (outs : List Retry.Outcome) (o : Retry.Outcome)
    (hres : (Retry.retry p outs).res = .returned o ∨ (Retry.retry p outs).res = .raised o)
    (hk : o.kind ≠ Retry.Kind.dictOk ∧ o.kind ≠ Retry.Kind.nonDict) :
    ∃ r, retriedRequest true p outs = some r ∧ ∀ b, r ≠ .sample b := by
  unfold retriedRequest
  have key : ∀ k : Retry.Kind, k ≠ Retry.Kind.dictOk ∧ k ≠ Retry.Kind.nonDict → ∀ b, execSingle true (ofRetryKind k) ≠ .sample b := by
    intro k hk b
    cases k <;> simp [ofRetryKind, execSingle] at hk ⊢
  rcases hres with h | h <;> rw [h] <;> exact ⟨_, rfl, key _ hk⟩

/-! ### non-vacuity (tests, labelled as tests) -/

example : outcome (run {} [.engineStarted, .preparationComplete, .taskFinished, .failure, .benchComplete, .engineStopped]) = .failed ∧
    (run {} [.engineStarted, .preparationComplete, .taskFinished, .failure, .benchComplete, .engineStopped]).resultsStored = false := by decide
example : outcome (run {} [.engineStarted, .preparationComplete, .taskFinished, .benchComplete, .engineStopped]) = .success ∧
    (run {} [.engineStarted, .preparationComplete, .taskFinished, .benchComplete, .engineStopped]).resultsStored = true := by decide

/-- a reachable state with a worker inside a column: one worker, one element with one infinite task -/
def exStuckCfg : Race.Cfg :=
  { W := 1, S := 1, elems := fun w e => if w = 0 ∧ e = 0 then [[⟨0, 0, false, false, false⟩]] else [],
    joins := fun _ => ⟨[], []⟩, workerOf := fun _ => 0, clientsOf := fun w => if w = 0 then [0] else [] }

example : ((Race.runEvs exStuckCfg (Race.init exStuckCfg) [.deliverDW 0, .deliverWD 0, .deliverDW 0, .wakeW 0]).map
    fun s => ((s.ws 0).pos, s.d2r)) = some (.inCol 0 0, [.taskFinished]) := by decide

/-- three processors, the third cannot determine its tasks: the failure arrives at the driver after three messages -/
example : prepRun true [⟨false, [false, false]⟩, ⟨false, []⟩, ⟨true, [false]⟩] = .failed 3 ∧
    prepRun true [⟨false, [false, false]⟩, ⟨false, []⟩, ⟨false, [false]⟩] = .prepared ∧
    prepRun true [⟨false, [false]⟩, ⟨false, [false, true]⟩] = .failed 2 := by decide
example : prepHandle .running (.workerIdle true .raises) = ([.failureToSender], .complete) ∧
    prepHandle .complete .benchmarkFailure = ([.forwardToDriver], .complete) := by decide
/-- retries = 2, every attempt answered with HTTP 408: three attempts, then the request aborts; with a healthy third answer it is a success -/
example : retriedRequest true ⟨false, none, some 2, none, none, none⟩ [⟨.api408, 0⟩, ⟨.api408, 1⟩, ⟨.api408, 2⟩] = some .assertionError ∧
    retriedRequest true ⟨false, none, some 2, none, none, none⟩ [⟨.api408, 0⟩, ⟨.api408, 1⟩, ⟨.dictOk, 2⟩] = some (.sample true) ∧
    retriedRequest false ⟨false, none, some 2, none, none, none⟩ [⟨.api408, 0⟩, ⟨.api408, 1⟩, ⟨.api408, 2⟩] = some (.sample false) := by decide
example : execSingle false .connErrorExact = .assertionError ∧ execSingle false .connErrorSub = .sample false := by decide

end C09
