import RallyModel.Race
import RallyProofs.Race
import RallyProofs.RaceCompletion
import RallyProofs.RaceProgress
import RallyProofs.RaceDeadlock
import RallyProofs.RaceLive
import RallyProofs.RacePlain
import RallyProofs.RaceOfAlloc
import RallyProofs.RaceMeasure
/-!
# C01 — the schedule runs step by step on all clients under any message timing

Theorems about `RallyModel/Race.lean`, the model of Worker / Driver / executor flag logic.  `Reach cfg s` ranges
over every state reachable by ANY interleaving of message deliveries (FIFO per sender/receiver pair), wake-ups
(fired at any time after being armed) and executor progress, for ANY number of workers, schedule elements, columns
and clients.  `cfg.WF` only asks for at least one worker and that the artificial first join point carries no
completed-by information (both guaranteed by the allocator, C02).
-/
namespace C01
open Race

/-- **barrier_safety** — whenever some worker is inside schedule element `e` (so its clients may issue requests of
    `e`), every worker is about to start `e` (parked at join `e`), inside `e`, or done with `e` (parked at join
    `e+1`): no client is in an earlier or later element, and everybody has finished everything before `e`. -/
theorem barrier_safety (cfg : Cfg) (hwf : cfg.WF) (s : State) (hr : Reach cfg s) (w e c : Nat)
    (hw : w < cfg.W) (hp : (s.ws w).pos = .inCol e c) :
    ∀ v, v < cfg.W →
      match (s.ws v).pos with
      | .unstarted => False
      | .atJoin j => j = e ∨ j = e + 1
      | .inCol e' _ => e' = e := by
  have hinv := reach_inv hwf hr
  have hwi := hinv.winv w hw
  unfold WInv at hwi
  simp only [hp] at hwi
  have heD := hwi.1
  intro v hv
  have hvi := hinv.winv v hv
  unfold WInv at hvi
  cases hpv : (s.ws v).pos with
  | unstarted => simp only [hpv] at hvi; omega
  | atJoin j =>
    simp only [hpv] at hvi
    rcases hvi.2.2.2 with h1 | h1
    · right; omega
    · left; omega
  | inCol e' c' =>
    simp only [hpv] at hvi
    show e' = e
    omega

/-- two workers that are both executing tasks are executing tasks of the same schedule element -/
theorem same_element (cfg : Cfg) (hwf : cfg.WF) (s : State) (hr : Reach cfg s) (w v e c e' c' : Nat)
    (hw : w < cfg.W) (hv : v < cfg.W) (hp : (s.ws w).pos = .inCol e c) (hp' : (s.ws v).pos = .inCol e' c') :
    e' = e := by
  have := barrier_safety cfg hwf s hr w e c hw hp v hv
  simpa [hp'] using this

/-- the driver's step counter is exactly the element being executed -/
theorem step_counter_matches (cfg : Cfg) (hwf : cfg.WF) (s : State) (hr : Reach cfg s) (w e c : Nat)
    (hw : w < cfg.W) (hp : (s.ws w).pos = .inCol e c) : s.d.stepP1 = e + 1 ∧ e < cfg.S := by
  have hwi := (reach_inv hwf hr).winv w hw
  unfold WInv at hwi
  simp only [hp] at hwi
  omega

/-- **complete_reported_once** — what race control has been sent is exactly one `TaskFinished` per barrier opening
    and, after the last element only, one `BenchmarkComplete`; nothing follows it. -/
theorem complete_reported_once (cfg : Cfg) (hwf : cfg.WF) (s : State) (hr : Reach cfg s) :
    s.d.stepP1 ≤ cfg.S + 1 ∧
    s.d2r = List.replicate (min s.d.stepP1 cfg.S) MsgDR.taskFinished ++
      (if s.d.stepP1 = cfg.S + 1 then [MsgDR.benchComplete] else []) :=
  ⟨(reach_inv hwf hr).D_le, (reach_inv hwf hr).d2r_eq⟩

theorem benchComplete_at_most_once (cfg : Cfg) (hwf : cfg.WF) (s : State) (hr : Reach cfg s) :
    s.d2r.count MsgDR.benchComplete ≤ 1 ∧
    (MsgDR.benchComplete ∈ s.d2r → s.d2r = List.replicate cfg.S MsgDR.taskFinished ++ [MsgDR.benchComplete]) := by
  obtain ⟨hle, heq⟩ := complete_reported_once cfg hwf s hr
  rw [heq]
  by_cases hD : s.d.stepP1 = cfg.S + 1
  · simp [hD, List.count_append, List.count_replicate]
  · simp [hD, List.count_replicate]

/-- **wakeup_chain** — a worker inside an element always has exactly one wake-up pending and an executor to poll
    (the conjunct the pinned skip branch of `Worker.drive` violated), a parked worker that has not been told to
    drive has none, and at most one `Drive` is ever in flight to a worker. -/
theorem wakeup_chain (cfg : Cfg) (hwf : cfg.WF) (s : State) (hr : Reach cfg s) (w : Nat) (hw : w < cfg.W) :
    (∀ e c, (s.ws w).pos = .inCol e c → (s.ws w).wake = 1 ∧ (s.ws w).exec ≠ .none) ∧
    (parked (s.ws w) = true → (s.ws w).startDriving = false → (s.ws w).wake = 0) ∧
    driveCount (s.d2w w) ≤ 1 := by
  have hwi := (reach_inv hwf hr).winv w hw
  unfold WInv at hwi
  cases hp : (s.ws w).pos with
  | unstarted =>
    simp only [hp] at hwi
    refine ⟨(by intro e c h; cases h), fun _ _ => hwi.2.2.2.2.1, (by rw [hwi.2.1]; simp [driveCount])⟩
  | atJoin j =>
    simp only [hp] at hwi
    refine ⟨(by intro e c h; cases h), ?_, ?_⟩
    · intro _ hsd
      rcases hwi.2.2.2 with h1 | ⟨_, _, _, h3⟩
      · exact h1.2.2.2.1
      · rcases h3 with h | h | h
        · exact h.2.2.2.1
        · exact h.2.2.2.1
        · rw [h.2.2.1] at hsd; cases hsd
    · rcases hwi.2.2.2 with h1 | ⟨_, _, _, h3⟩
      · omega
      · rcases h3 with h | h | h <;> omega
  | inCol e c =>
    simp only [hp] at hwi
    refine ⟨?_, (by intro h; simp [parked, hp] at h), (by omega)⟩
    intro e' c' _
    exact ⟨hwi.2.2.2.2.2.2.2.1, hwi.2.2.2.2.2.2.2.2⟩

/-- **completed_by_scope** — the completion flag of a worker is only ever set while it is inside an element or
    armed to enter the next one; it is cleared whenever the worker is parked at a join point without having
    been told to drive, so a completed-by never leaks into another schedule element. -/
theorem completed_by_scope (cfg : Cfg) (hwf : cfg.WF) (s : State) (hr : Reach cfg s) (w : Nat) (hw : w < cfg.W)
    (hc : (s.ws w).complete = true) :
    (∃ e c, (s.ws w).pos = .inCol e c) ∨ (∃ j, (s.ws w).pos = .atJoin j ∧ (s.ws w).startDriving = true) := by
  have hwi := (reach_inv hwf hr).winv w hw
  unfold WInv at hwi
  cases hp : (s.ws w).pos with
  | unstarted => simp only [hp] at hwi; rw [hwi.2.2.2.2.2.2.2] at hc; cases hc
  | inCol e c => exact Or.inl ⟨e, c, rfl⟩
  | atJoin j =>
    simp only [hp] at hwi
    right
    refine ⟨j, rfl, ?_⟩
    rcases hwi.2.2.2 with h1 | ⟨_, _, _, h3⟩
    · rw [h1.2.2.2.2.1] at hc; cases hc
    · rcases h3 with h | h | h
      · rw [h.2.2.2.2] at hc; cases hc
      · rw [h.2.2.2.2] at hc; cases hc
      · exact h.2.2.1

/-- **barrier bookkeeping** — the driver's counter equals the number of distinct workers that reported the
    current join point and never reaches the number of workers between two handlers -/
theorem barrier_bookkeeping (cfg : Cfg) (hwf : cfg.WF) (s : State) (hr : Reach cfg s) :
    s.d.completed = s.d.reported.length ∧ s.d.reported.Nodup ∧ s.d.completed < cfg.W ∧
    ∀ w ∈ s.d.reported, w < cfg.W ∧ (s.ws w).pos = .atJoin s.d.stepP1 := by
  have hinv := reach_inv hwf hr
  refine ⟨hinv.completed_eq, hinv.reported_nodup, hinv.completed_lt, ?_⟩
  intro w hmem
  have hw := hinv.reported_lt w hmem
  refine ⟨hw, ?_⟩
  have hwi := hinv.winv w hw
  unfold WInv at hwi
  cases hp : (s.ws w).pos with
  | unstarted => simp only [hp] at hwi; exact absurd hmem hwi.2.2.2.1
  | inCol e c => simp only [hp] at hwi; exact absurd hmem hwi.2.2.2.2.2.1
  | atJoin j =>
    simp only [hp] at hwi
    rcases hwi.2.2.2 with h1 | h1
    · rw [h1.1]
    · exact absurd hmem h1.2.2.1

/-- **completed_by_effective** (no lost completion) — once the driver has broadcast CompleteCurrentTask for the
    current step, every worker that has not yet reached the closing join point either has its completion flag set
    or has a CompleteCurrentTask in its inbox that WILL be honoured when the inbox is processed in FIFO order
    (`willComplete`: it comes after the `Drive`, or the worker is already inside the element / armed).  This is the
    conjunct that needs the repaired `receiveMsg_CompleteCurrentTask` (honour it while `start_driving`). -/
theorem completed_by_effective (cfg : Cfg) (hwf : cfg.WF) (s : State) (hr : Reach cfg s)
    (hsent : s.d.cctSent = true) (w : Nat) (hw : w < cfg.W) (hin : inStep s w) :
    (s.ws w).complete = true ∨ willComplete (s.d2w w) (honours (s.ws w)) = true :=
  reach_cinv hwf hr hsent w hw hin

/-- what `willComplete` promises: handling the inbox front to back with the worker's own handlers sets the flag -/
theorem willComplete_meaning (l : List MsgDW) (h : Bool) :
    willComplete l h = true ↔
      ∃ pre post, l = pre ++ MsgDW.cct :: post ∧ (h = true ∨ MsgDW.drive ∈ pre) := by
  induction l generalizing h with
  | nil => simp [willComplete]
  | cons m ms ih =>
    cases m with
    | drive =>
      simp only [willComplete]
      rw [ih true]
      constructor
      · rintro ⟨pre, post, rfl, _⟩
        exact ⟨MsgDW.drive :: pre, post, rfl, Or.inr List.mem_cons_self⟩
      · rintro ⟨pre, post, heq, _⟩
        cases pre with
        | nil => simp at heq
        | cons x xs =>
          simp only [List.cons_append, List.cons.injEq] at heq
          exact ⟨xs, post, heq.2, Or.inl rfl⟩
    | cct =>
      simp only [willComplete, Bool.or_eq_true]
      rw [ih h]
      constructor
      · rintro (hh | ⟨pre, post, rfl, hc⟩)
        · exact ⟨[], ms, rfl, Or.inl hh⟩
        · refine ⟨MsgDW.cct :: pre, post, rfl, ?_⟩
          rcases hc with hc | hc
          · exact Or.inl hc
          · exact Or.inr (List.mem_cons_of_mem _ hc)
      · rintro ⟨pre, post, heq, hc⟩
        cases pre with
        | nil =>
          rcases hc with hc | hc
          · exact Or.inl hc
          · simp at hc
        | cons x xs =>
          simp only [List.cons_append, List.cons.injEq] at heq
          right
          refine ⟨xs, post, heq.2, ?_⟩
          rcases hc with hc | hc
          · exact Or.inl hc
          · rcases List.mem_cons.mp hc with hx | hx
            · rw [← heq.1] at hx; cases hx
            · exact Or.inr hx
    | startWorker =>
      simp only [willComplete]
      rw [ih h]
      constructor
      · rintro ⟨pre, post, rfl, hc⟩
        refine ⟨MsgDW.startWorker :: pre, post, rfl, ?_⟩
        rcases hc with hc | hc
        · exact Or.inl hc
        · exact Or.inr (List.mem_cons_of_mem _ hc)
      · rintro ⟨pre, post, heq, hc⟩
        cases pre with
        | nil => simp at heq
        | cons x xs =>
          simp only [List.cons_append, List.cons.injEq] at heq
          refine ⟨xs, post, heq.2, ?_⟩
          rcases hc with hc | hc
          · exact Or.inl hc
          · rcases List.mem_cons.mp hc with hx | hx
            · rw [← heq.1] at hx; cases hx
            · exact Or.inr hx

/-- **starts_at_most_once** — every column of a worker's allocation (one AsyncIoAdapter run for the task allocations
    of its clients at one index) is entered at most once, and only at or before the worker's current position:
    no task allocation is ever started twice. -/
theorem starts_at_most_once (cfg : Cfg) (hwf : cfg.WF) (s : State) (hr : Reach cfg s) :
    s.entered.Nodup ∧ ∀ w e c, (w, e, c) ∈ s.entered → notAfter e c (s.ws w).pos :=
  reach_einv hwf hr

/-- **no_spurious_completion** — while an element without completed-by is being executed, the driver has not
    broadcast CompleteCurrentTask, no worker's completion flag is set and no inbox holds a CompleteCurrentTask that
    the worker would honour (a stale one from the previous element is always in front of the Drive and is dropped). -/
theorem no_spurious_completion (cfg : Cfg) (hwf : cfg.WF) (s : State) (hr : Reach cfg s) (D : Nat)
    (hD : s.d.stepP1 = D + 1) (hDS : D < cfg.S) (hpl : PlainElem cfg D) :
    s.d.cctSent = false ∧
    ∀ w, w < cfg.W → (s.ws w).complete = false ∧ willComplete (s.d2w w) (honours (s.ws w)) = false :=
  reach_qinv hwf hr D hD hDS hpl

/-- **runs_every_column** — a worker that has left an element without completed-by has started every one of its
    (non-empty) task columns of that element: nothing allocated there is skipped. -/
theorem runs_every_column (cfg : Cfg) (hwf : cfg.WF) (s : State) (hr : Reach cfg s) (w e : Nat) (hw : w < cfg.W)
    (hpl : PlainElem cfg e)
    (hpast : match (s.ws w).pos with
      | .unstarted => False
      | .atJoin j => e < j
      | .inCol e' _ => e < e') :
    ∀ c, c < (cfg.elems w e).length → (w, e, c) ∈ s.entered := by
  have h := reach_ainv hwf hr w e hw hpl
  cases hp : (s.ws w).pos with
  | unstarted => rw [hp] at hpast; exact absurd hpast (by simp)
  | atJoin j => rw [hp] at hpast h; exact h hpast
  | inCol e' c' => rw [hp] at hpast h; exact h.1 hpast

/-- **exactly_once** — … and it has started each of them exactly once -/
theorem runs_every_column_exactly_once (cfg : Cfg) (hwf : cfg.WF) (s : State) (hr : Reach cfg s) (w e : Nat)
    (hw : w < cfg.W) (hpl : PlainElem cfg e)
    (hpast : match (s.ws w).pos with
      | .unstarted => False
      | .atJoin j => e < j
      | .inCol e' _ => e < e') :
    ∀ c, c < (cfg.elems w e).length → s.entered.count (w, e, c) = 1 := by
  intro c hc
  exact List.count_eq_one_of_mem (starts_at_most_once cfg hwf s hr).1 (runs_every_column cfg hwf s hr w e hw hpl hpast c hc)

/-- when the race is over (BenchmarkComplete has been sent) every worker is parked at the last join point -/
theorem finished_all_at_last_join (cfg : Cfg) (hwf : cfg.WF) (s : State) (hr : Reach cfg s)
    (hfin : s.d.stepP1 = cfg.S + 1) (w : Nat) (hw : w < cfg.W) : (s.ws w).pos = .atJoin cfg.S := by
  have hwi := (reach_inv hwf hr).winv w hw
  unfold WInv at hwi
  cases hp : (s.ws w).pos with
  | unstarted => simp only [hp] at hwi; omega
  | inCol e c => simp only [hp] at hwi; omega
  | atJoin j =>
    simp only [hp] at hwi
    rcases hwi.2.2.2 with ⟨h1, _⟩ | ⟨h1, _⟩
    · omega
    · congr; omega

/-- **finished_race_ran_everything** — in a finished race every worker has started every column of every element
    without completed-by exactly once -/
theorem finished_race_ran_everything (cfg : Cfg) (hwf : cfg.WF) (s : State) (hr : Reach cfg s)
    (hfin : s.d.stepP1 = cfg.S + 1) (w e : Nat) (hw : w < cfg.W) (he : e < cfg.S) (hpl : PlainElem cfg e) :
    ∀ c, c < (cfg.elems w e).length → s.entered.count (w, e, c) = 1 := by
  have hp := finished_all_at_last_join cfg hwf s hr hfin w hw
  exact runs_every_column_exactly_once cfg hwf s hr w e hw hpl (by rw [hp]; exact he)

/-! ### link to the allocator model (C02): the configuration the driver hands to its workers -/

open RaceOfAlloc in
/-- **allocated_client_runs_exactly_once** — end to end over both models: take ANY schedule, ANY layout of the
    physical clients over started workers, the configuration `cfgOf` the driver derives from the allocation matrix
    (the correspondence check compares it with the real `ClientAllocations` on every simulated race), and ANY finished
    race of it.  Then every logical client of every element without completed-by — sub-task `sub`, client index `i`,
    the `c`-th in allocation order — has been started exactly once, on physical client `c % m`, by the worker that
    owns that client. -/
theorem allocated_client_runs_exactly_once (finite : Nat → Bool) (sched : List Alloc.Element) (workers : List (List Nat))
    (s : State) (hr : Reach (cfgOf finite sched workers) s) (hfin : s.d.stepP1 = sched.length + 1)
    (e w c i : Nat) (el : Alloc.Element) (rows : List Nat) (sub : Alloc.Sub)
    (hel : sched[e]? = some el) (hn : NoCompletedBy el) (hw : workers[w]? = some rows)
    (hc : (Alloc.expand el)[c]? = some (sub, i)) (hrow : c % Alloc.maxClients sched ∈ rows) :
    ∃ (c' : Nat) (col : List TaskA), ((cfgOf finite sched workers).elems w e)[c']? = some col ∧
      (⟨c % Alloc.maxClients sched, sub.id, finite sub.id, sub.completesParent, sub.anyCompletes⟩ : TaskA) ∈ col ∧
      s.entered.count (w, e, c') = 1 := by
  have hwne : workers ≠ [] := by
    intro h; rw [h] at hw; simp at hw
  have hwf := cfgOf_wf finite sched workers hwne
  have hwlt : w < (cfgOf finite sched workers).W := by
    simp only [cfgOf]
    rcases Nat.lt_or_ge w workers.length with h | h
    · exact h
    · rw [List.getElem?_eq_none_iff.mpr h] at hw; exact absurd hw (by simp)
  have helt : e < (cfgOf finite sched workers).S := by
    simp only [cfgOf]
    rcases Nat.lt_or_ge e sched.length with h | h
    · exact h
    · rw [List.getElem?_eq_none_iff.mpr h] at hel; exact absurd hel (by simp)
  obtain ⟨c', col, hcol, hmem⟩ := client_in_a_column finite sched workers e w c el rows sub i hel hw hc hrow
  refine ⟨c', col, hcol, hmem, ?_⟩
  have hlen : c' < ((cfgOf finite sched workers).elems w e).length := by
    rcases Nat.lt_or_ge c' ((cfgOf finite sched workers).elems w e).length with h | h
    · exact h
    · rw [List.getElem?_eq_none_iff.mpr h] at hcol; exact absurd hcol (by simp)
  exact finished_race_ran_everything _ hwf s hr (by simpa [cfgOf] using hfin) w e hwlt helt
    (cfgOf_plain finite sched workers e el hel hn) c' hlen

/-- non-vacuity: a schedule of a 3-client task followed by a parallel element of a 1-client and a 2-client task,
    three physical clients on two workers -/
def exSched : List Alloc.Element :=
  [⟨none, [⟨0, 3, false, false⟩]⟩, ⟨some 2, [⟨1, 1, false, false⟩, ⟨2, 2, false, false⟩]⟩]
def exWorkers : List (List Nat) := [[0, 1], [2]]

example : ((RaceOfAlloc.cfgOf (fun _ => true) exSched exWorkers).elems 0 1) =
    [[⟨0, 1, true, false, false⟩, ⟨1, 2, true, false, false⟩]] := by decide
example : ((RaceOfAlloc.cfgOf (fun _ => true) exSched exWorkers).elems 1 1) = [[⟨2, 2, true, false, false⟩]] := by decide
example : RaceOfAlloc.NoCompletedBy ⟨some 2, [⟨1, 1, false, false⟩, ⟨2, 2, false, false⟩]⟩ := by
  intro s hs; simp at hs; rcases hs with rfl | rfl <;> simp
example : (Alloc.expand ⟨some 2, [⟨1, 1, false, false⟩, ⟨2, 2, false, false⟩]⟩)[2]? = some (⟨2, 2, false, false⟩, 1) := by decide

/-- an idle poll (wake-up while the executor is still running) leaves the worker exactly as it was -/
theorem idle_poll_is_stutter (cfg : Cfg) (s : State) (w : Nat) (ts : List (TaskA × Bool))
    (hwk : (s.ws w).wake ≠ 0) (hsd : (s.ws w).startDriving = false) (hex : (s.ws w).exec = .running ts) :
    ∃ s', step cfg s (.wakeW w) = some s' ∧ s'.ws w = s.ws w ∧ s'.d = s.d ∧ s'.d2w = s.d2w ∧ s'.w2d = s.w2d := by
  have hnsd : ¬ (s.ws w).startDriving = true := by simp [hsd]
  refine ⟨{ s with ws := upd s.ws w { (s.ws w) with wake := (s.ws w).wake - 1 + 1 } }, ?_, ?_, rfl, rfl, rfl⟩
  · simp only [step, if_neg hwk, if_neg hnsd, hex]
  · simp only [upd_same]
    have : (s.ws w).wake - 1 + 1 = (s.ws w).wake := by omega
    rw [this]

/-- the liveness statement: every unfinished reachable state of a race whose configuration satisfies `canEnd` has an
    enabled event that changes the state (i.e. one that is not an idle poll — `idle_poll_is_stutter`). -/
def ProgressFull (cfg : Cfg) (canEnd : Prop) : Prop :=
  canEnd → ∀ s, Reach cfg s → s.d.stepP1 ≤ cfg.S → ∃ e s', step cfg s e = some s' ∧ Changed s s'

/-- **progress** — no deadlock, no lost completion, no stalled worker: for every number of workers, every schedule
    shape and every reachable state, while the race is not over some event other than an idle poll is enabled,
    provided *every element can end* (`Cfg.CanEnd`): completing tasks are finite and each element either consists of
    workers that end on their own, or has a named completed-by task all of whose clients' workers end on their own,
    or (completed-by any) has a worker running such a task that ends on its own — where a worker "ends on its own" if
    every task that does not terminate by itself sits in or after a column holding a finite completing-type task.
    Uses all four invariants: `Inv` (barrier / wake-up chain), `CInv` (no lost completion), `KInv` (the completion
    flag is set as soon as a completing-type task has ended), `NInv` (the broadcast happens as soon as the awaited
    workers have reported).  A stalled worker (pinned skip branch), an ignored CompleteCurrentTask (pinned handler) or a
    broadcast triggered by an idle worker (pinned `any` rule) each make this theorem unprovable. -/
theorem progress (cfg : Cfg) (hwf : cfg.WF) : ProgressFull cfg cfg.CanEnd := by
  intro hce s hr hunf
  exact no_deadlock_canEnd hwf hce hr hunf

/-! ### termination: a measure that every state-changing step decreases -/

/-- **measure_decreases** — every step other than an idle poll strictly decreases `pot`, a natural number made of the
    work each worker has left (columns to enter, tasks to return, join points to reach), the messages in flight and
    the barrier openings / completion broadcasts the driver has left -/
theorem measure_decreases (cfg : Cfg) (hwf : cfg.WF) (s s' : State) (e : Event) (hr : Reach cfg s)
    (h : step cfg s e = some s') (hch : Changed s s') : pot cfg s' < pot cfg s :=
  step_pot (reach_inv hwf hr) h hch

/-- **runs_are_bounded** — no run of a race has more than `pot cfg (init cfg)` state-changing steps: the protocol cannot
    cycle (no livelock), under any interleaving -/
theorem runs_are_bounded (cfg : Cfg) (hwf : cfg.WF) (s' : State) (n : Nat) (h : Run cfg (init cfg) n s') :
    n ≤ pot cfg (init cfg) := by
  have := run_bounded hwf Reach.init h
  omega

/-- **maximal_run_is_complete** — liveness in full: a run that cannot be extended by a state-changing step (only idle
    polls are left) has ended — race control has been sent one TaskFinished per step and BenchmarkComplete.  With
    `runs_are_bounded`: every run in which enabled state-changing steps are eventually taken reaches that state after
    at most `pot cfg (init cfg)` of them. -/
theorem maximal_run_is_complete (cfg : Cfg) (hwf : cfg.WF) (hce : cfg.CanEnd) (s' : State) (n : Nat)
    (h : Run cfg (init cfg) n s') (hmax : ∀ e s'', step cfg s' e = some s'' → ¬ Changed s' s'') :
    s'.d.stepP1 = cfg.S + 1 ∧ s'.d2r = List.replicate cfg.S MsgDR.taskFinished ++ [MsgDR.benchComplete] := by
  have hr : Reach cfg s' := h.reach Reach.init
  have hinv := reach_inv hwf hr
  have hfin : s'.d.stepP1 = cfg.S + 1 := by
    rcases Nat.lt_or_ge cfg.S s'.d.stepP1 with hlt | hge
    · have := hinv.D_le; omega
    · obtain ⟨e, s'', hs, hc⟩ := progress cfg hwf hce s' hr hge
      exact absurd hc (hmax e s'' hs)
  refine ⟨hfin, ?_⟩
  have := hinv.d2r_eq
  rw [hfin] at this
  simpa using this

/-- configurations whose tasks all end by themselves can end -/
theorem allFinite_canEnd (cfg : Cfg) (haf : cfg.AllFinite) : cfg.CanEnd := by
  refine ⟨?_, ?_⟩
  · intro w e col t hcol ht _
    exact haf w e col hcol t ht
  · intro e _
    left
    intro u _ c col t hcol ht hnf
    have := haf u e col (List.mem_of_getElem? hcol) t ht
    rw [this] at hnf
    cases hnf

/-- corollary: deadlock-freedom when every task is finite -/
theorem progress_finite (cfg : Cfg) (hwf : cfg.WF) : ProgressFull cfg cfg.AllFinite := by
  intro haf
  exact progress cfg hwf (allFinite_canEnd cfg haf)

/-! ### non-vacuity: a concrete 2-worker, 1-element configuration with a completed-by task (tests, labelled as tests) -/

def exCfg : Cfg :=
  { W := 2, S := 1,
    elems := fun w e => if e = 0 then (if w = 0 then [[⟨0, 0, true, true, false⟩]] else [[⟨1, 1, false, false, false⟩]]) else [],
    joins := fun j => if j = 1 then ⟨[0], []⟩ else ⟨[], []⟩,
    workerOf := fun c => c, clientsOf := fun w => [w] }

example : exCfg.WF := ⟨by decide, by decide⟩

/-- the example configuration (an eternal task ended by a named completed-by task on another worker) can end -/
example : exCfg.CanEnd := by
  refine ⟨?_, ?_⟩
  · intro w e col t hcol ht hcp
    simp only [exCfg] at hcol
    split at hcol
    · split at hcol
      · simp only [List.mem_singleton] at hcol; subst hcol; simp only [List.mem_singleton] at ht; subst ht; rfl
      · simp only [List.mem_singleton] at hcol; subst hcol; simp only [List.mem_singleton] at ht; subst ht; simp at hcp
    · simp at hcol
  · intro e he
    have he0 : e = 0 := by simp only [exCfg] at he; omega
    subst he0
    right; left
    refine ⟨by simp [exCfg], ?_⟩
    intro c hc
    simp only [exCfg, if_true, List.mem_singleton] at hc
    subst hc
    refine ⟨by simp [exCfg], ?_⟩
    intro c col t hcol ht hnf
    simp only [exCfg, if_true] at hcol
    cases c with
    | zero =>
      simp only [List.getElem?_cons_zero, Option.some.injEq] at hcol
      subst hcol
      simp only [List.mem_singleton] at ht
      subst ht
      simp at hnf
    | succ n => simp at hcol

/-- a complete run of that configuration: the eternal task of worker 1 is ended by CompleteCurrentTask -/
def exRun : List Event :=
  [.deliverDW 0, .deliverDW 1, .deliverWD 0, .deliverWD 1, .deliverDW 0, .deliverDW 1, .wakeW 0, .wakeW 1,
   .taskDone 0 0, .execFinish 0, .wakeW 0, .deliverWD 0, .deliverDW 1, .taskDone 1 0, .execFinish 1, .wakeW 1, .deliverWD 1]

def runEvents (cfg : Cfg) : State → List Event → Option State
  | s, [] => some s
  | s, e :: es => match step cfg s e with
    | some s' => runEvents cfg s' es
    | none => none

example : ((runEvents exCfg (init exCfg) exRun).map (·.d2r)) = some [.taskFinished, .benchComplete] := by decide

open RaceOfAlloc in
/-- **finite_schedule_race_completes** — end to end over both models: for ANY schedule whose tasks all end by
    themselves and ANY layout of its clients over started workers, every run of the race that only idle polls can
    extend has delivered one TaskFinished per schedule element and BenchmarkComplete, after at most `pot` state-changing
    steps — whatever the interleaving of messages, wake-ups and executor progress. -/
theorem finite_schedule_race_completes (finite : Nat → Bool) (sched : List Alloc.Element) (workers : List (List Nat))
    (hw : workers ≠ []) (hf : ∀ id, finite id = true) (s' : State) (n : Nat)
    (h : Run (cfgOf finite sched workers) (init (cfgOf finite sched workers)) n s')
    (hmax : ∀ e s'', step (cfgOf finite sched workers) s' e = some s'' → ¬ Changed s' s'') :
    n ≤ pot (cfgOf finite sched workers) (init (cfgOf finite sched workers)) ∧
    s'.d2r = List.replicate sched.length MsgDR.taskFinished ++ [MsgDR.benchComplete] := by
  have hwf := cfgOf_wf finite sched workers hw
  have hce := allFinite_canEnd _ (cfgOf_allFinite finite sched workers hf)
  refine ⟨runs_are_bounded _ hwf s' n h, ?_⟩
  have := (maximal_run_is_complete _ hwf hce s' n h hmax).2
  simpa [cfgOf] using this

open RaceOfAlloc in
/-- **schedule_race_completes** — the same for schedules with completed-by: named completing tasks end by themselves
    and every element can end (`ElemCanEnd`: all its tasks finite, or it fits into one allocation column and has a named
    completing task / is completed by any of its tasks with a finite one), the clients laid out over the hosts' workers
    by the model of `calculate_worker_assignments`. -/
theorem schedule_race_completes (finite : Nat → Bool) (sched : List Alloc.Element) (hosts : List Alloc.Host)
    (hne : hosts ≠ []) (hc : ∀ h ∈ hosts, h.cores > 0)
    (hcp : ∀ (e : Nat) (el : Alloc.Element) (s : Alloc.Sub), sched[e]? = some el → s ∈ el.tasks → s.completesParent = true →
      finite s.id = true)
    (hel : ∀ (e : Nat) (el : Alloc.Element), sched[e]? = some el → ElemCanEnd finite (Alloc.maxClients sched) el)
    (s' : State) (n : Nat)
    (h : Run (cfgOf finite sched (workersOf hosts (Alloc.maxClients sched)))
      (init (cfgOf finite sched (workersOf hosts (Alloc.maxClients sched)))) n s')
    (hmax : ∀ e s'', step (cfgOf finite sched (workersOf hosts (Alloc.maxClients sched))) s' e = some s'' → ¬ Changed s' s'') :
    s'.d2r = List.replicate sched.length MsgDR.taskFinished ++ [MsgDR.benchComplete] := by
  have hcov := fun r hr => workersOf_cover hosts (Alloc.maxClients sched) hne hc r hr
  have hwne : workersOf hosts (Alloc.maxClients sched) ≠ [] := by
    obtain ⟨w, rows, hw, _⟩ := hcov 0 (Alloc.maxClients_pos sched)
    intro hnil; rw [hnil] at hw; simp at hw
  have hwf := cfgOf_wf finite sched _ hwne
  have hce := cfgOf_canEnd finite sched _ hcov hcp hel
  have := (maximal_run_is_complete _ hwf hce s' n h hmax).2
  simpa [cfgOf] using this

/-- non-vacuity: an eternal task next to a named completing task that ends by itself, in one column of three clients -/
example : RaceOfAlloc.ElemCanEnd (fun id => id == 1) 3 ⟨none, [⟨0, 1, false, false⟩, ⟨1, 1, true, false⟩]⟩ :=
  Or.inr (Or.inl ⟨by decide, 1, ⟨1, 1, true, false⟩, 0, by decide, rfl⟩)

/-- the measure of the example configuration bounds the state-changing steps of every run of it by 26; the complete
    run above has 17 events -/
example : pot exCfg (init exCfg) = 26 ∧ exRun.length = 17 := by decide

end C01
