import RallyModel.Bulk
import RallyProofs.Bulk
import RallyProofs.BulkLines
/-!
# C03 — bulk indexing ingests every corpus document exactly once across clients

Property theorems only; vocabulary and helper lemmas live in `RallyProofs/Bulk.lean`
(`Cut`, `Tiles`, `FlSpec`, `srcLines`, `Slice.window`, `chunks`, `Reader.OK`, `BulkOK`, `Paired`,
`IdTrace`, `OracleOK`, `DocSet.WF`, `sliceOf`, `hasShare`, `lineOff` …).

* `bounds` is the float code (`Dbl.fl` = IEEE-754 round-to-nearest-even on exact rationals): the
  partition theorem is about what Python computes, for every total ≤ 2^50 and every client count.
* readers: for every file, offset, count, bulk and batch size.
* parameter source: for every order in which the co-located clients call `params()`.
* random draws: for every oracle that respects the contracts of `random` (`OracleOK`).
-/
namespace C03
open Bulk

variable {α : Type}

/-! ## bounds_partition -/

/-- **bounds_partition**, parametric form: for every rounding function with the three laws of `FlSpec`
    (fl 0 = 0, monotone on non-negatives, relative error ≤ 2⁻⁵³) the `(offset_lines, lines)` pairs of any
    cutting of the clients `0..n-1` into consecutive ranges are consecutive, non-negative and cover
    `[0, total·lines_per_doc)`. -/
theorem bounds_partition_flspec {fl : Rat → Rat} (S : FlSpec fl) {T n : Nat} (hn : 1 ≤ n) (hT : T ≤ 2^50) (m : Bool)
    {rs : List (Nat × Nat)} (hcut : Cut 0 n rs) :
    Tiles 0 ((T : Int) * lpd m)
      (rs.map fun r => ((boundsWith fl T r.1 r.2 n m).1, (boundsWith fl T r.1 r.2 n m).2.2)) := by
  have h := tiles_of_cut S T n m hcut
  rwa [S.off_zero, S.off_total hn hT, zero_mul] at h

/-- **bounds_partition** for the code as it runs (IEEE doubles): consecutive, disjoint, covering; the
    number of documents of every range is non-negative, `lines = docs · lines_per_doc`,
    `offset_lines = offset_docs · lines_per_doc`. -/
theorem bounds_partition {T n : Nat} (hn : 1 ≤ n) (hT : T ≤ 2^50) (m : Bool) {rs : List (Nat × Nat)} (hcut : Cut 0 n rs) :
    Tiles 0 ((T : Int) * lpd m) (rs.map fun r => ((bounds T r.1 r.2 n m).1, (bounds T r.1 r.2 n m).2.2)) ∧
      ∀ r ∈ rs, 0 ≤ (bounds T r.1 r.2 n m).2.1 ∧
        (bounds T r.1 r.2 n m).2.2 = (bounds T r.1 r.2 n m).2.1 * lpd m ∧
        (bounds T r.1 r.2 n m).1 = offDocs T n r.1 * lpd m :=
  ⟨bounds_partition_flspec dbl_flSpec hn hT m hcut,
   fun r hr => ⟨docs_nonneg (hcut.ranges_ok r hr).1 m, rfl, rfl⟩⟩

/-- every line position of the file belongs to exactly one client range, every other position to none -/
theorem bounds_each_line_once {T n : Nat} (hn : 1 ≤ n) (hT : T ≤ 2^50) (m : Bool) {rs : List (Nat × Nat)}
    (hcut : Cut 0 n rs) (x : Int) :
    (rs.map fun r => ((bounds T r.1 r.2 n m).1, (bounds T r.1 r.2 n m).2.2)).countP
        (fun t => decide (t.1 ≤ x ∧ x < t.1 + t.2)) = if 0 ≤ x ∧ x < (T : Int) * lpd m then 1 else 0 :=
  (bounds_partition hn hT m hcut).1.countP x

/-- the document counts of the ranges add up to the total -/
theorem bounds_docs_sum {T n : Nat} (hn : 1 ≤ n) (hT : T ≤ 2^50) (m : Bool) {rs : List (Nat × Nat)} (hcut : Cut 0 n rs) :
    (rs.map fun r => (bounds T r.1 r.2 n m).2.1).sum = T := by
  have h := (bounds_partition hn hT false hcut).1.sum
  simp only [List.map_map, zero_add] at h
  have e : ∀ r : Nat × Nat, (bounds T r.1 r.2 n false).2.2 = (bounds T r.1 r.2 n m).2.1 := by
    intro r
    show (bounds T r.1 r.2 n false).2.1 * 1 = _
    rw [mul_one]; rfl
  have : (rs.map ((fun t : Int × Int => t.2) ∘ fun r => ((bounds T r.1 r.2 n false).1, (bounds T r.1 r.2 n false).2.2)))
      = rs.map fun r => (bounds T r.1 r.2 n m).2.1 := by
    apply List.map_congr_left; intro r _; exact e r
  rw [this] at h
  simpa [lpd] using h

/-- the bound on the total is not decoration: at 2^51.05 the last client no longer ends at the last document -/
theorem bounds_partition_needs_bound : ¬ ∀ T n : Nat, 1 ≤ n → offDocs T n n = T := by
  intro h
  have := h 2326415809436967 525 (by decide)
  revert this
  decide +kernel

example : Cut 0 3 [(0, 0), (1, 2)] := Cut.cons (le_refl _) (by decide) (Cut.cons (by decide) (by decide) (Cut.nil 3))
example : bounds 10 0 0 3 false = (0, 3, 3) ∧ bounds 10 1 2 3 false = (3, 7, 7) := by decide +kernel
example : bounds 1000000000000 1 2 7 true = (285714285714, 285714285714, 571428571428) := by decide +kernel

/-! ## slice_reads_range, bulks_bounded, pairs_preserved -/

/-- a freshly opened `Slice(offset, count)` on a file delivers the lines `[offset, offset+count)` -/
theorem window_open (file : List α) (offset count B : Nat) :
    (⟨file.drop offset, count, 0, B⟩ : Slice α).window = (file.drop offset).take count := by
  simp [Slice.window]

/-- **slice_reads_range**: for every reader built as `create_default_reader` builds it (`Reader.OK`),
    every bulk and batch size and every random oracle, concatenating the file lines of all bulks gives
    exactly the lines of the slice, in order — nothing lost, nothing twice, nothing beyond. -/
theorem slice_reads_range {o : Oracle} (hok : OracleOK o) {bulk batch : Nat} (hbulk : 0 < bulk) (hbatch : 0 < batch)
    {r : Reader α} (hr : r.OK bulk) (c : Cnt) :
    (readerBulks o r.kind batch (r.slice.numberOfLines + 1) ⟨r.slice, r.gen, c, false⟩).1.flatMap (fun b => srcLines b.body)
      = r.slice.window := by
  obtain ⟨h1, _, _, _⟩ := reader_spec hok hbulk hbatch hr c
  rw [List.flatMap_def, h1, chunks_flatten (Reader.OK.bulkSize_pos hbulk hr)]

/-- **bulks_bounded**: no bulk has more than `bulk_size` documents, `bulk-size` is the number of
    documents in the body (`BulkOK`), and the bulks are the slice cut into pieces of `bulk_size`
    documents — every bulk but the last one is full. No IndexError escapes. -/
theorem bulks_bounded {o : Oracle} (hok : OracleOK o) {bulk batch : Nat} (hbulk : 0 < bulk) (hbatch : 0 < batch)
    {r : Reader α} (hr : r.OK bulk) (c : Cnt) :
    (∀ b ∈ (readerBulks o r.kind batch (r.slice.numberOfLines + 1) ⟨r.slice, r.gen, c, false⟩).1,
        b.docs ≤ bulk ∧ BulkOK r.kind bulk b) ∧
      (readerBulks o r.kind batch (r.slice.numberOfLines + 1) ⟨r.slice, r.gen, c, false⟩).1.map (fun b => srcLines b.body)
        = chunks r.slice.bulkSize r.slice.window ∧
      (readerBulks o r.kind batch (r.slice.numberOfLines + 1) ⟨r.slice, r.gen, c, false⟩).2.crashed = false := by
  obtain ⟨h1, h2, h3, _⟩ := reader_spec hok hbulk hbatch hr c
  refine ⟨fun b hb => ⟨?_, h2 b hb⟩, h1, h3⟩
  have := h2 b hb
  unfold BulkOK at this
  cases hk : r.kind <;> rw [hk] at this
  · exact this.2.1
  · exact this.2.1
  · exact this.2.1

/-- **pairs_preserved**, generated action lines: every bulk is `docs` pairs (action line, document line). -/
theorem pairs_preserved_generated {o : Oracle} (hok : OracleOK o) {bulk batch : Nat} (hbulk : 0 < bulk) (hbatch : 0 < batch)
    {r : Reader α} (hr : r.OK bulk) (hk : r.kind ≠ .sourceOnly) (c : Cnt) :
    ∀ b ∈ (readerBulks o r.kind batch (r.slice.numberOfLines + 1) ⟨r.slice, r.gen, c, false⟩).1,
      Paired b.body ∧ b.body.length = 2 * b.docs := by
  intro b hb
  have := (bulks_bounded hok hbulk hbatch hr c).1 b hb
  unfold BulkOK at this
  cases hkk : r.kind with
  | sourceOnly => exact absurd hkk hk
  | fast act =>
    rw [hkk] at this
    obtain ⟨_, h1, _, h3⟩ := this
    rw [h3]
    refine ⟨paired_fast act _, ?_⟩
    rw [h1]
    generalize srcLines b.body = ls
    induction ls with
    | nil => rfl
    | cons a t ih => simp only [List.flatMap_cons, List.length_append, List.length_cons, List.length_nil, ih]; omega
  | regular =>
    rw [hkk] at this
    exact ⟨this.2.2.2.1, this.2.2.2.2⟩

/-- **pairs_preserved**, files with action lines: when the slice starts at an even line of the file every
    bulk consists of `docs` whole (action, document) pairs of the file, starting at a pair boundary. -/
theorem pairs_preserved_source_only {o : Oracle} (hok : OracleOK o) {bulk batch : Nat} (hbulk : 0 < bulk) (hbatch : 0 < batch)
    {r : Reader α} (hr : r.OK bulk) (hk : r.kind = .sourceOnly) (c : Cnt) (file : List α) (a : Nat)
    (hrest : r.slice.rest = file.drop (2 * a)) :
    ∀ b ∈ (readerBulks o r.kind batch (r.slice.numberOfLines + 1) ⟨r.slice, r.gen, c, false⟩).1,
      ∃ j, srcLines b.body = (file.drop (2 * j)).take (2 * b.docs) ∧ b.body = (srcLines b.body).map Item.src := by
  intro b hb
  obtain ⟨h1, h2, _⟩ := bulks_bounded hok hbulk hbatch hr c
  have hB : r.slice.bulkSize = bulk * 2 := by
    unfold Reader.OK at hr; rw [hk] at hr; exact hr.1
  have hbk := (h1 b hb).2
  unfold BulkOK at hbk
  rw [hk] at hbk
  obtain ⟨d1, _, d3⟩ := hbk
  have hmem : srcLines b.body ∈ chunks r.slice.bulkSize r.slice.window := by
    rw [← h2]; exact List.mem_map_of_mem hb
  obtain ⟨i, hi⟩ := chunks_mem_drop_take (Reader.OK.bulkSize_pos hbulk hr) _ _ hmem
  refine ⟨a + i * bulk, ?_, d3⟩
  have e : srcLines b.body = (file.drop (2 * (a + i * bulk))).take (min (bulk * 2) (r.slice.numberOfLines - r.slice.currentLine - i * (bulk * 2))) := by
    rw [hi, Slice.window, hrest, hB, List.drop_take, List.take_take, List.drop_drop]
    congr 2
    ring
  rw [d1, e]
  simp only [List.length_take, List.take_eq_take_iff]
  omega

/-! ## conflicts_only_seen_ids -/

/-- **conflicts_only_seen_ids**: for every draw sequence (every oracle respecting `randint(0,hi) ≤ hi`,
    `expovariate ≥ 0`) the ids a reader with id conflicts emits form an `IdTrace`: fresh ids are
    `ids[0], ids[1], …` each once and in list order, every other emitted id repeats a fresh id emitted
    earlier by the same generator. -/
theorem conflicts_only_seen_ids {o : Oracle} (hok : OracleOK o) {bulk batch : Nat} (hbulk : 0 < bulk) (hbatch : 0 < batch)
    {r : Reader α} (hr : r.OK bulk) (hk : r.kind = .regular) {ids : List Int} (hids : r.gen.ids = some ids) (c : Cnt) :
    ∃ k, IdTrace ids k
      (idsOf ((readerBulks o r.kind batch (r.slice.numberOfLines + 1) ⟨r.slice, r.gen, c, false⟩).1.flatMap (·.body))) :=
  (reader_spec hok hbulk hbatch hr c).2.2.2 ids hids hk

/-- the same, position by position: the id at position `p` was emitted before position `p`, or it is
    the next fresh id `ids[j]` and all of `ids[0..j)` were emitted before -/
theorem conflicts_only_seen_ids_pointwise {o : Oracle} (hok : OracleOK o) {bulk batch : Nat} (hbulk : 0 < bulk)
    (hbatch : 0 < batch) {r : Reader α} (hr : r.OK bulk) (hk : r.kind = .regular) {ids : List Int}
    (hids : r.gen.ids = some ids) (c : Cnt) (E : List Int)
    (hE : E = idsOf ((readerBulks o r.kind batch (r.slice.numberOfLines + 1) ⟨r.slice, r.gen, c, false⟩).1.flatMap (·.body))) :
    ∀ (p : Nat) (hp : p < E.length), E[p] ∈ E.take p ∨ ∃ j, ids[j]? = some E[p] ∧ ∀ x ∈ ids.take j, x ∈ E.take p := by
  obtain ⟨k, hT⟩ := conflicts_only_seen_ids hok hbulk hbatch hr hk hids c
  rw [← hE] at hT
  exact hT.pointwise

/-- ids of different workers never collide: the ids a reader may use are `offset + i`, `i < docs` -/
theorem ids_in_own_range {o : Oracle} (hok : OracleOK o) (c : Conflicts) (docs offset : Int) (k : Nat) {l : List Int}
    (h : buildConflictingIds c docs offset (o.shuffle k) = some l) : ∀ x ∈ l, offset ≤ x ∧ x < offset + docs.toNat := by
  have hseq : ∀ x ∈ (List.range docs.toNat).map (fun (i : Nat) => offset + (i : Int)), offset ≤ x ∧ x < offset + docs.toNat := by
    intro x hx
    obtain ⟨i, hi, rfl⟩ := List.mem_map.mp hx
    have := List.mem_range.mp hi
    omega
  cases c with
  | none => simp [buildConflictingIds] at h
  | sequential =>
    simp only [buildConflictingIds, Option.some.injEq] at h
    subst h; exact hseq
  | random =>
    simp only [buildConflictingIds, Option.some.injEq] at h
    subst h
    intro x hx
    exact hseq x ((hok.shuffle _ _).mem_iff.mp hx)

/-! ## number_of_bulks_eq, ingest_percentage_prefix, worker_cover, race_cover -/

/-- **number_of_bulks_eq**: `number_of_bulks(...)` is the number of bulks the readers of the worker
    really produce (files as declared, `DocSet.WF`). -/
theorem number_of_bulks_eq {o : Oracle} (hok : OracleOK o) (cfg : Cfg) (hbulk : 0 < cfg.bulkSize) (hbatch : 0 < cfg.batchSize)
    {n s e : Nat} (hn : 1 ≤ n) (hs : s ≤ e) (he : e < n) {corpora : List (Corpus α)} (hwf : ∀ d ∈ corpora.flatten, d.WF)
    {c c' : Cnt} {all : List (Bulk α)} (h : workerBulks o cfg corpora n s e c = .ok (all, c')) :
    numberOfBulks corpora s e n cfg.bulkSize = all.length := by
  rw [numberOfBulks_eq hs, (workerBulks_spec hok cfg hbulk hbatch hn hs he hwf h).2.2]

/-- **ingest_percentage_prefix**: non-looped mode, any ingest percentage, **any order `calls` in which the
    co-located clients `clients` ask for their next bulk**: the bulks handed out, in hand-out order, are a
    prefix of the worker's bulk sequence of length ≤ `total_bulks = ceil(fl(fl(all·p)/100))`; as soon as
    one client has seen StopIteration they are exactly the first `total_bulks` bulks; only calling
    clients receive bulks. -/
theorem ingest_percentage_prefix {o : Oracle} {cfg : Cfg} (hl : cfg.looped = false) (hpct : 0 ≤ cfg.pct)
    {n s e : Nat} (hs : s ≤ e) {corpora : List (Corpus α)}
    {clients : List Nat} (hmin : listMin clients = some s) (hmax : listMax clients = some e)
    {all : List (Bulk α)} {c1 : Cnt} (hall : workerBulks o cfg corpora n s e ⟨0, 0, 0, 0⟩ = .ok (all, c1))
    (calls : List Nat) :
    ∃ p0, partitionAll n clients (PState.init : PState α) = .ok p0 ∧
      ∀ out stopped p', runCalls o cfg corpora calls p0 [] = .ok (out, stopped, p') →
        (∃ k, k ≤ (totalBulksOf (numberOfBulks corpora s e n cfg.bulkSize) cfg.pct).toNat ∧ out.map (·.2) = all.take k) ∧
        (stopped ≠ [] → out.map (·.2) = all.take (totalBulksOf (numberOfBulks corpora s e n cfg.bulkSize) cfg.pct).toNat) ∧
        (∀ c ∈ out.map (·.1), c ∈ calls) := by
  have hne : clients ≠ [] := by intro h; rw [h] at hmin; simp [listMin] at hmin
  obtain ⟨p0, hp0, hparts, hcb, hcnt, htb, htp⟩ := partitionAll_spec n clients (PState.init : PState α) (Or.inl rfl)
  refine ⟨p0, hp0, ?_⟩
  intro out stopped p' hrun
  have hnb : 0 ≤ numberOfBulks corpora s e n cfg.bulkSize := by
    rw [numberOfBulks_eq hs]; exact Int.natCast_nonneg _
  have hT := totalBulksOf_nonneg hnb hpct
  set T := totalBulksOf (numberOfBulks corpora s e n cfg.bulkSize) cfg.pct with hTdef
  have hinv0 : PInv n s e all ⟨0, 0, 0, 0⟩ T p0 [] [] := by
    refine ⟨htp hne, ?_, ?_, Or.inl ⟨hcb, rfl, fun _ => ⟨hcnt, rfl, by rw [htb]; simp [PState.init]⟩⟩⟩
    · rw [hparts]; simpa [PState.init] using hmin
    · rw [hparts]; simpa [PState.init] using hmax
  obtain ⟨⟨_, _, _, hfin⟩, hcl⟩ := runCalls_spec hl hall hT calls p0 [] [] out stopped p' hinv0 hrun
  simp only [List.nil_append] at hfin
  refine ⟨?_, ?_, hcl⟩
  · rcases hfin with ⟨_, hE, _⟩ | ⟨_, _, _, hE, hle, _⟩
    · exact ⟨0, by omega, by rw [hE]; rfl⟩
    · exact ⟨p'.currentBulk, by omega, hE⟩
  · intro hst
    rcases hfin with ⟨_, hE, hpos⟩ | ⟨_, _, _, hE, hle, hstop⟩
    · have : ¬ 0 < T := fun h => hst (hpos h).2.1
      have : T.toNat = 0 := by omega
      rw [hE, this]; rfl
    · rcases hstop hst with h | h
      · rw [hE, List.take_of_length_le h, List.take_of_length_le (by omega)]
      · rw [hE]; congr 1; omega

/-! ### a group without any bulk (more clients than documents)

`ScheduleHandle.__call__` evaluates `params.percent_completed` before every `params()`.  Before fix b9aff71 this was
`current_bulk / total_bulks`: once the first co-located client had initialised a group whose share of the corpus is
empty, `total_bulks` was 0 and the next co-located client failed with ZeroDivisionError, aborting the race on valid
input (`group_fails_pinned`, regression case corpus/C03/files-empty-share-group-two-clients.json).  Since the fix
`percent_completed` of such a group is 1.0 and the full statement holds. -/

/-- **group_never_fails**: the co-located clients of a group run to the end for every call order — also when
    the group's share of the corpus is empty (`total_bulks = 0`: every client just gets StopIteration). -/
theorem group_never_fails {o : Oracle} {cfg : Cfg} (hl : cfg.looped = false) (hpct : 0 < cfg.pct) (hbulk : 0 < cfg.bulkSize)
    {n s e : Nat} (hs : s ≤ e) {corpora : List (Corpus α)}
    {clients : List Nat} (hmin : listMin clients = some s) (hmax : listMax clients = some e)
    {all : List (Bulk α)} {c1 : Cnt} (hall : workerBulks o cfg corpora n s e ⟨0, 0, 0, 0⟩ = .ok (all, c1))
    (calls : List Nat) :
    ∃ p0, partitionAll n clients (PState.init : PState α) = .ok p0 ∧ ∃ r, runCalls o cfg corpora calls p0 [] = .ok r := by
  have hne : clients ≠ [] := by intro h; rw [h] at hmin; simp [listMin] at hmin
  obtain ⟨p0, hp0, hparts, hcb, hcnt, htb, htp⟩ := partitionAll_spec n clients (PState.init : PState α) (Or.inl rfl)
  refine ⟨p0, hp0, ?_⟩
  have hmin' : listMin p0.partitions = some s := by rw [hparts]; simpa [PState.init] using hmin
  have hmax' : listMax p0.partitions = some e := by rw [hparts]; simpa [PState.init] using hmax
  have hnb : 0 ≤ numberOfBulks corpora s e n cfg.bulkSize := by
    rw [numberOfBulks_eq hs]; exact Int.natCast_nonneg _
  have hT0 := totalBulksOf_nonneg hnb (le_of_lt hpct)
  by_cases hT : 0 < totalBulksOf (numberOfBulks corpora s e n cfg.bulkSize) cfg.pct
  · apply runCalls_ok hl hall hT calls p0 [] []
    exact ⟨htp hne, hmin', hmax', Or.inl ⟨hcb, rfl, fun _ => ⟨hcnt, rfl, by rw [htb]; simp [PState.init]⟩⟩⟩
  · have hTz : totalBulksOf (numberOfBulks corpora s e n cfg.bulkSize) cfg.pct = 0 := by omega
    have hz : numberOfBulks corpora s e n cfg.bulkSize = 0 := by
      have := hTz
      rw [numberOfBulks_eq hs] at this ⊢
      have := totalBulksOf_eq_zero hpct this
      exact_mod_cast this
    exact runCalls_ok_zero hl (corpora_ne_of_workerBulks_ok hall) (no_share_of_numberOfBulks_zero hs hbulk hz) hTz
      calls p0 [] (htp hne) hmin' hmax' hcb

/-- historical (code before b9aff71, `runCallsPinned`): one document, four clients, clients 0 and 1 on one
    worker (their share is empty): client 0 got StopIteration, client 1 got ZeroDivisionError — while the
    repaired code lets both stop -/
theorem group_fails_pinned :
    (match partitionAll 4 [0, 1] (PState.init : PState Nat) with
      | .ok p0 => ((runCallsPinned ⟨fun _ => 0, fun _ _ => 0, fun _ => 0, fun _ l => l⟩
            ⟨1, 1, .none, none, false, none, 100, false⟩ [[⟨[0], 1, false, false⟩]] [0, 1] p0 []).toBool,
          (runCalls ⟨fun _ => 0, fun _ _ => 0, fun _ => 0, fun _ l => l⟩
            ⟨1, 1, .none, none, false, none, 100, false⟩ [[⟨[0], 1, false, false⟩]] [0, 1] p0 []).toBool)
      | .error _ => (true, false)) = (false, true) := by
  decide +kernel

/-- `total_bulks` versus the exact ceiling of the property text: full ingestion is exact
    (`ceil(all·100.0/100) = all` in doubles); for any percentage the float value is within one of
    `⌈all·p/100⌉` — the roundings of `all·p` and `/100` may cross an integer, never more. -/
theorem total_bulks_vs_exact_ceiling {all : Nat} :
    (all * 100 < 2^53 → totalBulksOf (all : Int) 100 = all) ∧
      ∀ pct : Rat, all ≤ 2^50 → 0 ≤ pct → pct ≤ 100 →
        |totalBulksOf (all : Int) pct - ((all : Rat) * pct / 100).ceil| ≤ 1 :=
  ⟨totalBulksOf_full, fun _ ha h0 h1 => totalBulksOf_close ha h0 h1⟩

/-- … and "within one" cannot be improved to "equal": 276 bulks at p = 11.956521739130435 % (the double
    nearest to 100·33/276): the exact product is a hair above 33, the double product is 33.0 -/
example : totalBulksOf 276 (6730923356124383 / 562949953421312) = 33 ∧
    ((276 : Rat) * (6730923356124383 / 562949953421312) / 100).ceil = 34 := by decide +kernel

/-- **worker_cover**: full ingestion (`ingest-percentage = 100`), files as declared, any random oracle,
    **every order of `params()` calls**: once a client of the worker has seen StopIteration, the bulks
    handed out to the worker's clients contain exactly the worker's shares of all document sets — each
    share (a contiguous range of its file) read completely and in file order, the shares in some order —
    and every bulk is well-formed and within the bulk size. -/
theorem worker_cover {o : Oracle} (hok : OracleOK o) {cfg : Cfg} (hl : cfg.looped = false) (hpct : cfg.pct = 100)
    (hbulk : 0 < cfg.bulkSize) (hbatch : 0 < cfg.batchSize)
    {n s e : Nat} (hn : 1 ≤ n) (hs : s ≤ e) (he : e < n) {corpora : List (Corpus α)} (hwf : ∀ d ∈ corpora.flatten, d.WF)
    {clients : List Nat} (hmin : listMin clients = some s) (hmax : listMax clients = some e)
    {all : List (Bulk α)} {c1 : Cnt} (hall : workerBulks o cfg corpora n s e ⟨0, 0, 0, 0⟩ = .ok (all, c1))
    (hsmall : all.length * 100 < 2^53) (calls : List Nat) :
    ∃ p0, partitionAll n clients (PState.init : PState α) = .ok p0 ∧
      ∀ out stopped p', runCalls o cfg corpora calls p0 [] = .ok (out, stopped, p') → stopped ≠ [] →
        (∃ ws : List (List α), ws.Perm ((corpora.flatten.filter (hasShare n s e)).map (sliceOf n s e)) ∧
          (out.map (·.2)).flatMap (fun b => srcLines b.body) = ws.flatten) ∧
        (∀ b ∈ out.map (·.2), b.docs ≤ cfg.bulkSize ∧ ∃ k, BulkOK k cfg.bulkSize b) := by
  obtain ⟨p0, hp0, hrun⟩ := ingest_percentage_prefix (n := n) hl (by rw [hpct]; norm_num) hs hmin hmax hall calls
  refine ⟨p0, hp0, ?_⟩
  intro out stopped p' h hst
  obtain ⟨_, h2, _⟩ := hrun out stopped p' h
  have hnb := number_of_bulks_eq hok cfg hbulk hbatch hn hs he hwf hall
  have hT : totalBulksOf (numberOfBulks corpora s e n cfg.bulkSize) cfg.pct = all.length := by
    rw [hnb, hpct]; exact totalBulksOf_full hsmall
  have hout : out.map (·.2) = all := by
    rw [h2 hst, hT, Int.toNat_natCast, List.take_length]
  obtain ⟨w1, w2, _⟩ := workerBulks_spec hok cfg hbulk hbatch hn hs he hwf hall
  rw [hout]
  refine ⟨w1, fun b hb => ?_⟩
  obtain ⟨k, hk⟩ := w2 b hb
  refine ⟨?_, k, hk⟩
  unfold BulkOK at hk
  cases k <;> exact hk.2.1

/-- **race_cover**: all workers of a race together. For every cutting of the clients `0..n-1` into
    consecutive worker ranges, every oracle and every call order per worker: if every worker runs to the
    end (some client of it has seen StopIteration) then the file lines of all bulks of all workers are a
    permutation of all lines of all corpus files — every document exactly once. -/
theorem race_cover {cfg : Cfg} (hl : cfg.looped = false) (hpct : cfg.pct = 100)
    (hbulk : 0 < cfg.bulkSize) (hbatch : 0 < cfg.batchSize) {n : Nat} (hn : 1 ≤ n)
    {corpora : List (Corpus α)} (hwf : ∀ d ∈ corpora.flatten, d.WF) {ranges : List (Nat × Nat)} (hcut : Cut 0 n ranges)
    (O : Nat × Nat → Oracle) (clients calls stopped : Nat × Nat → List Nat) (p0 p' : Nat × Nat → PState α)
    (out : Nat × Nat → List (Nat × Bulk α)) (all : Nat × Nat → List (Bulk α)) (c1 : Nat × Nat → Cnt)
    (hw : ∀ r ∈ ranges, OracleOK (O r) ∧ listMin (clients r) = some r.1 ∧ listMax (clients r) = some r.2 ∧
      workerBulks (O r) cfg corpora n r.1 r.2 ⟨0, 0, 0, 0⟩ = .ok (all r, c1 r) ∧ (all r).length * 100 < 2^53 ∧
      partitionAll n (clients r) (PState.init : PState α) = .ok (p0 r) ∧
      runCalls (O r) cfg corpora (calls r) (p0 r) [] = .ok (out r, stopped r, p' r) ∧ stopped r ≠ []) :
    (ranges.flatMap fun r => ((out r).map (·.2)).flatMap fun b => srcLines b.body).Perm
      (corpora.flatten.flatMap (·.lines)) := by
  apply race_cover_of_workers hn hwf hcut
  intro r hr
  obtain ⟨hok, hmin, hmax, hall, hsmall, hp0, hrun, hst⟩ := hw r hr
  obtain ⟨hs, he⟩ := hcut.ranges_ok r hr
  obtain ⟨q0, hq0, hq⟩ := worker_cover hok hl hpct hbulk hbatch hn hs he hwf hmin hmax hall hsmall (calls r)
  rw [hp0] at hq0
  cases hq0
  obtain ⟨⟨ws, hws, hlines⟩, _⟩ := hq (out r) (stopped r) (p' r) hrun hst
  rw [hlines]
  exact List.Perm.flatten hws

/-! ## the caller: `schedule_for` on the allocator's `TaskAllocation`s (tasks inside `parallel` elements) -/

/-- what the allocator (model `Alloc`, C02) hands to `schedule_for` for logical client `c` of a schedule
    element: the task `s`, `client_index_in_task < s.clients`, and as `total_clients` the client count of the
    *enclosing element* — which differs from `s.clients` whenever the task shares a `parallel` with others. -/
theorem alloc_entry_total_is_element (e : Alloc.Element) (c : Nat) (hc : c < e.total) :
    ∃ s i, Alloc.taskEntry e c = Alloc.Entry.task s i c e.clients ∧ s ∈ e.tasks ∧ i < s.clients :=
  taskEntry_spec e c hc

/-- parallel[bulk(3 clients), other(1 client)]: `total_clients` = 4, the bulk task has 3 clients -/
example : Alloc.taskEntry ⟨none, [⟨0, 3, false, false⟩, ⟨1, 1, false, false⟩]⟩ 2 = .task ⟨0, 3, false, false⟩ 2 2 4 := by
  decide

/-- **schedule_for_uses_task_clients**: for the co-located task allocations of a task with `c` clients —
    whatever `total_clients` they carry — `schedule_for` registers the partitions
    `(client_index_in_task, c)` on the shared source. -/
theorem schedule_for_uses_task_clients (c : Nat) (es : List Alloc.Entry) (p : PState α) (h : ∀ en ∈ es, IsAllocOf c en) :
    partitionEntries es p = partitionAll c (es.filterMap entryIdx) p :=
  partitionEntries_eq c es p h

/-- **race_cover_schedule**: a bulk task with `c` clients anywhere in a schedule (alone, or inside a
    `parallel` element next to other tasks, any `total_clients`): if the groups of co-located task
    allocations (one shared source per group, registered through `schedule_for`) have client indices that
    cut `0..c-1` into consecutive ranges, then for every oracle and every order of `params()` calls per
    group all groups together deliver every line of every corpus file exactly once. -/
theorem race_cover_schedule {cfg : Cfg} (hl : cfg.looped = false) (hpct : cfg.pct = 100)
    (hbulk : 0 < cfg.bulkSize) (hbatch : 0 < cfg.batchSize) {c : Nat} (hc : 1 ≤ c)
    {corpora : List (Corpus α)} (hwf : ∀ d ∈ corpora.flatten, d.WF) {ranges : List (Nat × Nat)} (hcut : Cut 0 c ranges)
    (O : Nat × Nat → Oracle) (entries : Nat × Nat → List Alloc.Entry) (calls stopped : Nat × Nat → List Nat)
    (p0 p' : Nat × Nat → PState α) (out : Nat × Nat → List (Nat × Bulk α)) (all : Nat × Nat → List (Bulk α))
    (c1 : Nat × Nat → Cnt)
    (hw : ∀ r ∈ ranges, OracleOK (O r) ∧ (∀ en ∈ entries r, IsAllocOf c en) ∧
      listMin ((entries r).filterMap entryIdx) = some r.1 ∧ listMax ((entries r).filterMap entryIdx) = some r.2 ∧
      workerBulks (O r) cfg corpora c r.1 r.2 ⟨0, 0, 0, 0⟩ = .ok (all r, c1 r) ∧ (all r).length * 100 < 2^53 ∧
      partitionEntries (entries r) (PState.init : PState α) = .ok (p0 r) ∧
      runCalls (O r) cfg corpora (calls r) (p0 r) [] = .ok (out r, stopped r, p' r) ∧ stopped r ≠ []) :
    (ranges.flatMap fun r => ((out r).map (·.2)).flatMap fun b => srcLines b.body).Perm
      (corpora.flatten.flatMap (·.lines)) := by
  apply race_cover hl hpct hbulk hbatch hc hwf hcut O (fun r => (entries r).filterMap entryIdx) calls stopped p0 p' out all c1
  intro r hr
  obtain ⟨h1, h2, h3, h4, h5, h6, h7, h8, h9⟩ := hw r hr
  rw [partitionEntries_eq c _ _ h2] at h7
  exact ⟨h1, h3, h4, h5, h6, h7, h8, h9⟩

/-! ### which parameter source a (worker, column, task) uses -/

/-- what is assumed about one column: its allocations belong to the task (`c` clients), their client indices span
    the range `r`, and the bulk generator of that range can be built -/
def ColOK (o : Oracle) (cfg : Cfg) (corpora : List (Corpus α)) (c : Nat) (col : List Alloc.Entry × List Nat) (r : Nat × Nat) : Prop :=
  (∀ en ∈ col.1, IsAllocOf c en) ∧ listMin (col.1.filterMap entryIdx) = some r.1 ∧ listMax (col.1.filterMap entryIdx) = some r.2 ∧
    ∃ all c1, workerBulks o cfg corpora c r.1 r.2 ⟨0, 0, 0, 0⟩ = .ok (all, c1) ∧ all.length * 100 < 2^53

/-- **race_cover_columns**: `Worker.drive` runs the columns of a worker's allocation one after the other, each with a
    new parameter source per task (`runColumns`).  `cols` = all columns of all workers that contain allocations of a bulk
    task with `c` clients (e.g. a capped `parallel` element spreads one task over several columns of the same worker), in
    any order.  If their client-index ranges, in some order, cut `0..c-1` into consecutive ranges and every column runs to
    the end, then — for every call order inside every column — the file lines of all bulks of all columns are a permutation
    of all lines of all corpus files: every document exactly once. -/
theorem race_cover_columns {o : Oracle} (hok : OracleOK o) {cfg : Cfg} (hl : cfg.looped = false) (hpct : cfg.pct = 100)
    (hbulk : 0 < cfg.bulkSize) (hbatch : 0 < cfg.batchSize) {c : Nat} (hc : 1 ≤ c)
    {corpora : List (Corpus α)} (hwf : ∀ d ∈ corpora.flatten, d.WF)
    {cols : List (List Alloc.Entry × List Nat)} {outs : List (List (Nat × Bulk α) × List Nat)}
    (hrun : runColumns o cfg corpora cols = .ok outs) (hstop : ∀ res ∈ outs, res.2 ≠ [])
    {ranges' ranges : List (Nat × Nat)} (hcols : List.Forall₂ (ColOK o cfg corpora c) cols ranges')
    (hperm : ranges'.Perm ranges) (hcut : Cut 0 c ranges) :
    (outs.flatMap linesOfRun).Perm (corpora.flatten.flatMap (·.lines)) := by
  have hr' : ∀ r ∈ ranges', r.1 ≤ r.2 ∧ r.2 < c := fun r hr => hcut.ranges_ok r (hperm.mem_iff.mp hr)
  have hfresh := runColumns_fresh cols outs hrun
  -- column by column: the lines handed out are the shares of the column's range
  have key : ∀ (cols : List (List Alloc.Entry × List Nat)) (outs : List (List (Nat × Bulk α) × List Nat)) (rs : List (Nat × Nat)),
      List.Forall₂ (fun col res => ∃ p0 p', partitionEntries col.1 (PState.init : PState α) = .ok p0 ∧
        runCalls o cfg corpora col.2 p0 [] = .ok (res.1, res.2, p')) cols outs →
      List.Forall₂ (ColOK o cfg corpora c) cols rs → (∀ res ∈ outs, res.2 ≠ []) → (∀ r ∈ rs, r.1 ≤ r.2 ∧ r.2 < c) →
      (outs.flatMap linesOfRun).Perm (rs.flatMap (shareLines c corpora)) := by
    intro cols
    induction cols with
    | nil =>
      intro outs rs h1 h2 _ _
      cases h1; cases h2; exact List.Perm.refl _
    | cons col rest ih =>
      intro outs rs h1 h2 hst hrs
      cases h1 with
      | cons hhead htail =>
        cases h2 with
        | cons chead ctail =>
          rename_i res outs' r rs'
          obtain ⟨p0, p', hp0, hrc⟩ := hhead
          obtain ⟨hal, hmin, hmax, all, c1, hall, hsmall⟩ := chead
          obtain ⟨hs, he⟩ := hrs r (List.mem_cons_self ..)
          rw [partitionEntries_eq c _ _ hal] at hp0
          obtain ⟨q0, hq0, hq⟩ := worker_cover hok hl hpct hbulk hbatch hc hs he hwf hmin hmax hall hsmall col.2
          rw [hp0] at hq0
          cases hq0
          obtain ⟨⟨ws, hws, hlines⟩, _⟩ := hq res.1 res.2 p' hrc (hst res (List.mem_cons_self ..))
          simp only [List.flatMap_cons]
          refine List.Perm.append ?_ (ih outs' rs' htail ctail (fun x hx => hst x (List.mem_cons_of_mem _ hx))
            (fun x hx => hrs x (List.mem_cons_of_mem _ hx)))
          show (linesOfRun res).Perm (shareLines c corpora r)
          unfold linesOfRun shareLines
          rw [hlines]
          exact List.Perm.flatten hws
  refine (key cols outs ranges' hfresh hcols hstop hr').trans ((hperm.flatMap_right _).trans ?_)
  exact race_cover_of_workers hc hwf hcut (shareLines c corpora) (fun r _ => List.Perm.refl _)

/-- … and the per-column rule matters: one worker, clients 0,1 of a capped `parallel(clients = 2)[bulk(4 clients)]`,
    8 documents, bulk size 1.  Column 1 holds the task's client indices 0,1, column 2 the indices 2,3.  With a new source
    per column (the code) the worker sends the documents 0..7; if the source of column 1 were kept for column 2 (late
    `partition()` on an exhausted source: `current_bulk = total_bulks`) column 2 would send nothing. -/
theorem shared_source_loses_documents :
    let o : Oracle := ⟨fun _ => 0, fun _ _ => 0, fun _ => 0, fun _ l => l⟩
    let cfg : Cfg := ⟨1, 1, .none, none, false, none, 100, false⟩
    let corpora : List (Corpus Nat) := [[⟨[0, 1, 2, 3, 4, 5, 6, 7], 8, false, false⟩]]
    let t : Alloc.Sub := ⟨0, 4, false, false⟩
    let cols : List (List Alloc.Entry × List Nat) :=
      [([.task t 0 0 2, .task t 1 1 2], [0, 1, 0, 1, 0, 1]), ([.task t 2 2 2, .task t 3 3 2], [2, 3, 2, 3, 2, 3])]
    (match runColumns o cfg corpora cols with
      | .ok outs => outs.flatMap linesOfRun
      | .error _ => []) = [0, 1, 2, 3, 4, 5, 6, 7] ∧
    (match runColumnsShared o cfg corpora cols PState.init with
      | .ok outs => outs.flatMap linesOfRun
      | .error _ => []) = [0, 1, 2, 3] := by
  decide +kernel

/-! ### the key of the parameter-source dict: the task, not the operation it references -/

/-- what task `t` does depends on its own allocations only: other tasks in the same columns — also tasks built
    from the same named operation — can be removed without changing anything -/
theorem other_tasks_do_not_matter (o : Oracle) (cfg : Cfg) (corpora : List (Corpus α)) (t : Nat)
    (cols : List (List Alloc.Entry × (Nat → List Nat))) :
    runTaskColumns o cfg corpora t cols
      = runTaskColumns o cfg corpora t (cols.map fun col => (entriesOfTask t col.1, col.2)) := by
  unfold runTaskColumns
  congr 1
  rw [List.map_map]
  apply List.map_congr_left
  intro col _
  simp only [Function.comp, entriesOfTask, List.filter_filter, Bool.and_self]

/-- **race_cover_per_task**: every leaf task is ingested exactly once on its own.  `cols` = the columns of all workers with
    ALL their allocations (several tasks of a `parallel` element may reference one and the same bulk operation, with equal
    or different client counts).  `AsyncIoAdapter.run` keys the sources by task (`runTaskColumns`), so if the client-index
    ranges of task `t`'s own allocations cut `0..c-1` and its columns run to the end, the bulks handed out to the clients
    of task `t` contain every line of every corpus file exactly once — whatever the other tasks do. -/
theorem race_cover_per_task {o : Oracle} (hok : OracleOK o) {cfg : Cfg} (hl : cfg.looped = false) (hpct : cfg.pct = 100)
    (hbulk : 0 < cfg.bulkSize) (hbatch : 0 < cfg.batchSize) {c : Nat} (hc : 1 ≤ c)
    {corpora : List (Corpus α)} (hwf : ∀ d ∈ corpora.flatten, d.WF) (t : Nat)
    {cols : List (List Alloc.Entry × (Nat → List Nat))} {outs : List (List (Nat × Bulk α) × List Nat)}
    (hrun : runTaskColumns o cfg corpora t cols = .ok outs) (hstop : ∀ res ∈ outs, res.2 ≠ [])
    {ranges' ranges : List (Nat × Nat)}
    (hcols : List.Forall₂ (ColOK o cfg corpora c) (cols.map fun col => (entriesOfTask t col.1, col.2 t)) ranges')
    (hperm : ranges'.Perm ranges) (hcut : Cut 0 c ranges) :
    (outs.flatMap linesOfRun).Perm (corpora.flatten.flatMap (·.lines)) :=
  race_cover_columns hok hl hpct hbulk hbatch hc hwf hrun hstop hcols hperm hcut

/-- … and the key matters: `parallel[A(2 clients), B(2 clients)]`, both tasks built from ONE bulk operation, one
    worker, one column, 8 documents, bulk size 1, the four clients asking in turn.  Keyed by task (the code) task A
    sends the documents 0..7 (and so does B).  Keyed by operation the four allocations would share one live source
    (partitions 0,1,0,1 of 2): A's clients would pull 0,1,4,5 and B's 2,3,6,7 — each task misses half of the corpus. -/
theorem shared_operation_source_splits_corpus :
    let o : Oracle := ⟨fun _ => 0, fun _ _ => 0, fun _ => 0, fun _ l => l⟩
    let cfg : Cfg := ⟨1, 1, .none, none, false, none, 100, false⟩
    let corpora : List (Corpus Nat) := [[⟨[0, 1, 2, 3, 4, 5, 6, 7], 8, false, false⟩]]
    let a : Alloc.Sub := ⟨0, 2, false, false⟩
    let b : Alloc.Sub := ⟨1, 2, false, false⟩
    let column : List Alloc.Entry := [.task a 0 0 4, .task a 1 1 4, .task b 0 2 4, .task b 1 3 4]
    (match runTaskColumns o cfg corpora 0 [(column, fun _ => [0, 1, 0, 1, 0, 1, 0, 1, 0, 1])] with
      | .ok outs => outs.flatMap linesOfRun
      | .error _ => []) = [0, 1, 2, 3, 4, 5, 6, 7] ∧
    (match runColumnByOperation o cfg corpora column [0, 1, 2, 3, 0, 1, 2, 3, 0, 1, 2, 3] with
      | .ok (out, _) => (out.filter fun cb => cb.1 < 2).flatMap fun cb => srcLines cb.2.body
      | .error _ => []) = [0, 1, 4, 5] := by
  decide +kernel

/-- `number_of_bulks` counts the bulks of the *group* (one contiguous slice per file), not the sum of
    per-client ceilings: 40 documents, 8 clients, bulk size 4, clients 0..3 on one worker → 5 bulks, while the
    clients one by one would need 2 + 2 + 2 + 2 = 8. -/
theorem number_of_bulks_is_per_group :
    numberOfBulks [[(⟨[], 40, false, false⟩ : DocSet Nat)]] 0 3 8 4 = 5 ∧
      ((List.range 4).map fun i => numberOfBulks [[(⟨[], 40, false, false⟩ : DocSet Nat)]] i i 8 4).sum = 8 := by
  decide +kernel

/-- for an integral ingest percentage `p` (and `all·p < 2^53`) `total_bulks` is the exact ceiling
    `⌈all·p/100⌉` of the property text: multiplying first is exact, the one division is correctly rounded and
    cannot cross an integer. -/
theorem total_bulks_integral_percentage {all p : Nat} (hp : 1 ≤ p) (h : all * p < 2^53) :
    totalBulksOf (all : Int) (p : Rat) = (((all * p : Nat) : Rat) / 100).ceil :=
  totalBulksOf_integral hp h

/-- 100 bulks at 7 %: exactly 7 (hoisting `p/100` would give 8) -/
example : totalBulksOf 100 7 = 7 ∧ Dbl.fceil (Dbl.fmul (Dbl.ofInt 100) (Dbl.fdiv 7 100)) = 8 := by decide +kernel

/-! ## skip_with_table_eq_linear -/

/-- **skip_with_table_eq_linear**: for every file, every target line and every table spacing (the code
    uses 50 000), seeking through the offset table written by `prepare_file_offset_table` and skipping
    the remaining lines leaves the source at the same byte as skipping line by line — namely at the
    start of line `n` (`lineOff`), from where `readlines` delivers the lines `n, n+1, …` of the file. -/
theorem skip_with_table_eq_linear (every : Nat) (bs : List Byte) (n : Nat) :
    skipLines (some (prepareOffsetTable every bs).1) bs n = skipLines none bs n ∧
      (skipLines none bs n).pos = lineOff bs n ∧
      ∀ k, ((skipLines none bs n).readlines k).1 = ((splitLines bs).drop n).take k := by
  refine ⟨skipLines_table_eq every bs n, (skipLines_lands bs n).1, fun k => ?_⟩
  rw [readlines_spec, (skipLines_lands bs n).2.2]

/-- `prepare_file_offset_table` returns the number of lines of the file -/
theorem prepare_counts_lines (every : Nat) (bs : List Byte) : (prepareOffsetTable every bs).2 = (splitLines bs).length := by
  unfold prepareOffsetTable
  have : ∀ (ls : List (List Byte)) (a b : Nat), (tableLoop every ls a b).2 = a + ls.length := by
    intro ls
    induction ls with
    | nil => intro a b; simp [tableLoop]
    | cons l ls ih =>
      intro a b
      simp only [tableLoop, List.length_cons]
      split_ifs <;> rw [ih] <;> omega
  rw [this]; simp

/-! ## the hypotheses are satisfiable (non-vacuity) -/

/-- an oracle that respects the contracts -/
def o0 : Oracle := ⟨fun _ => 0, fun _ _ => 0, fun _ => 0, fun _ l => l⟩

example : OracleOK o0 := ⟨fun _ _ => Nat.zero_le _, fun _ => le_refl _, fun _ l => List.Perm.refl l⟩

/-- two corpora, three files (one with action lines), as declared -/
def corpora0 : List (Corpus Nat) :=
  [[⟨[0, 1, 2, 3, 4, 5, 6], 7, false, false⟩, ⟨[10, 11, 12, 13, 14, 15], 3, true, false⟩], [⟨[20, 21, 22, 23, 24], 5, false, false⟩]]

example : ∀ d ∈ corpora0.flatten, d.WF := by
  intro d hd
  simp only [corpora0, List.flatten_cons, List.flatten_nil, List.cons_append, List.nil_append, List.append_nil,
    List.mem_cons, List.not_mem_nil, or_false] at hd
  rcases hd with rfl | rfl | rfl <;> exact ⟨by norm_num, by decide⟩

def cfg0 : Cfg := ⟨4, 2, .sequential, some 100, true, some 0, 100, false⟩
def cfgMeta : Cfg := ⟨4, 2, .none, none, false, none, 100, false⟩

/-- clients 1,2 of 3 on one worker, source-only and generated readers, 2 documents per bulk: the file
    lines of the worker's bulks, bulk by bulk -/
example : (match workerBulks o0 cfgMeta corpora0 3 1 2 ⟨0, 0, 0, 0⟩ with
    | .ok (bs, _) => bs.map fun b => (b.docs, srcLines b.body)
    | .error _ => []) = [(2, [22, 23]), (1, [24]), (2, [2, 3]), (2, [4, 5]), (1, [6]), (2, [12, 13, 14, 15])] := by
  decide +kernel

/-- with id conflicts (probability 100 %, update): every second document repeats the id emitted before -/
example : (match workerBulks o0 cfg0 [[⟨[0, 1, 2, 3, 4, 5, 6], 7, false, false⟩]] 1 0 0 ⟨0, 0, 0, 0⟩ with
    | .ok (bs, _) => bs.map fun b => idsOf b.body
    | .error _ => []) = [[0, 0], [0, 0], [0, 0], [0]] := by
  decide +kernel

/-- two clients on one worker asking in the order 1,0,0,1,0,1,1,0,0,1,1,0: who gets which bulk, who stops
    (the second call of client 1 after its StopIteration does not exist in the real system and is skipped) -/
example : (match partitionAll 2 [1, 0] (PState.init : PState Nat) with
    | .ok p0 => (match runCalls o0 cfgMeta corpora0 [1, 0, 0, 1, 0, 1, 1, 0, 0, 1, 1, 0] p0 [] with
      | .ok (out, stopped, _) => (out.map fun cb => (cb.1, srcLines cb.2.body), stopped)
      | .error _ => ([], []))
    | .error _ => ([], [])) =
    ([(1, [0, 1]), (0, [2, 3]), (0, [4, 5]), (1, [6]), (0, [20, 21]), (1, [22, 23]), (1, [24]), (0, [10, 11, 12, 13]), (0, [14, 15])],
     [0, 1]) := by
  decide +kernel

/-- the three reader kinds as `create_default_reader` builds them satisfy `Reader.OK` -/
example : (⟨.fast .index, ⟨[1, 2, 3, 4, 5].drop 1, 3, 0, 2⟩, mkGen none none false none false⟩ : Reader Nat).OK 2 := by
  simp [Reader.OK]
example : (⟨.sourceOnly, ⟨[1, 2, 3, 4, 5, 6].drop 2, 4, 0, 4⟩, mkGen none none false none false⟩ : Reader Nat).OK 2 := by
  simp [Reader.OK, Slice.window]
example : (⟨.regular, ⟨[1, 2, 3, 4, 5].drop 1, 3, 0, 2⟩, mkGen (some [1, 2, 3]) (some 25) true (some 0) false⟩ : Reader Nat).OK 2 :=
  ⟨rfl, [1, 2, 3], rfl, rfl, by simp [Slice.window], by norm_num⟩

/-- race of 3 clients on two workers (client 0 | clients 1,2): the file lines of all bulks of both workers —
    a permutation of all 18 lines of the three files -/
example : ([(0, 0), (1, 2)].flatMap fun (r : Nat × Nat) =>
      match workerBulks o0 cfgMeta corpora0 3 r.1 r.2 ⟨0, 0, 0, 0⟩ with
      | .ok (bs, _) => bs.flatMap (fun (b : Bulk.Bulk Nat) => srcLines b.body)
      | .error _ => []) = [0, 1, 20, 21, 10, 11, 22, 23, 24, 2, 3, 4, 5, 6, 12, 13, 14, 15] := by
  decide +kernel

/-- a file of 5 short lines (the last one unterminated): table every 2 lines, skipping 3 lines -/
example : prepareOffsetTable 2 [97, 10, 98, 99, 10, 10, 100, 10, 101] = ([(2, 5), (4, 8)], 5) ∧
    (skipLines (some [(2, 5), (4, 8)]) [97, 10, 98, 99, 10, 10, 100, 10, 101] 3).pos = 6 ∧
    ((skipLines none [97, 10, 98, 99, 10, 10, 100, 10, 101] 3).readlines 5).1 = [[100, 10], [101]] := by
  decide +kernel

/-! ## the track specification: corpus-level defaults and document-level settings (`_create_corpora`) -/

/-- **spec_most_specific_wins**: whatever `_create_corpora` makes of a document set, the set keeps its file and its
    document count, and it is read with action-and-meta-data lines exactly when the MOST SPECIFIC declaration says so:
    the document set's own "includes-action-and-meta-data" when the key is there (also an explicit `false` under a
    corpus that says `true`), else the corpus-level one, else not. -/
theorem spec_most_specific_wins (indices streams : List Nat) (c : CorpusSpec α) (d : DocSpec α) (x : DocSet α)
    (h : resolveDoc indices streams c d = some x) :
    x.lines = d.lines ∧ x.numDocs = d.numDocs ∧
      x.withMeta = (match d.withMeta with
                    | some b => b
                    | none => match c.withMeta with
                      | some b => b
                      | none => false) := by
  obtain ⟨h1, h2, h3⟩ := resolveDoc_spec h
  refine ⟨h1, h2, ?_⟩
  rw [h3]
  unfold DocSpec.declared rDefault
  cases d.withMeta <;> cases c.withMeta <;> rfl

/-- an explicit `false` on the document set overrides a corpus that says `true` (and the other way round) -/
example : resolveDoc [7] [] ⟨some true, none, none, []⟩ (⟨[10, 11, 12], 3, some false, none, none⟩ : DocSpec Nat)
    = some ⟨[10, 11, 12], 3, false, false⟩ := rfl
example : resolveDoc [7] [] ⟨some false, none, none, []⟩ (⟨[10, 11, 12, 13], 2, some true, none, none⟩ : DocSpec Nat)
    = some ⟨[10, 11, 12, 13], 2, true, false⟩ := rfl
example : resolveDoc [] [5, 6] ⟨none, none, some 6, []⟩ (⟨[10], 1, none, none, none⟩ : DocSpec Nat) = some ⟨[10], 1, false, true⟩ := rfl
example : resolveDoc [1, 2] [] ⟨none, none, none, []⟩ (⟨[10], 1, none, none, none⟩ : DocSpec Nat) = none := by decide

/-- **spec_cover**: exactly-once from the track FILE on.  For every track specification that `_create_corpora` accepts,
    whose data files are as their most specific declaration says, every cutting of the clients into worker ranges, every
    oracle and every call order per worker: the file lines of all bulks of all workers are a permutation of all lines of
    all document sets the specification lists. -/
theorem spec_cover {cfg : Cfg} (hl : cfg.looped = false) (hpct : cfg.pct = 100)
    (hbulk : 0 < cfg.bulkSize) (hbatch : 0 < cfg.batchSize) {n : Nat} (hn : 1 ≤ n)
    {indices streams : List Nat} {specs : List (CorpusSpec α)} (hfiles : ∀ c ∈ specs, ∀ d ∈ c.documents, DocSpec.WF c d)
    {corpora : List (Corpus α)} (hres : resolveCorpora indices streams specs = some corpora)
    {ranges : List (Nat × Nat)} (hcut : Cut 0 n ranges)
    (O : Nat × Nat → Oracle) (clients calls stopped : Nat × Nat → List Nat) (p0 p' : Nat × Nat → PState α)
    (out : Nat × Nat → List (Nat × Bulk α)) (all : Nat × Nat → List (Bulk α)) (c1 : Nat × Nat → Cnt)
    (hw : ∀ r ∈ ranges, OracleOK (O r) ∧ listMin (clients r) = some r.1 ∧ listMax (clients r) = some r.2 ∧
      workerBulks (O r) cfg corpora n r.1 r.2 ⟨0, 0, 0, 0⟩ = .ok (all r, c1 r) ∧ (all r).length * 100 < 2^53 ∧
      partitionAll n (clients r) (PState.init : PState α) = .ok (p0 r) ∧
      runCalls (O r) cfg corpora (calls r) (p0 r) [] = .ok (out r, stopped r, p' r) ∧ stopped r ≠ []) :
    (ranges.flatMap fun r => ((out r).map (·.2)).flatMap fun b => srcLines b.body).Perm
      (specs.flatMap fun c => c.documents.flatMap (·.lines)) := by
  obtain ⟨hwf, hlines⟩ := resolveCorpora_spec hres hfiles
  rw [← hlines]
  exact race_cover hl hpct hbulk hbatch hn hwf hcut O clients calls stopped p0 p' out all c1 hw

/-- a specification with a corpus-level `true` and a document set that says `false`: accepted, files as declared -/
def specs0 : List (CorpusSpec Nat) :=
  [⟨some true, none, none, [⟨[0, 1, 2, 3, 4], 5, some false, none, none⟩, ⟨[10, 11, 12, 13], 2, none, none, none⟩]⟩]

example : resolveCorpora [7] [] specs0 = some [[⟨[0, 1, 2, 3, 4], 5, false, false⟩, ⟨[10, 11, 12, 13], 2, true, false⟩]] := rfl
example : ∀ c ∈ specs0, ∀ d ∈ c.documents, DocSpec.WF c d := by
  intro c hc d hd
  simp only [specs0, List.mem_singleton] at hc
  subst hc
  simp only [List.mem_cons, List.not_mem_nil, or_false] at hd
  rcases hd with rfl | rfl <;> exact ⟨by norm_num, by decide⟩

/-- **spec_truthiness_join_misreads**: the rule matters.  Joining the two levels by truthiness (`document value or corpus
    default`, NOT the code) turns the explicit `false` of `specs0` into `true`; a worker that serves clients 1..1 of 2
    then computes two lines per document: it starts at line 4 instead of line 2 of the five-document file and
    hands out one line where the rule gives three. -/
theorem spec_truthiness_join_misreads :
    (∃ (c : CorpusSpec Nat) (d : DocSpec Nat), d.withMeta = some false ∧ DocSpec.declared c d = false ∧ DocSpec.declaredOr c d = true) ∧
    bounds 5 1 1 2 false = (2, 3, 3) ∧ bounds 5 1 1 2 true = (4, 3, 6) := by
  refine ⟨⟨⟨some true, none, none, []⟩, ⟨[], 0, some false, none, none⟩, rfl, rfl, rfl⟩, ?_, ?_⟩ <;> decide +kernel

/-! ## a LINE of a data file at byte level: it ends at `\n` and only there (every byte content)

The line-level theorems above (`slice_reads_range`, `bulks_bounded`, `worker_cover`, `race_cover` …) hold for every
type of lines; for a data file with the bytes `bs` the document set's `lines` are `splitLines bs` (lines as
`List Byte`), whatever the bytes are: `readlines_returns_exactly_n` and `skip_with_table_eq_linear` are the tie. -/

/-- **lines_end_at_newline_only**: for every byte content the lines of a file - what `mm.readline()` cuts - lose and
    invent no byte, are never empty, contain `\n` at most as their last byte, and their number is the number of
    `\n` bytes plus one for an unterminated rest.  `\r`, `\x0b`, `\x0c`, `\x1c`-`\x1e` and the bytes of
    U+0085 / U+2028 / U+2029 are content of a line. -/
theorem lines_end_at_newline_only (bs : List Byte) :
    (splitLines bs).flatten = bs ∧ (∀ l ∈ splitLines bs, l ≠ [] ∧ 10 ∉ l.dropLast) ∧
      (splitLines bs).length = countNL bs + (if endsNL bs then 0 else 1) :=
  ⟨splitLines_flatten bs, splitLines_shape bs, splitLines_length bs⟩

/-- `{\r}\r\n`, `U+0085 \x0b \n`, `U+2028` without terminator: three lines -/
example : splitLines [123, 13, 125, 13, 10, 194, 133, 11, 10, 226, 128, 168] =
    [[123, 13, 125, 13, 10], [194, 133, 11, 10], [226, 128, 168]] := by decide

/-- **readlines_returns_exactly_n**: `MmapSource.readlines(k)` at any position of any file returns exactly `k`
    elements (fewer only when the file has fewer lines left) - the next `k` lines -, their concatenation is exactly
    the bytes consumed and the position has advanced by that many bytes.  (`Slice.__next__` adds the number of
    elements to `current_line`: one element more or less than lines consumed shifts the end of the slice.) -/
theorem readlines_returns_exactly_n (s : Src) (k : Nat) :
    (s.readlines k).1.length = min k (splitLines s.rest).length ∧
      (s.readlines k).1 = (splitLines s.rest).take k ∧
      (s.readlines k).1.flatten ++ (s.readlines k).2.rest = s.rest ∧
      (s.readlines k).2.pos = s.pos + (s.readlines k).1.flatten.length := by
  refine ⟨?_, readlines_spec k s, (readlines_consumed k s).1, (readlines_consumed k s).2⟩
  rw [readlines_spec, List.length_take]

/-- two lines asked for, the first one holds a bare `\r`: two elements, 8 bytes consumed -/
example : ((Src.seek [123, 13, 125, 10, 123, 125, 13, 10, 120] 0).readlines 2).1 = [[123, 13, 125, 10], [123, 125, 13, 10]] ∧
    ((Src.seek [123, 13, 125, 10, 123, 125, 13, 10, 120] 0).readlines 2).2.pos = 8 := by decide

/-- (pinned: the pass as the code ran it before the repair 2a8dc4a, which reads with `newline="\n"`; on files without a bare CR
    both passes agree, `skip_with_text_table_eq_linear`)
    what `prepare_file_offset_table` returned as the code ran it (text mode, universal newlines): the number of
    TEXT-mode lines -/
theorem prepare_counts_text_lines (every : Nat) (bs : List Byte) :
    (prepareOffsetTableText every bs).2 = (textLines bs).length := by
  unfold prepareOffsetTableText
  rw [tableLoop_count]; simp

/-- **skip_with_text_table_eq_linear**: for every file in which every `\r` is followed by `\n` (files with `\n`
    line ends, files with `\r\n` line ends, mixed), every table spacing and every target line: the table the
    TEXT-mode pass of `prepare_file_offset_table` writes is the table of the `\n` lines, the count it returns is the
    number of `\n` lines (what `create_file_offset_table` compares with the declared number), and seeking through
    it equals skipping line by line, from where `readlines` delivers the lines `n, n+1, …`. -/
theorem skip_with_text_table_eq_linear (every : Nat) (bs : List Byte) (n : Nat) (h : noBareCR bs = true) :
    (prepareOffsetTableText every bs).2 = (splitLines bs).length ∧
      skipLines (some (prepareOffsetTableText every bs).1) bs n = skipLines none bs n ∧
      ∀ k, ((skipLines none bs n).readlines k).1 = ((splitLines bs).drop n).take k := by
  rw [prepareOffsetTableText_eq every bs h]
  exact ⟨prepare_counts_lines every bs, (skip_with_table_eq_linear every bs n).1, (skip_with_table_eq_linear every bs n).2.2⟩

/-- a CRLF file satisfies the hypothesis -/
example : noBareCR [123, 125, 13, 10, 123, 125, 13, 10] = true ∧
    (prepareOffsetTableText 2 [123, 125, 13, 10, 123, 125, 13, 10]).1 = [(2, 8)] := by decide

/-- the statement without the hypothesis -/
def TextTableFull : Prop := ∀ (every : Nat) (bs : List Byte) (n : Nat),
  (prepareOffsetTableText every bs).2 = (splitLines bs).length ∧
    skipLines (some (prepareOffsetTableText every bs).1) bs n = skipLines none bs n

/-- **text_table_needs_no_bare_cr**: the hypothesis is needed: in `a\rb\nc\n` the text-mode pass counts three lines
    (the file has two) and with a spacing of 2 its table sends `skip_lines(2)` to byte 4 (`c`), line by line it
    is byte 6 (end of file). -/
theorem text_table_needs_no_bare_cr : ¬ TextTableFull := by
  intro h
  have := (h 2 [97, 13, 98, 10, 99, 10] 2).1
  revert this
  decide

/-- **preparator_rejects_bare_cr**: what the current code does with such a file: a one-line file whose line holds a bare
    `\r` (declared: 1 line) is refused by `create_file_offset_table` (DataError, the table is removed again), the
    same line with a `\r\n` end is accepted. -/
theorem preparator_rejects_bare_cr :
    preparatorAccepts [123, 13, 125, 10] 1 = false ∧ (splitLines [123, 13, 125, 10]).length = 1 ∧
      preparatorAccepts [123, 125, 13, 10] 1 = true := by
  decide +kernel


end C03
