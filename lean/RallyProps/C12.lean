import RallyProofs.MechanicNeutral
import RallyProofs.MechanicLauncher
import RallyProofs.MechanicStop

/-!
# C12 — cluster engine start/stop is all-or-nothing across hosts and reports failures

Model: `RallyModel/Mechanic.lean` (MechanicActor, Dispatcher, NodeMechanicActor, Mechanic over FIFO
channels; `Reach cfg s tr` = state `s` is reachable and `tr` is everything that was ever sent,
received, called or created).  All theorems hold for every configuration (any host list with any
number of nodes per (ip, port) group, any plan of start failures), every reachable state, i.e.
every order and delay of deliveries, daemon joins/departures and metric-flush wake-ups.
The current code is `Config.patched = true` (Dispatcher repaired in repo commit 617c60f); only
`daemon_departure_reported*` depends on the flag, `…_pinned` is the historical witness for `false`.
-/

namespace C12
open Mechanic

def exGroupsCfg : Config :=
  { hosts := [(0, 9200), (1, 9200), (0, 9200)], external := false, preserve := false, raceFound := true,
    plans := [], patched := true }

/-- EngineStarted / EngineStopped / BenchmarkFailure as race control sees them leave the MechanicActor -/
abbrev engineStarted : Out := .send .mech .rc .engineStarted
abbrev engineStopped : Out := .send .mech .rc .engineStopped
/-- host group `h` (all nodes of one (ip, port)) launched all its nodes successfully -/
abbrev launched (cfg : Config) (h : Nat) : Out := .call h (.launch (idsOf cfg h) true)
/-- the MechanicActor received the confirmation of host group `h` -/
abbrev confirmedStop (h : Nat) : Out := .recv .mech (.node h) .nodesStopped

/-! ## host groups -/

/-- `nodes_by_host`: node ids are the positions in the host list and every one of them lies in exactly
one (ip, port) group, once — so "all nodes of every host group" is "every node". -/
theorem every_node_in_exactly_one_group (cfg : Config) (i : Nat) :
    ((groups cfg).flatMap (·.2)).count i = if i < cfg.hosts.length then 1 else 0 :=
  node_in_exactly_one_group cfg i

example : groups exGroupsCfg = [((0, 9200), [0, 2]), ((1, 9200), [1])] := by decide

/-! ## started_only_when_all -/

/-- EngineStarted is sent at most once, and only if every host group has started all of its nodes
(the start succeeded there and the launcher returned all node ids of the group). -/
theorem started_only_when_all {cfg : Config} (hx : cfg.external = false) {s : State} {tr : List Out}
    (hr : Reach cfg s tr) (hES : engineStarted ∈ tr) :
    (∀ h, h < nHosts cfg → startOk cfg h ∧ launched cfg h ∈ tr) ∧ tr.count engineStarted ≤ 1 :=
  ⟨all_started_of_ES hx hr hES, (mi_reach hx hr).i8.1⟩

/-- … and strictly after: at the step that sends EngineStarted all launches are already in the past. -/
theorem started_only_after_all {cfg : Config} (hx : cfg.external = false) {s s' : State} {tr outs : List Out} {e : Event}
    (hr : Reach cfg s tr) (hs : step cfg s e = some (s', outs)) (hES : engineStarted ∈ outs) :
    ∀ h, h < nHosts cfg → launched cfg h ∈ tr := by
  intro h hh
  have := (all_started_of_ES hx (Reach.step hr hs) (List.mem_append_right _ hES) h hh).2
  rcases List.mem_append.1 this with h1 | h1
  · exact h1
  · exact absurd h1 (no_call_in_mech_step hs hES _ _)

/-! ## stop_each_once -/

/-- After EngineStopped (sent at most once) every host group has confirmed, and on every host group the
stop sequence — launcher.stop of exactly its nodes, flush(refresh), one store of system metrics per
node (if the race is found), close, one cleanup per node with Rally's preserve flag — has run exactly
once, in this order, and never again later (the statement holds in every later state too). -/
theorem stop_each_once {cfg : Config} (hx : cfg.external = false) {s : State} {tr : List Out}
    (hr : Reach cfg s tr) (hEP : engineStopped ∈ tr) :
    (∀ h, h < nHosts cfg → confirmedStop h ∈ tr ∧ tr.filter (isStop h) = stopCalls cfg h) ∧
      tr.count engineStopped ≤ 1 :=
  ⟨stopped_of_EP hx hr hEP, (mi_reach hx hr).i8.2⟩

/-- what `stopCalls` is, call by call -/
theorem stop_sequence (cfg : Config) (h : Nat) :
    stopCalls cfg h =
      [Out.call h (.lstop (idsOf cfg h)), Out.call h (.flush true)]
        ++ (if cfg.raceFound then (idsOf cfg h).map (fun id => Out.call h (.store id)) else [])
        ++ [Out.call h .close]
        ++ (idsOf cfg h).map (fun id => Out.call h (.cleanup id cfg.preserve)) :=
  stopCalls_eq cfg h

/-- the stop calls of all hosts precede the step that sends EngineStopped -/
theorem stopped_before_acknowledged {cfg : Config} (hx : cfg.external = false) {s s' : State} {tr outs : List Out}
    {e : Event} (hr : Reach cfg s tr) (hs : step cfg s e = some (s', outs)) (hEP : engineStopped ∈ outs) :
    ∀ h, h < nHosts cfg → tr.filter (isStop h) = stopCalls cfg h := by
  intro h hh
  have := (stopped_of_EP hx (Reach.step hr hs) (List.mem_append_right _ hEP) h hh).2
  rw [List.filter_append] at this
  have h0 : outs.filter (isStop h) = [] := by
    apply List.filter_eq_nil_iff.2
    intro o ho
    cases o <;> simp [isStop]
    rename_i h' c
    exact absurd ho (no_call_in_mech_step hs hEP _ _)
  rwa [h0, List.append_nil] at this

/-- whatever happens (failures, departures, external or not): no host group is ever stopped twice -/
theorem never_stopped_twice {cfg : Config} {s : State} {tr : List Out} (hr : Reach cfg s tr) (h : Nat) :
    tr.filter (isStop h) = [] ∨
      ∃ m : Mech, m.host = h ∧ tr.filter (isStop h) = (stopEffs cfg m).map (toOut (.node h)) :=
  stop_at_most_once hr h

/-! ## start_failure_reported -/

/-- which plans make the start of a host group fail -/
theorem start_fails_iff (cfg : Config) (h : Nat) :
    ¬ startOk cfg h ↔ ¬ (cfg.external = false ∧
      (planOf cfg h = .ok ∨ ∃ j, planOf cfg h = .failPrepare j ∧ (idsOf cfg h).length ≤ j)) :=
  not_congr (startOk_iff cfg h)

/-- If the start fails on some host group, EngineStarted is never sent; once that host's node actor
has been asked to start, its BenchmarkFailure exists and is, at any later time, in the channel to the
MechanicActor, in the channel to race control, or received by race control — nothing drops it. -/
theorem start_failure_reported {cfg : Config} (hx : cfg.external = false) {s : State} {tr : List Out}
    (hr : Reach cfg s tr) {h : Nat} (hh : h < nHosts cfg) (hfail : ¬ startOk cfg h) :
    engineStarted ∉ tr ∧
      (Out.recv (.node h) .disp (.startNodes h .mech) ∈ tr →
        .failure (.start h) ∈ s.chan (.node h) .mech ∨ .failure (.start h) ∈ s.chan .mech .rc ∨
          Out.recv .rc .mech (.failure (.start h)) ∈ tr) := by
  refine ⟨fun hES => hfail (all_started_of_ES hx hr hES h hh).1, ?_⟩
  intro hRS
  exact failure_reaches_rc hr ((ni_reach hr h).n4 hRS hfail)

/-- "rather than hanging": when nothing is left to deliver, race control has received it -/
theorem start_failure_reported_at_quiescence {cfg : Config} (hx : cfg.external = false) {s : State} {tr : List Out}
    (hr : Reach cfg s tr) {h : Nat} (hh : h < nHosts cfg) (hfail : ¬ startOk cfg h)
    (hq : ∀ a b, s.chan a b = []) (hRS : Out.recv (.node h) .disp (.startNodes h .mech) ∈ tr) :
    Out.recv .rc .mech (.failure (.start h)) ∈ tr := by
  rcases (start_failure_reported hx hr hh hfail).2 hRS with h1 | h1 | h1
  · rw [hq] at h1; cases h1
  · rw [hq] at h1; cases h1
  · exact h1

/-! ## daemon_departure_reported -/

/-- the full statement: whenever the Dispatcher is told that a remote daemon left
(ActorSystemConventionUpdate with remoteAdded = false), a BenchmarkFailure about it is on its way to
race control or has been received by it -/
def DepartureReported (cfg : Config) : Prop :=
  ∀ (s : State) (tr : List Out) (ip : Nat), Reach cfg s tr → Out.recv .disp .sys (.conv false ip) ∈ tr →
    .failure (.daemonLeft ip) ∈ s.chan .disp .mech ∨ .failure (.daemonLeft ip) ∈ s.chan .mech .rc ∨
      Out.recv .rc .mech (.failure (.daemonLeft ip)) ∈ tr

/-- **The current code** (`Config.patched = true`: `Dispatcher.receiveMsg_ActorSystemConventionUpdate`
does `self.send(self.start_sender, BenchmarkFailure(...))` since repo commit 617c60f; the harness
establishes the flag by a behavioural probe of the real class): every departure the Dispatcher is
told about is reported — for every configuration, host list and delivery order. -/
theorem daemon_departure_reported {cfg : Config} (hcur : cfg.patched = true) : DepartureReported cfg :=
  fun _ _ _ hr hx => departure_reaches_rc hcur hr hx

/-- … and at quiescence race control has received it ("rather than hanging") -/
theorem daemon_departure_reported_at_quiescence {cfg : Config} (hcur : cfg.patched = true) {s : State} {tr : List Out}
    (hr : Reach cfg s tr) {ip : Nat} (hx : Out.recv .disp .sys (.conv false ip) ∈ tr) (hq : ∀ a b, s.chan a b = []) :
    Out.recv .rc .mech (.failure (.daemonLeft ip)) ∈ tr := by
  rcases daemon_departure_reported hcur s tr ip hr hx with h | h | h
  · rw [hq] at h; cases h
  · rw [hq] at h; cases h
  · exact h

/-- one remote host whose daemon leaves while the Dispatcher waits for it, current code -/
def departureCfg : Config :=
  { hosts := [(1, 9200)], external := false, preserve := false, raceFound := true, plans := [], patched := true }

/-! ### historical: the pinned code before 617c60f (`patched := false`)

Kept only as the record of the defect the check found, and so that a revert of the fix is a behaviour
the model can express (the harness's probe then selects `patched := false` and the oracle class
`daemon-departure-unreported` fires again). -/

def pinnedDepartureCfg : Config := { departureCfg with patched := false }

def pinnedDepartureHistory : List Event :=
  [.rcStart, .deliver .rc .mech, .deliver .mech .disp, .sysConv false 1, .deliver .sys .disp, .deliver .disp .sys]

/-- HISTORICAL (code before 617c60f, not the current code): `self.start_sender(...)` called an
ActorAddress → TypeError; Thespian retried once and returned a PoisonMessage to the actor system;
nothing was sent towards race control, every channel was empty afterwards and race control had
received nothing — the full statement was false. -/
theorem daemon_departure_not_reported_pinned : ¬ DepartureReported pinnedDepartureCfg := by
  intro hfull
  obtain ⟨s, tr, hr, hp⟩ := chk_sound (cfg := pinnedDepartureCfg) (es := pinnedDepartureHistory)
    (p := fun s tr => decide (Out.recv .disp .sys (.conv false 1) ∈ tr) &&
      decide (s.chan .disp .mech = []) && decide (s.chan .mech .rc = []) &&
      decide (Out.recv .rc .mech (.failure (.daemonLeft 1)) ∉ tr) &&
      decide (Out.send .disp .sys (.poison (.conv false 1)) ∈ tr)) (by decide)
  simp only [Bool.and_eq_true, decide_eq_true_eq] at hp
  obtain ⟨⟨⟨⟨h1, h2⟩, h3⟩, h4⟩, _⟩ := hp
  rcases hfull s tr 1 hr h1 with h | h | h
  · rw [h2] at h; cases h
  · rw [h3] at h; cases h
  · exact h4 h

/-! ## external_untouched -/

/-- For an externally provisioned cluster nothing is ever created, called, started or stopped: the
only traffic is between race control and the MechanicActor; StartEngine is acknowledged with
EngineStarted (if hosts are configured) and StopEngine with EngineStopped. -/
theorem external_untouched {cfg : Config} (hx : cfg.external = true) {s : State} {tr : List Out}
    (hr : Reach cfg s tr) :
    (∀ h c, Out.call h c ∉ tr) ∧ (∀ h, Out.createNode h ∉ tr) ∧ Out.createDisp ∉ tr ∧
      (∀ a b m, Out.send a b m ∈ tr → (a = .rc ∧ b = .mech) ∨ (a = .mech ∧ b = .rc)) ∧
      (Out.recv .mech .rc .startEngine ∈ tr → cfg.hosts ≠ [] → engineStarted ∈ tr) ∧
      (Out.recv .mech .rc .stopEngine ∈ tr → engineStopped ∈ tr) := by
  have I := ext_idle hx hr
  have E := ex_reach hx hr
  refine ⟨?_, ?_, ?_, ?_, E.e1, E.e2⟩
  · intro h c hm; exact I.a5 _ hm
  · intro h hm; exact I.a5 _ hm
  · intro hm; exact I.a5 _ hm
  · intro a b m hm
    have := I.a5 _ hm
    cases a <;> cases b <;> simp [idleOut] at this ⊢

/-! ## node level: every node is its own process

At actor level a node is its id (position in the target-host list); `stop_each_once` says that the
one `launcher.stop` call of a host group lists exactly that group's node ids.  Below that, the
`ProcessLauncher` turns a node into an operating-system process through the working directory and
the relative pid file `./pid` (model: `Mechanic.Launcher`). -/

/-- after EngineStopped every `launcher.stop` call in the whole history addresses exactly the nodes of
its own host group (so, with `every_node_in_exactly_one_group` and `stop_each_once`, every node is
addressed by exactly one stop call, once) -/
theorem stop_addresses_own_nodes {cfg : Config} (hx : cfg.external = false) {s : State} {tr : List Out}
    (hr : Reach cfg s tr) (hEP : engineStopped ∈ tr) {h : Nat} (hh : h < nHosts cfg) {ids : List Nat}
    (hc : Out.call h (.lstop ids) ∈ tr) : ids = idsOf cfg h := by
  have h1 := (stopped_of_EP hx hr hEP h hh).2
  have h2 : Out.call h (.lstop ids) ∈ tr.filter (isStop h) := List.mem_filter.2 ⟨hc, by simp [isStop]⟩
  rw [h1, stopCalls_eq] at h2
  simp only [List.mem_append, List.mem_cons, List.mem_map, List.not_mem_nil, or_false] at h2
  rcases h2 with (((h2 | h2) | h2) | h2) | h2
  · injection h2 with _ h2; injection h2
  · injection h2 with _ h2; cases h2
  · split at h2
    · obtain ⟨_, _, h2⟩ := List.mem_map.1 h2; injection h2 with _ h2; cases h2
    · cases h2
  · injection h2 with _ h2; cases h2
  · obtain ⟨_, _, h2⟩ := h2; injection h2 with _ h2; cases h2

/-- `ProcessLauncher.start` / `.stop` for the nodes of one host (distinct installation directories, any sane
process table): every returned node carries the pid that *its own* daemon wrote into *its own*
installation, these pids are pairwise distinct live processes; after `stop` none of them runs, each
has received exactly one SIGTERM more than before, and no other process has been touched. -/
theorem launcher_tracks_own_process_and_stops_each_once (dirs : List Nat) (w : Launcher.World)
    (hs : Launcher.Sane w) (hd : dirs.Nodup) :
    let r := Launcher.startAll w dirs
    let w' := Launcher.stopAll r.1 r.2
    r.2.map (·.1) = dirs ∧ (∀ n ∈ r.2, r.1.pidFile n.1 = some n.2 ∧ n.2 ∈ r.1.running) ∧ (r.2.map (·.2)).Nodup ∧
      (∀ n ∈ r.2, n.2 ∉ w'.running ∧ w'.terms.count n.2 = w.terms.count n.2 + 1) ∧
      (∀ q, q ∈ w.running → q ∈ w'.running ∧ w'.terms.count q = w.terms.count q) :=
  Launcher.start_stop dirs w hs hd

/-- the statement is about the mechanism, not a tautology: launching all nodes first and reading the
relative `./pid` afterwards (every read then resolves against the LAST working directory) tracks one
process for all nodes -/
def launchAllThenAwait (w : Launcher.World) (dirs : List Nat) : List (Nat × Nat) :=
  let w1 := dirs.foldl (fun w d => Launcher.spawn (Launcher.chdir w d)) w
  dirs.map (fun d => (d, Launcher.readPid w1))

example : (Launcher.startAll ⟨0, fun _ => none, 100, [], []⟩ [1, 2, 3]).2 = [(1, 100), (2, 101), (3, 102)] ∧
    launchAllThenAwait ⟨0, fun _ => none, 100, [], []⟩ [1, 2, 3] = [(1, 102), (2, 102), (3, 102)] := by decide

example : Launcher.Sane ⟨0, fun _ => none, 100, [7, 9], []⟩ ∧ [1, 2, 3].Nodup :=
  ⟨⟨by decide, by decide⟩, by decide⟩

/-! ## one call below `Mechanic.stop_engine` (round 6): clean-up on the directory tree, system metrics of nodes that died

`stop_sequence` says that `launcher.stop`, the per-node store of the system results and `provisioner.cleanup` are *called*
for every node.  What these calls do is modelled in `Mechanic.Cleanup` (a directory tree of component-wise paths) and
`Mechanic.Launcher.stopAllT` (process table + what reaches the metrics store). -/

/-- `provisioner.cleanup` on any directory tree, for any installation directory and any list of data paths (inside or
outside the installation, nested in each other, repeated, missing, with names that extend each other): with `preserve`
the tree is untouched; without it exactly the directories survive that are neither the installation, nor one of the
data paths, nor below one of them — every listed path is gone and nothing else is. -/
theorem cleanup_wipes_every_listed_path_and_nothing_else (preserve : Bool) (install : Cleanup.Path)
    (dataPaths : List Cleanup.Path) {fs : List Cleanup.Path} (hc : Cleanup.Closed fs) (q : Cleanup.Path) :
    q ∈ Cleanup.cleanup preserve install dataPaths fs ↔
      q ∈ fs ∧ (preserve = true ∨ (¬ install <+: q ∧ ∀ d ∈ dataPaths, ¬ d <+: q)) :=
  Cleanup.cleanup_spec preserve install dataPaths hc q

/-- … in particular no data path and nothing below it is left, whatever else is called like it -/
theorem cleanup_leaves_no_data_path (install : Cleanup.Path) (dataPaths : List Cleanup.Path) {fs : List Cleanup.Path}
    (hc : Cleanup.Closed fs) {d : Cleanup.Path} (hd : d ∈ dataPaths) {q : Cleanup.Path} (hq : d <+: q) :
    q ∉ Cleanup.cleanup false install dataPaths fs := by
  intro h
  rcases ((Cleanup.cleanup_spec false install dataPaths hc q).1 h).2 with h | h
  · cases h
  · exact h.2 d hd hq

-- root [] / races [1] / install [1,2] / install/data [1,2,3] / disks [4] / data1 [4,5] / data10 [4,6] / data100 [4,7] (not listed)
example : Cleanup.cleanup false [1, 2] [[4, 5], [4, 6], [1, 2, 3]] [[], [1], [1, 2], [1, 2, 3], [4], [4, 5], [4, 6], [4, 6, 9], [4, 7]]
      = [[], [1], [4], [4, 7]] ∧
    Cleanup.cleanup true [1, 2] [[4, 5], [4, 6]] [[], [1], [1, 2], [4], [4, 5], [4, 6]] = [[], [1], [1, 2], [4], [4, 5], [4, 6]] := by
  decide

example : Cleanup.Closed [[], [1], [1, 2], [4], [4, 5]] := by
  intro q hq p hp
  simp only [List.mem_cons, List.not_mem_nil, or_false] at hq
  rcases hq with rfl | rfl | rfl | rfl | rfl <;>
    (have := List.prefix_iff_eq_take.1 hp; revert this; generalize p.length = k; intro h; subst h
     match k with
     | 0 | 1 | 2 | k + 3 => simp)

/-- from the car variable to the clean-up: whatever form the documented car variable `data_paths` has (not defined, one
string, a list - anything else is rejected with a SystemSetupError and only that), the data paths the installer derives
are exactly the ones named (not defined: `<es home>/data`), and after the node's clean-up without `preserve` none of
them, nothing below them and nothing of the installation exists. -/
theorem car_data_paths_are_wiped (home : Cleanup.Path) (v : Cleanup.CarVar) {fs : List Cleanup.Path} (hc : Cleanup.Closed fs) :
    (Cleanup.dataPathsOf home v = none ↔ v = .other) ∧
      ∀ ds, Cleanup.dataPathsOf home v = some ds →
        ((v = .absent → ds = [home ++ [0]]) ∧ (∀ p, v = .str p → ds = [p]) ∧ (∀ ps, v = .list ps → ds = ps)) ∧
        ∀ q, (home <+: q ∨ ∃ d ∈ ds, d <+: q) → q ∉ Cleanup.cleanup false home ds fs := by
  refine ⟨Cleanup.dataPathsOf_none home v, fun ds h => ⟨Cleanup.dataPathsOf_spec home v h, ?_⟩⟩
  intro q hq hm
  rcases ((Cleanup.cleanup_spec false home ds hc q).1 hm).2 with h1 | h1
  · cases h1
  · rcases hq with hq | ⟨d, hd, hq⟩
    · exact h1.1 hq
    · exact h1.2 d hd hq

example : Cleanup.dataPathsOf [1, 2] .absent = some [[1, 2, 0]] ∧ Cleanup.dataPathsOf [1, 2] (.str [4, 5]) = some [[4, 5]] ∧
    Cleanup.dataPathsOf [1, 2] (.list [[4, 5], [4, 6]]) = some [[4, 5], [4, 6]] ∧ Cleanup.dataPathsOf [1, 2] .other = none := by
  decide

/-- `ProcessLauncher.stop` with a metrics store, for ANY process table and any nodes (alive, dead, never started):
meta data and the system metrics of every node reach the metrics store exactly once and in order ("store system
metrics in any case"), and the process side is `Launcher.stopAll` of round 4. -/
theorem stop_stores_system_metrics_of_every_node (x : Launcher.World × Launcher.Tele) (nodes : List (Nat × Nat)) :
    (Launcher.stopAllT x nodes).2.stored = x.2.stored ++ nodes.map (·.1) ∧
      (Launcher.stopAllT x nodes).2.metaInfo = x.2.metaInfo ++ nodes.map (·.1) ∧
      (Launcher.stopAllT x nodes).1 = Launcher.stopAll x.1 nodes :=
  ⟨(Launcher.stopAllT_stored nodes x).1, (Launcher.stopAllT_stored nodes x).2, Launcher.stopAllT_world nodes x⟩

/-- start, then any processes die on their own (any list of pids, also foreign ones), then stop: the system metrics of
every started node are stored once, no node process runs afterwards, and a process that was already gone gets no signal. -/
theorem stop_after_deaths_stores_all_and_leaves_none (dirs : List Nat) (w : Launcher.World) (hs : Launcher.Sane w)
    (hd : dirs.Nodup) (dead : List Nat) :
    let r := Launcher.startAll w dirs
    let w1 := dead.foldl Launcher.die r.1
    let x := Launcher.stopAllT (w1, Launcher.Tele.empty) r.2
    x.2.stored = dirs ∧ x.2.metaInfo = dirs ∧ (∀ n ∈ r.2, n.2 ∉ x.1.running) ∧
      (∀ q, q ∉ w1.running → x.1.terms.count q = w1.terms.count q) := by
  intro r w1 x
  obtain ⟨a1, _, _, _, a5, _⟩ := Launcher.startAll_spec dirs w hs hd
  have h1 := Launcher.stopAllT_stored r.2 (w1, Launcher.Tele.empty)
  have h2 : x.1 = Launcher.stopAll w1 r.2 := Launcher.stopAllT_world r.2 (w1, Launcher.Tele.empty)
  refine ⟨?_, ?_, ?_, ?_⟩
  · show (Launcher.stopAllT (w1, Launcher.Tele.empty) r.2).2.stored = dirs
    rw [h1.1]; simpa [Launcher.Tele.empty] using a1
  · show (Launcher.stopAllT (w1, Launcher.Tele.empty) r.2).2.metaInfo = dirs
    rw [h1.2]; simpa [Launcher.Tele.empty] using a1
  · rw [h2]; exact Launcher.stopAll_none_running r.2 w1 (Launcher.die_nodup dead a5.nodup)
  · intro q hq; rw [h2]; exact Launcher.stopAll_terms_dead r.2 w1 q hq

/-- three nodes, the second one's process (pid 101) dies before the stop: all three stored, two stopped, two SIGTERMs -/
example :
    let r := Launcher.startAll ⟨0, fun _ => none, 100, [], []⟩ [1, 2, 3]
    let x := Launcher.stopAllT (Launcher.die r.1 101, Launcher.Tele.empty) r.2
    x.2.stored = [1, 2, 3] ∧ x.2.stopped = [1, 3] ∧ x.2.detachedStopped = [1, 3] ∧ x.1.terms = [100, 102] ∧ x.1.running = [] := by
  decide

/-! ## ambient switches are neutral

The handlers read settings that must not influence the protocol.  Two of them are parameters of the
model — `preserve.install` (only an argument of the clean-up calls) and whether the race is found in
the race store (only decides the per-node store calls): the theorem below says that the protocol
(every message sent, received or dead-lettered, every actor created or exited, registrations,
wake-ups — everything except the calls on the Mechanic's collaborators) and the state do not depend
on them.  The others (logger levels, console verbosity, source vs. distribution build) do not exist in
the model at all: the model *is* the statement that the protocol does not depend on them, and the
correspondence streams run a share of all histories of the real actors under varied such settings
against this one model. -/

/-- the protocol and the state do not depend on the preserve-install and race-store switches -/
theorem protocol_independent_of_cleanup_switches {cfg : Config} {preserve raceFound : Bool} {s : State}
    {tr : List Out} (hr : Reach (cfg.withSwitches preserve raceFound) s tr) :
    ∃ tr', Reach cfg s tr' ∧ tr.filter isProto = tr'.filter isProto :=
  reach_switch hr

/-- … history by history: the same events are enabled and give the same state and protocol outputs -/
theorem protocol_independent_of_cleanup_switches_run (cfg : Config) (preserve raceFound : Bool) (es : List Event) :
    SameProto (run (cfg.withSwitches preserve raceFound) State.init es) (run cfg State.init es) :=
  run_switch cfg preserve raceFound State.init es

/-- For an external cluster the MechanicActor reads nothing of the target-host list except whether it is
empty: two configurations of external clusters whose host lists are both empty or both non-empty
(whatever the entries look like - URLs with scheme, credentials, path prefix, host objects with client
options, names that do not resolve) make every handler of the MechanicActor behave identically; with
`external_untouched` (no Dispatcher, no node actor ever exists) that is the whole behaviour. -/
theorem external_reads_only_emptiness_of_host_list {cfg cfg' : Config} (h1 : cfg.external = true)
    (h2 : cfg'.external = true) (h3 : cfg.hosts.isEmpty = cfg'.hosts.isEmpty) (st : MSt) (msg : Msg) (src : Aid) :
    recvMech cfg st msg src = recvMech cfg' st msg src := by
  cases msg <;> simp [recvMech, mechStart, h1, h2, h3]

example : exGroupsCfg.hosts.isEmpty = ({ exGroupsCfg with hosts := [(7, 443)], external := true } : Config).hosts.isEmpty := by decide

/-! ## the hypotheses are satisfiable: concrete non-trivial histories -/

/-- two host groups (a local one with two nodes, a remote one), full start and stop -/
def exCfg : Config :=
  { hosts := [(0, 9200), (1, 9200), (0, 9200)], external := false, preserve := false, raceFound := true,
    plans := [], patched := true }

def exHistory : List Event :=
  [.rcStart, .deliver .rc .mech, .deliver .mech .disp, .sysConv true 1, .deliver .sys .disp,
   .deliver .disp (.node 1), .deliver .disp (.node 0), .timer 0, .deliver (.node 0) .mech, .deliver (.node 1) .mech,
   .deliver .mech .rc, .rcStop, .deliver .rc .mech, .deliver .mech (.node 0), .deliver .mech (.node 1),
   .deliver (.node 1) .mech, .deliver (.node 0) .mech, .deliver .mech .rc, .deliver .mech (.node 0),
   .deliver .mech (.node 1)]

example : ∃ s tr, Reach exCfg s tr ∧ engineStarted ∈ tr ∧ engineStopped ∈ tr ∧ nHosts exCfg = 2 ∧
    idsOf exCfg 0 = [0, 2] ∧ startOk exCfg 0 ∧ startOk exCfg 1 := by
  obtain ⟨s, tr, hr, hp⟩ := chk_sound (cfg := exCfg) (es := exHistory)
    (p := fun _ tr => decide (engineStarted ∈ tr) && decide (engineStopped ∈ tr)) (by decide)
  simp only [Bool.and_eq_true, decide_eq_true_eq] at hp
  exact ⟨s, tr, hr, hp.1, hp.2, by decide, by decide, by decide, by decide⟩

/-- a failing launch on the remote host group: the failure reaches race control, no EngineStarted -/
def exFailCfg : Config := { exCfg with plans := [.ok, .failLaunch] }

example : ¬ startOk exFailCfg 1 ∧ ∃ s tr, Reach exFailCfg s tr ∧
    Out.recv (.node 1) .disp (.startNodes 1 .mech) ∈ tr ∧ Out.recv .rc .mech (.failure (.start 1)) ∈ tr ∧
    engineStarted ∉ tr := by
  refine ⟨by decide, ?_⟩
  obtain ⟨s, tr, hr, hp⟩ := chk_sound (cfg := exFailCfg)
    (es := [.rcStart, .deliver .rc .mech, .deliver .mech .disp, .sysConv true 1, .deliver .sys .disp,
      .deliver .disp (.node 1), .deliver .disp (.node 0), .deliver (.node 1) .mech, .deliver (.node 0) .mech,
      .deliver .mech .rc])
    (p := fun _ tr => decide (Out.recv (.node 1) .disp (.startNodes 1 .mech) ∈ tr) &&
      decide (Out.recv .rc .mech (.failure (.start 1)) ∈ tr) && decide (engineStarted ∉ tr)) (by decide)
  simp only [Bool.and_eq_true, decide_eq_true_eq] at hp
  exact ⟨s, tr, hr, hp.1.1, hp.1.2, hp.2⟩

/-- the departure history on the current code: the failure reaches race control -/
example : departureCfg.patched = true ∧ ∃ s tr, Reach departureCfg s tr ∧
    Out.recv .disp .sys (.conv false 1) ∈ tr ∧ Out.recv .rc .mech (.failure (.daemonLeft 1)) ∈ tr := by
  refine ⟨rfl, ?_⟩
  obtain ⟨s, tr, hr, hp⟩ := chk_sound (cfg := departureCfg)
    (es := [.rcStart, .deliver .rc .mech, .deliver .mech .disp, .sysConv false 1, .deliver .sys .disp,
      .deliver .disp .mech, .deliver .mech .rc])
    (p := fun _ tr => decide (Out.recv .disp .sys (.conv false 1) ∈ tr) &&
      decide (Out.recv .rc .mech (.failure (.daemonLeft 1)) ∈ tr)) (by decide)
  simp only [Bool.and_eq_true, decide_eq_true_eq] at hp
  exact ⟨s, tr, hr, hp.1, hp.2⟩

/-- an external cluster: acknowledged start and stop -/
example : ∃ s tr, Reach { exCfg with external := true } s tr ∧ engineStarted ∈ tr ∧ engineStopped ∈ tr := by
  obtain ⟨s, tr, hr, hp⟩ := chk_sound (cfg := { exCfg with external := true })
    (es := [.rcStart, .deliver .rc .mech, .deliver .mech .rc, .rcStop, .deliver .rc .mech, .deliver .mech .rc])
    (p := fun _ tr => decide (engineStarted ∈ tr) && decide (engineStopped ∈ tr)) (by decide)
  simp only [Bool.and_eq_true, decide_eq_true_eq] at hp
  exact ⟨s, tr, hr, hp.1, hp.2⟩

/-- the switches are not vacuous: they do change the calls (no store, clean-up with preserve) -/
example : (run (exCfg.withSwitches true false) State.init exHistory).map (·.2) ≠
    (run exCfg State.init exHistory).map (·.2) := by decide

end C12
