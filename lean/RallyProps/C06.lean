import RallyModel.Throughput
import RallyProofs.Throughput
/-!
# C06 — throughput counts every operation exactly once, however samples are batched

Property theorems about `Throughput.run current bi none batches`: ONE calculator, one task, fed the
successive post-processing batches `batches` — any list of lists (any number of clients, any
arrival order, empty calls, one-sample calls, everything at once).  Section 4 reduces
`Throughput.calculate` / `runAll` (several tasks, the `task_stats` dictionary) to it.

`current = true` is the code as it is (with /repo commit d4fc0e7, which resets `current.unprocessed`
before the carried-over samples are looped over again).  Section 5 lifts everything to the post-processor / driver buffer that own the calculator; section 6 covers the path from the runner's result to the sample; section 7 keeps one historical witness about the
code before that commit.

Floats: `Dbl.fsub` / `Dbl.fdiv` / `Dbl.ofNat` are the IEEE-754 double operations (`a - b`,
`a / b`, `float(n)`) on the rationals the doubles denote, so the statements are about the values the
code really computes, rounding included.  `elapsed start s = Dbl.fsub s.abs start` is
`sample.absolute_time - start_time`.
-/
namespace C06
open Throughput

/-- no sample carries a runner-supplied throughput (the calculator computes it) -/
def Computed (batches : List (List TSample)) : Prop := ∀ b ∈ batches, ∀ s ∈ b, s.tput = none

/-- every sample carries a runner-supplied throughput -/
def Supplied (batches : List (List TSample)) : Prop := ∀ b ∈ batches, ∀ s ∈ b, s.tput ≠ none

/-- all samples fed by the calls `0 … k` -/
def fedUpTo (batches : List (List TSample)) (k : Nat) : List TSample := (batches.take (k + 1)).flatten

/-- **Conservation.** After any sequence of calls the samples fed so far split into the counted ones `P`
    and the carried-over ones, each sample exactly once (`Perm`), and `total_count` is the number of
    operations of `P`. -/
def OpsConserved (fix : Bool) : Prop :=
  ∀ (bi : Nat) (batches : List (List TSample)), Computed batches →
    ∀ t, (run fix bi none batches).1 = some t →
      ∃ P, (P ++ t.unprocessed).Perm batches.flatten ∧ t.total = sumOps P

/-- **Rate.** Every tuple emitted by call `k` satisfies `ValueSpec` w.r.t. the samples fed up to and including
    call `k`: they split (each once) into counted samples `P` and samples `R` none of which is earlier than the
    tuple's time, the emitting sample is in `P`, and
    `value = float(ops(P)) / (largest elapsed time absolute_time - start_time in P)`, that time being positive. -/
def ValuesArePrefixRates (fix : Bool) : Prop :=
  ∀ (bi : Nat) (batches : List (List TSample)), Computed batches →
    ∀ t, (run fix bi none batches).1 = some t →
      ∀ k outs, (run fix bi none batches).2[k]? = some outs →
        ∀ o ∈ outs, ValueSpec t.start (fedUpTo batches k) o

/-! ## 1. counting: every operation exactly once, for every cutting into batches -/

theorem ops_conserved : OpsConserved current := by
  intro bi batches hc t ht
  have h := (run_spec bi batches none [] rfl (by simp) hc).1
  rw [show run true bi none batches = run current bi none batches from rfl, ht, List.nil_append] at h
  exact (h : Inv t batches.flatten).acct

/-- numeric form: `total_count + ops(unprocessed) = ops(everything fed so far)` -/
theorem ops_conserved_sum (bi : Nat) (batches : List (List TSample)) (hc : Computed batches)
    (t : TaskStats) (ht : (run current bi none batches).1 = some t) :
    t.total + sumOps t.unprocessed = sumOps batches.flatten := by
  obtain ⟨P, hperm, htot⟩ := ops_conserved bi batches hc t ht
  rw [htot, ← sumOps_append]
  exact sumOps_perm hperm

theorem value_is_prefix_rate : ValuesArePrefixRates current := by
  intro bi batches hc t ht k outs hk o ho
  have h := (run_spec bi batches none [] rfl (by simp) hc).2.1 t ht k outs hk o ho
  simpa [fedUpTo] using h

/-- the per-task state exists as soon as one sample has been fed -/
theorem state_exists (bi : Nat) (batches : List (List TSample)) (hc : Computed batches)
    (h : (run current bi none batches).1 = none) : batches.flatten = [] := by
  have h1 := (run_spec bi batches none [] rfl (by simp) hc).1
  rw [show run true bi none batches = run current bi none batches from rfl, h, List.nil_append] at h1
  exact h1

/-- non-vacuity (`witness`: four one-sample calls, requests of 10 operations ending 0.5 s, 0.625 s, 0.75 s and 1 s
    after the task started): 40 counted operations at the end, nothing carried, values 20/s (final-sample rule,
    first call) and 40/s (bucket complete at 1 s); after the first three calls two samples are carried over -/
example : Computed witness ∧
    (run current 1 none witness).1.map (fun t => (t.total, t.unprocessed.length)) = some (40, 0) ∧
    (run current 1 none witness).2.map (fun l => l.map (·.value)) = [[some 20], [], [], [some 40]] ∧
    (run current 1 none (witness.take 3)).1.map (fun t => (t.total, t.unprocessed.length)) = some (10, 2) :=
  ⟨witness_computed, by decide +kernel⟩

/-! ## 2. existence of a normal value, sign, order of sample types, unit -/

/-- every calculated value exists and is non-negative -/
theorem values_nonneg (bi : Nat) (batches : List (List TSample)) (hc : Computed batches) :
    ∀ o ∈ (run current bi none batches).2.flatten, ∃ v, o.value = some v ∧ 0 ≤ v := by
  have h := (run_gspec current bi batches none [] [] ⟨rfl, rfl⟩ (by simp) hc).1
  rw [List.nil_append, List.nil_append] at h
  cases hr : (run current bi none batches).1 with
  | none => rw [hr] at h; rw [h.2]; simp
  | some t => rw [hr] at h; exact (h : GInv t _ _).vals

/-- over all calls, in emission order, a warm-up value never follows a normal value -/
theorem types_monotone (bi : Nat) (batches : List (List TSample)) (hc : Computed batches) :
    (run current bi none batches).2.flatten.Pairwise (fun a b => a.normal = true → b.normal = true) := by
  have h := (run_gspec current bi batches none [] [] ⟨rfl, rfl⟩ (by simp) hc).1
  rw [List.nil_append, List.nil_append] at h
  cases hr : (run current bi none batches).1 with
  | none => rw [hr] at h; rw [h.2]; exact List.Pairwise.nil
  | some t => rw [hr] at h; exact (h : GInv t _ _).outs_mono

/-- every tuple of call `k` carries the times of a sample fed by then and the unit `<ops unit>/s` of that sample -/
theorem unit_suffix (bi : Nat) (batches : List (List TSample)) (hc : Computed batches)
    (k : Nat) (outs : List Out) (hk : (run current bi none batches).2[k]? = some outs) :
    ∀ o ∈ outs, ∃ s ∈ fedUpTo batches k, s.abs = o.abs ∧ s.rel = o.rel ∧ o.unit = s.unit ++ ['/', 's'] := by
  intro o ho
  have hc' : ∀ b ∈ batches.take (k + 1), ∀ s ∈ b, s.tput = none := fun b hb => hc b (List.mem_of_mem_take hb)
  have h := (run_gspec current bi (batches.take (k + 1)) none [] [] ⟨rfl, rfl⟩ (by simp) hc').1
  rw [List.nil_append, List.nil_append, run_take] at h
  have hmem : o ∈ ((run current bi none batches).2.take (k + 1)).flatten := by
    rw [List.mem_flatten]
    refine ⟨outs, ?_, ho⟩
    rw [List.mem_iff_getElem?]
    refine ⟨k, ?_⟩
    rw [List.getElem?_take]
    simp [hk]
  cases hr : (run current bi none (batches.take (k + 1))).1 with
  | none => rw [hr] at h; rw [h.2] at hmem; simp at hmem
  | some t => rw [hr] at h; exact (h : GInv t _ _).emitter o hmem

/-- a task that has been fed a normal-type sample by call `k` and for which positive time has elapsed (some fed
    sample has `absolute_time - start_time > 0`) has at least one normal-type value among the tuples emitted by
    the calls `0 … k` -/
theorem normal_value_exists (bi : Nat) (batches : List (List TSample)) (hc : Computed batches)
    (k : Nat) (t : TaskStats) (ht : (run current bi none (batches.take (k + 1))).1 = some t)
    (hn : ∃ s ∈ fedUpTo batches k, s.normal = true)
    (hp : ∃ s ∈ fedUpTo batches k, 0 < elapsed t.start s) :
    ∃ o ∈ ((run current bi none batches).2.take (k + 1)).flatten, o.normal = true := by
  have hc' : ∀ b ∈ batches.take (k + 1), ∀ s ∈ b, s.tput = none := fun b hb => hc b (List.mem_of_mem_take hb)
  have h := (run_gspec current bi (batches.take (k + 1)) none [] [] ⟨rfl, rfl⟩ (by simp) hc').1
  rw [List.nil_append, List.nil_append, run_take, ← run_take, ht] at h
  have g : GInv t _ _ := h
  obtain ⟨s, hs, hsn⟩ := hn
  obtain ⟨s', hs', hsp⟩ := hp
  have hnorm : t.normal = true := g.normal_seen s hs hsn
  have hpos : 0 < t.interval := lt_of_lt_of_le hsp (g.bound s' hs')
  obtain ⟨o, ho, hon⟩ := g.has_out (g.has_pos hpos)
  rw [run_take] at ho
  exact ⟨o, ho, hon.trans hnorm⟩

/-- non-vacuity: a warm-up sample then a normal one in the next call — the second value is of normal type although
    its bucket is not complete, both values non-negative, units `docs/s` -/
example : (run current 1 none [[{ wS (201/2) (1/2) with normal := false }], [wS (805/8) (5/8)]]).2.map
    (fun l => l.map (fun o => (o.normal, o.value, o.unit))) =
      [[(false, some 20, ['d', 'o', 'c', 's', '/', 's'])], [(true, some 32, ['d', 'o', 'c', 's', '/', 's'])]] := by
  decide +kernel

/-! ## 3. runner-supplied throughput is passed through unchanged -/

/-- with runner-supplied throughput no state is kept and call `k` returns exactly one tuple per sample of the
    call, in (stable) time order, carrying the sample's own throughput, type and times -/
theorem passthrough (bi : Nat) (batches : List (List TSample)) (hs : Supplied batches) :
    (run current bi none batches).1 = none ∧
    (run current bi none batches).2 = batches.map (fun b => (sortByAbs b).map (fun s =>
      { abs := s.abs, rel := s.rel, normal := s.normal, value := s.tput, unit := s.unit ++ ['/', 's'] })) ∧
    ∀ b ∈ batches, (sortByAbs b).Perm b := by
  rw [run_supplied current bi batches hs]
  exact ⟨rfl, rfl, fun b _ => sortByAbs_perm b⟩

example : Supplied [[{ wS 101 1 with tput := some 8000 }, { wS (201/2) (1/2) with tput := some (-3) }]] ∧
    (run current 1 none [[{ wS 101 1 with tput := some 8000 }, { wS (201/2) (1/2) with tput := some (-3) }]]).2.map
      (fun l => l.map (·.value)) = [[some (-3), some 8000]] := by
  unfold Supplied
  decide +kernel

/-! ## 4. several tasks: `calculate` with the `task_stats` dictionary -/

/-- Successive `calculate(samples)` calls on one calculator with samples of any number of tasks mixed in any
    order: seen from task `k`, the state kept for `k` and the tuples returned under `k` in every call are exactly
    those of the single-task run on the sub-sequence of `k`'s samples (a call without samples of `k` is the empty
    batch, which changes nothing and returns nothing).  All theorems above therefore apply per task. -/
theorem task_independence (bi : Nat) (calls : List (List (Nat × TSample))) (k : Nat) :
    lookupStats k (runAll current bi [] calls).1 = (run current bi none (calls.map (samplesOf k))).1 ∧
    (runAll current bi [] calls).2.map (outsOf k) = (run current bi none (calls.map (samplesOf k))).2 :=
  runAll_task current bi k calls []

/-- non-vacuity: two tasks interleaved in the same calls; task 7 gets the values of `witness`, task 3 its own -/
example : (runAll current 1 [] [[(7, wS (201/2) (1/2)), (3, wS 200 1)], [(3, wS 201 2), (7, wS (805/8) (5/8))],
      [(7, wS (403/4) (3/4))], [(7, wS 101 1)]]).2.map (fun c => c.map (fun ko => (ko.1, ko.2.map (·.value)))) =
    [[(7, [some 20]), (3, [some 10])], [(3, [some 10]), (7, [])], [(7, [])], [(7, [some 40])]] := by
  decide +kernel

/-! ## 5. the owner of the calculator: `SamplePostprocessor`, the driver's buffer — batching is irrelevant

`postprocessAll` is `SamplePostprocessor.__call__` over successive batches (throughput records that reach the metrics
store), `driverRun` puts `Driver.update_samples` / `Driver.post_process_samples` in front of it.  The calculator state
(`task_stats`) is the only thing carried from one batch to the next, it is carried *unchanged*, and no field of a sample
other than those in `TSample` (not `percent_completed`, not the client id) can influence it. -/

/-- the throughput records written to the store for task `k` by each post-processing run, and the state kept for `k`,
    are those of the single-task run over `k`'s samples of each batch; sections 1–3 therefore speak about the store -/
theorem store_records_per_task (calls : List (List (Nat × TSample))) (k : Nat) :
    (postprocessAll [] calls).2.map (recsOf k) = (run current 1 none (calls.map (samplesOf k))).2 ∧
    lookupStats k (postprocessAll [] calls).1 = (run current 1 none (calls.map (samplesOf k))).1 :=
  ⟨(postprocessAll_task k calls []).2, (postprocessAll_task k calls []).1⟩

/-- every interleaving of worker shipments and post-processing runs is the post-processor applied to a cutting of the
    shipped stream: nothing is lost, duplicated or reordered by the buffer (the tail not yet post-processed is buffered) -/
theorem driver_is_a_cutting (evs : List DEvent) :
    (driverRun [] [] evs).2 = (postprocessAll [] (driverBatches [] evs)).2 ∧
    (driverBatches [] evs).flatten ++ (driverRun [] [] evs).1.1 = shipped evs := by
  refine ⟨(driverRun_eq evs [] []).1, ?_⟩
  simpa using driverBatches_flatten evs [] []

/-- **End to end.** For every interleaving of shipments (any clients, any tasks mixed) and post-processing runs, and every
    task `k` whose throughput is calculated: operations counted + operations carried over + operations still in the
    driver's buffer = operations shipped for `k`.  Every operation is accounted for exactly once, wherever the
    post-processing runs happened to cut the stream. -/
theorem driver_counts_every_operation_once (evs : List DEvent) (k : Nat)
    (hcomp : ∀ s ∈ samplesOf k (shipped evs), s.tput = none)
    (t : TaskStats) (ht : lookupStats k (driverRun [] [] evs).1.2 = some t) :
    t.total + sumOps t.unprocessed + sumOps (samplesOf k (driverRun [] [] evs).1.1) = sumOps (samplesOf k (shipped evs)) := by
  have hcut := driverBatches_flatten evs [] []
  rw [List.nil_append] at hcut
  have hk : samplesOf k (shipped evs) =
      ((driverBatches [] evs).map (samplesOf k)).flatten ++ samplesOf k (driverRun [] [] evs).1.1 := by
    rw [← hcut, samplesOf_append, samplesOf_flatten]
  have hc : Computed ((driverBatches [] evs).map (samplesOf k)) := by
    intro b hb s hs
    apply hcomp s
    rw [hk]
    exact List.mem_append_left _ (List.mem_flatten.mpr ⟨b, hb, hs⟩)
  rw [(driverRun_eq evs [] []).2, (postprocessAll_task k (driverBatches [] evs) []).1] at ht
  have := ops_conserved_sum 1 _ hc t ht
  rw [hk, sumOps_append, ← this]

/-- two cuttings of the same stream end with the same number of operations accounted for (counted + carried) -/
theorem count_independent_of_batching (bi : Nat) (b1 b2 : List (List TSample)) (hflat : b1.flatten = b2.flatten)
    (hc : Computed b1) (t1 t2 : TaskStats)
    (h1 : (run current bi none b1).1 = some t1) (h2 : (run current bi none b2).1 = some t2) :
    t1.total + sumOps t1.unprocessed = t2.total + sumOps t2.unprocessed := by
  have hc2 : Computed b2 := by
    intro b hb s hs
    have hmem : s ∈ b1.flatten := by rw [hflat]; exact List.mem_flatten.mpr ⟨b, hb, hs⟩
    obtain ⟨b', hb', hs'⟩ := List.mem_flatten.mp hmem
    exact hc b' hb' s hs'
  rw [ops_conserved_sum bi b1 hc t1 h1, ops_conserved_sum bi b2 hc2 t2 h2, hflat]

/-- a tuple emitted (by any call, under any cutting) for the one sample that is not earlier than any other sample fed so
    far is `float(ops of everything fed so far) / largest elapsed time`: the cutting does not enter -/
theorem latest_value_counts_everything (bi : Nat) (batches : List (List TSample)) (hc : Computed batches)
    (t : TaskStats) (ht : (run current bi none batches).1 = some t)
    (k : Nat) (outs : List Out) (hk : (run current bi none batches).2[k]? = some outs) (o : Out) (ho : o ∈ outs)
    (hl : (fedUpTo batches k).countP (fun x => decide (o.abs ≤ x.abs)) = 1) :
    ∃ iv, IsMaxElapsed t.start (fedUpTo batches k) iv ∧ 0 < iv ∧
      o.value = some (Dbl.fdiv (Dbl.ofNat (sumOps (fedUpTo batches k))) iv) :=
  valueSpec_latest (value_is_prefix_rate bi batches hc t ht k outs hk o ho) hl

/-- **The transport is a cutting.** Samplers accept, workers ship (a shipment drains the worker's samplers completely),
    messages are delivered (per worker in order), the driver post-processes — in ANY interleaving: the records written are those
    of the post-processor over the batches the runs cut (`store_records_per_task` applies), and these batches together with
    what is still queued, in flight or buffered are exactly the accepted samples, each once. -/
theorem transport_is_a_cutting (evs : List TEvent) :
    trecords .empty evs = (postprocessAll [] (tbatches .empty evs)).2 ∧
    ((tbatches .empty evs).flatten ++ (tfinal .empty evs).held).Perm (acceptedOf evs) := by
  refine ⟨(transport_records evs .empty).1, ?_⟩
  simpa [TState.held, TState.empty] using transport_perm evs .empty

/-- **End to end over the transport.** For every interleaving of sampling, shipping, delivery and post-processing, on any number
    of workers, and every task `k` whose throughput is calculated: operations counted + carried over + still held somewhere
    between a sampler and the calculator = operations of the samples the samplers accepted for `k`. -/
theorem transport_counts_every_operation_once (evs : List TEvent) (k : Nat)
    (hcomp : ∀ s ∈ samplesOf k (acceptedOf evs), s.tput = none)
    (t : TaskStats) (ht : lookupStats k (tfinal .empty evs).stats = some t) :
    t.total + sumOps t.unprocessed + sumOps (samplesOf k (tfinal .empty evs).held) = sumOps (samplesOf k (acceptedOf evs)) := by
  have hperm := samplesOf_perm k (transport_is_a_cutting evs).2
  rw [samplesOf_append, samplesOf_flatten] at hperm
  have hc : Computed ((tbatches .empty evs).map (samplesOf k)) := by
    intro b hb s hs
    apply hcomp s
    exact hperm.subset (List.mem_append_left _ (List.mem_flatten.mpr ⟨b, hb, hs⟩))
  rw [(transport_records evs .empty).2] at ht
  have hst : (TState.empty).stats = [] := rfl
  rw [hst, (postprocessAll_task k (tbatches .empty evs) []).1] at ht
  have h := ops_conserved_sum 1 _ hc t ht
  rw [← sumOps_perm hperm, sumOps_append, ← h]

/-- non-vacuity: two workers, a message overtaken by a post-processing run, one sample still in a sampler at the end -/
example : (trecords .empty [.accept 0 (7, wS (201/2) (1/2)), .ship 0, .accept 1 (7, wS (805/8) (5/8)), .ship 1, .deliver 1,
      .postProcess, .deliver 0, .accept 0 (7, wS 101 1), .ship 0, .deliver 0, .postProcess, .accept 1 (7, wS 102 2)]).map
        (fun c => c.map (fun ko => ko.2.value)) = [[some 16], [some 30]] ∧
    (tfinal .empty [.accept 0 (7, wS (201/2) (1/2)), .ship 0, .accept 1 (7, wS 102 2)]).held.length = 2 := by
  decide +kernel

/-- **A failing metrics store.** `Driver.post_process_samples` lets the store's error pass: the race is aborted.  What the
    aborted race has written is, run by run, what the healthy race writes, the run hit by the fault being cut short
    (a prefix of its records) and nothing coming after it.  Sections 1–3 hold for every record that was written. -/
theorem aborted_race_reports_a_prefix (evs : List FEvent) (i : Nat) (recs : List (Nat × Out))
    (h : (driverRunF [] [] evs)[i]? = some recs) :
    ∃ full, (driverRun [] [] (evs.map healed)).2[i]? = some full ∧ recs <+: full :=
  driverRunF_prefix evs [] [] i recs h

/-- **Post-processing is not idempotent — a batch must never be handed to the calculator twice.**  If a batch `b` that
    has been post-processed is put back and submitted again together with the next batch `nxt` (what a "retry with the next
    batch" after a failed `flush()` would do), the calculator accounts for `ops(b)` more operations than were shipped, for
    the rest of the task.  That is why the only sound reaction to a store failure after `calculate()` is to abort. -/
theorem resubmission_double_counts (bi : Nat) (pre post : List (List TSample)) (b nxt : List TSample)
    (hc : Computed (pre ++ [b, b ++ nxt] ++ post)) (t : TaskStats)
    (ht : (run current bi none (pre ++ [b, b ++ nxt] ++ post)).1 = some t) :
    t.total + sumOps t.unprocessed = sumOps (pre ++ [b, nxt] ++ post).flatten + sumOps b := by
  rw [ops_conserved_sum bi _ hc t ht]
  simp only [List.flatten_append, List.flatten_cons, List.flatten_nil, List.append_nil, sumOps_append]
  omega

/-- non-vacuity: the second request of `witness` re-submitted with the third: 50 operations accounted for, 40 shipped;
    and a store that fails after the first record of the second run: one record of that run, nothing afterwards -/
example : (run current 1 none [[wS (201/2) (1/2)], [wS (805/8) (5/8)], [wS (805/8) (5/8), wS (403/4) (3/4)], [wS 101 1]]).1.map
      (fun t => t.total + sumOps t.unprocessed) = some 50 ∧
    (driverRunF [] [] [.update [(7, wS (201/2) (1/2))], .postProcess, .update [(7, wS 101 1), (7, wS 102 2)],
      .faultyRun (some 1), .update [(7, wS 103 3)], .postProcess]).map (fun c => c.map (fun ko => ko.2.value)) =
      [[some 20], [some 20]] := by
  decide +kernel

/-- non-vacuity: two clients of task 7 (and a task 3) shipped worker by worker, post-processing runs in between, one of
    them with an empty buffer; the store gets 20/s, then 40/s for task 7 once the bucket is complete — the same values as
    `witness` in one piece — and one sample stays buffered -/
example : (driverRun [] [] [.update [(7, wS (201/2) (1/2)), (3, wS 200 1)], .postProcess, .postProcess,
      .update [(7, wS (805/8) (5/8))], .update [(3, wS 201 2), (7, wS (403/4) (3/4))], .postProcess,
      .update [(7, wS 101 1)], .postProcess, .update [(7, wS 102 2)]]).2.map
        (fun c => c.map (fun ko => (ko.1, ko.2.value))) =
      [[(7, some 20), (3, some 10)], [], [(7, none), (3, some 10)].drop 1, [(7, some 40)]] ∧
    (driverRun [] [] [.update [(7, wS (201/2) (1/2))], .postProcess, .update [(7, wS 102 2)]]).1.1.length = 1 := by
  decide +kernel

/-! ## 6. before the calculator: the runner's result reaches the sample unchanged

`RResult` / `resultOps` / `sampleOf` model `execute_single`, `request_meta_data.pop("throughput", None)` in
`AsyncExecutor.__call__` and `Sampler.add`, as far as the throughput calculation is concerned. -/

/-- whatever number the runner puts under `"throughput"` — 0 included — is the sample's throughput; weight and unit
    are the runner's (defaults 1 and "ops") -/
theorem supplied_throughput_reaches_sample (tm : Timing) (w : Option Nat) (u : Option (List Char)) (v : Rat) :
    (sampleOf tm (.dict w u (some (some v)))).tput = some v ∧
    (sampleOf tm (.dict w u (some (some v)))).ops = w.getD 1 ∧
    (sampleOf tm (.dict w u (some (some v)))).unit = u.getD ['o', 'p', 's'] :=
  ⟨rfl, rfl, rfl⟩

/-- no entry, an entry `None`, a tuple, any other return value and a failed request all mean "calculate" -/
theorem no_supplied_throughput (tm : Timing) (w : Option Nat) (u : Option (List Char)) (n : Nat) (un : List Char) :
    (sampleOf tm (.dict w u none)).tput = none ∧ (sampleOf tm (.dict w u (some none))).tput = none ∧
    (sampleOf tm (.pair n un)).tput = none ∧ (sampleOf tm .other).tput = none ∧ (sampleOf tm .failed).tput = none :=
  ⟨rfl, rfl, rfl, rfl, rfl⟩

/-- **Pass-through end to end.** A task whose runner supplies a throughput with every call (any numbers, zero, negative,
    tiny, huge): whatever the cutting into batches, no state is kept, call `k` returns one tuple per sample of the call in
    stable time order carrying the sample's times, type, `<unit>/s`, and as value exactly what the runner supplied for
    that call (`supplied`), each supplied value once. -/
theorem supplied_throughput_end_to_end (bi : Nat) (batches : List (List (Timing × RResult)))
    (hs : ∀ b ∈ batches, ∀ x ∈ b, supplied x.2 ≠ none) :
    (run current bi none (batches.map (List.map (fun x => sampleOf x.1 x.2)))).1 = none ∧
    (run current bi none (batches.map (List.map (fun x => sampleOf x.1 x.2)))).2 =
      batches.map (fun b => (sortByAbs (b.map (fun x => sampleOf x.1 x.2))).map (fun s =>
        { abs := s.abs, rel := s.rel, normal := s.normal, value := s.tput, unit := s.unit ++ ['/', 's'] })) ∧
    ∀ b ∈ batches, ((sortByAbs (b.map (fun x => sampleOf x.1 x.2))).map (·.tput)).Perm (b.map (fun x => supplied x.2)) := by
  have hsup : Supplied (batches.map (List.map (fun x => sampleOf x.1 x.2))) := by
    intro b hb s hs'
    obtain ⟨b0, hb0, rfl⟩ := List.mem_map.mp hb
    obtain ⟨x, hx, rfl⟩ := List.mem_map.mp hs'
    exact hs b0 hb0 x hx
  obtain ⟨h1, h2, _⟩ := passthrough bi _ hsup
  refine ⟨h1, ?_, ?_⟩
  · rw [h2, List.map_map]; rfl
  · intro b _
    have := (sortByAbs_perm (b.map (fun x => sampleOf x.1 x.2))).map (·.tput)
    simpa [List.map_map, Function.comp_def, sampleOf] using this

/-- **Elapsed time is measured from the start of the task, whichever client's sample comes first.**  The executor reads
    `total_start` before the ramp-up wait, so for every sample `absolute_time - time_period` — what the calculator takes as
    the task's start when the sample happens to be the earliest of the first batch — is the wall-clock time at which the
    client's executor started on the task, minus the span of that one request; the ramp-up wait does not enter. -/
theorem task_start_independent_of_ramp_up (c : ReqClock) (n : Bool) :
    (execTiming c n).abs - (execTiming c n).period = (c.epoch + c.totalStart) - (c.requestEnd - c.processingStart) := by
  simp only [execTiming]; ring

/-- with the start taken from sample `f`, the elapsed time of a sample `s` of any client that started on the task at the
    same instant is the time from the task's start to `s`'s request, plus the span of `f`'s request -/
theorem elapsed_since_task_start (f s : ReqClock) (hT : f.totalStart = s.totalStart) (hE : f.epoch = s.epoch) (n m : Bool) :
    (execTiming s m).abs - ((execTiming f n).abs - (execTiming f n).period) =
      (s.processingStart - s.totalStart) + (f.requestEnd - f.processingStart) := by
  simp only [execTiming, hT, hE]; ring

/-- non-vacuity: a polling runner that is idle between some polls reports 0, 250, 0; the store gets exactly 0, 250, 0 —
    in one batch and in two; a batch that *starts* with an idle poll is still passed through -/
example :
    (run current 1 none [[({ abs := 101, rel := 1, period := 1, normal := true }, RResult.dict (some 100) none (some (some 0))),
        ({ abs := 102, rel := 2, period := 2, normal := true }, RResult.dict (some 100) none (some (some 250))),
        ({ abs := 103, rel := 3, period := 3, normal := true }, RResult.dict (some 100) none (some (some 0)))].map
          (fun x => sampleOf x.1 x.2)]).2.map (fun l => l.map (fun o => (o.value, o.unit))) =
      [[(some 0, ['o', 'p', 's', '/', 's']), (some 250, ['o', 'p', 's', '/', 's']), (some 0, ['o', 'p', 's', '/', 's'])]] ∧
    (run current 1 none [[sampleOf { abs := 101, rel := 1, period := 1, normal := true } (.dict (some 100) none (some (some 0)))],
        [sampleOf { abs := 102, rel := 2, period := 2, normal := true } (.dict (some 100) none (some (some 250)))]]).2.map
          (fun l => l.map (·.value)) = [[some 0], [some 250]] := by
  decide +kernel

/-! ## 6b. the configuration in front of the post-processor, and the time stamp of a throttled request -/

/-- **The down-sampling option never reaches the throughput.**  Whatever `reporting/metrics.request.downsample.factor` is
    set to (absent, 1, 2, … any number) and for every interleaving of worker shipments and post-processing runs: the
    throughput records of every run, the driver's buffer and the calculator's state are those of the race without the
    option; the option only selects, run by run, which samples of the batch get request-metric records (every
    `factor`-th one, counted from the start of the batch). -/
theorem throughput_independent_of_downsampling (opt : Option Nat) (evs : List DEvent) :
    (driverRunCfg opt [] [] evs).2.map (·.2) = (driverRun [] [] evs).2 ∧
    (driverRunCfg opt [] [] evs).1 = (driverRun [] [] evs).1 ∧
    (driverRunCfg opt [] [] evs).2.map (·.1) = (driverBatches [] evs).map (requestMetricSamples (downsampleFactor opt)) :=
  driverRunCfg_eq opt evs [] []

example : (driverRunCfg (some 2) [] [] [.update [(0, { abs := 101, rel := 1, period := 1, ops := 10, unit := ['d'], normal := true, tput := none }),
      (0, { abs := 102, rel := 2, period := 2, ops := 10, unit := ['d'], normal := true, tput := none })], .postProcess]).2.map
        (fun r => (r.1.length, r.2.map (·.2.value))) = [(1, [some 10, some 10])] := by
  decide +kernel

/-- with the option set, the samples with request-metric records are a sub-list of the batch (nothing invented), and
    with the option absent or 1 they are the whole batch -/
theorem downsampling_selects_from_the_batch (opt : Option Nat) (raw : List (Nat × TSample)) :
    (requestMetricSamples (downsampleFactor opt) raw).Sublist raw ∧
    (requestMetricSamples (downsampleFactor none) raw = raw ∧ requestMetricSamples (downsampleFactor (some 1)) raw = raw) :=
  ⟨everyNthFrom_sublist _ raw 0, everyNthFrom_one raw 0, everyNthFrom_one raw 0⟩

example : requestMetricSamples (downsampleFactor (some 3)) [0, 1, 2, 3, 4, 5, 6] = [0, 3, 6] := by decide

/-- **End to end with the option.**  For every value of the down-sampling option, every interleaving of shipments and
    post-processing runs and every task `k` whose throughput is calculated: operations counted + carried over + still in
    the driver's buffer = operations shipped for `k`. -/
theorem downsampled_race_counts_every_operation_once (opt : Option Nat) (evs : List DEvent) (k : Nat)
    (hcomp : ∀ s ∈ samplesOf k (shipped evs), s.tput = none)
    (t : TaskStats) (ht : lookupStats k (driverRunCfg opt [] [] evs).1.2 = some t) :
    t.total + sumOps t.unprocessed + sumOps (samplesOf k (driverRunCfg opt [] [] evs).1.1) = sumOps (samplesOf k (shipped evs)) := by
  rw [(driverRunCfg_eq opt evs [] []).2.1] at ht ⊢
  exact driver_counts_every_operation_once evs k hcomp t ht

example : ((lookupStats 0 (driverRunCfg (some 2) [] [] [.update [(0, { abs := 101, rel := 1, period := 1, ops := 10, unit := ['d'], normal := true, tput := none }),
      (0, { abs := 102, rel := 2, period := 2, ops := 10, unit := ['d'], normal := true, tput := none })], .postProcess]).1.2).map (·.total)) = some 20 := by
  decide +kernel

/-- **The time stamp of a sample is the clock at the start of the request.**  `absolute_time` of the sample of a request
    whose schedule said `expected` and whose client was free at `free`: unthrottled (`expected ≤ 0`) it is the wall clock at
    `free`; throttled it is the wall clock at the later of `free` and the scheduled point `totalStart + expected` — in
    particular the wall clock at `free`, NOT the schedule, when the client is behind schedule. -/
theorem stamp_is_clock_at_request_start (epoch totalStart samplerStart free expected lat svc : Rat) (normal : Bool) :
    let tm := execTiming (reqClockAt epoch totalStart samplerStart (throttleStart totalStart free expected) lat svc) normal
    (0 < expected → tm.abs = epoch + max free (totalStart + expected)) ∧
    (¬ 0 < expected → tm.abs = epoch + free) ∧
    (totalStart + expected ≤ free → tm.abs = epoch + free) ∧
    epoch + free ≤ tm.abs := by
  refine ⟨fun he => ?_, fun he => ?_, fun hb => ?_, ?_⟩
  · show epoch + throttleStart totalStart free expected = _
    rw [throttleStart_eq_max _ _ _ he]
  · show epoch + throttleStart totalStart free expected = _
    rw [throttleStart_unthrottled _ _ _ he]
  · show epoch + throttleStart totalStart free expected = _
    by_cases he : 0 < expected
    · rw [throttleStart_eq_max _ _ _ he, max_eq_left hb]
    · rw [throttleStart_unthrottled _ _ _ he]
  · show epoch + free ≤ epoch + throttleStart totalStart free expected
    have := throttleStart_ge_free totalStart free expected
    linarith

example : (execTiming (reqClockAt 1000 50 50 (throttleStart 50 53 (1/2)) 0 (1/4)) true).abs = 1053 ∧
    (execTiming (reqClockAt 1000 50 50 (throttleStart 50 (50 + 1/4) (1/2)) 0 (1/4)) true).abs = 1050 + 1/2 := by
  decide +kernel

/-- **Elapsed time cannot run ahead of the work done.**  For every client, every schedule (throttled or not, on or behind
    schedule) and every list of requests: the time stamp of the client's `i`-th sample, minus the wall clock at which the
    client started on the task, is at least the time its earlier requests kept it busy.  So the elapsed time the
    calculator derives from the samples of a task that cannot keep up with its target throughput is the time that really
    passed, and the reported throughput is the achieved one, not the target. -/
theorem elapsed_covers_the_work_done (epoch totalStart samplerStart lat svc : Rat) (qs : List SchedReq) (i : Nat)
    (h : i < (clientRun totalStart totalStart qs).length) :
    sumBusy (qs.take i) ≤
      (execTiming (reqClockAt epoch totalStart samplerStart ((clientRun totalStart totalStart qs)[i]'h).1 lat svc) true).abs
        - (epoch + totalStart) := by
  show sumBusy (qs.take i) ≤ epoch + ((clientRun totalStart totalStart qs)[i]'h).1 - (epoch + totalStart)
  have := clientRun_start_ge totalStart qs totalStart i h
  linarith

/-- a client with a target interval of 1/10 s whose requests take 1/4 s: the third request is stamped 1/2 s after the
    start (the clock), not 2/10 s (the schedule) -/
example : (clientRun 50 50 [⟨0, 1/4⟩, ⟨1/10, 1/4⟩, ⟨2/10, 1/4⟩]).map (·.1) = [50, 50 + 1/4, 50 + 1/2] ∧
    (clientRun 50 50 [⟨0, 1/4⟩, ⟨1, 1/4⟩, ⟨2, 1/4⟩]).map (·.1) = [50, 51, 52] := by
  decide +kernel

/-! ## 7. historical witness: the code before /repo commit d4fc0e7 (`fix = false`) -/

/-- HISTORICAL (not about the current code).  Before commit d4fc0e7 conservation was false: on `witness` the
    sample of the second call was carried into the third call, which completed no bucket and appended it to
    `unprocessed` again, so the calculator ended with 50 counted operations out of 40 fed
    (`Throughput.witness_double_count`) and reported 50 docs/s instead of 40 docs/s. -/
theorem historical_unrepaired_not_conserved : ¬ OpsConserved false := by
  intro h
  cases ht : (run false 1 none witness).1 with
  | none =>
    have := witness_double_count.1
    rw [ht] at this
    simp at this
  | some t =>
    obtain ⟨P, hperm, htot⟩ := h 1 witness witness_computed t ht
    have h1 : t.total + sumOps t.unprocessed = sumOps witness.flatten := by
      rw [htot, ← sumOps_append]; exact sumOps_perm hperm
    have h2 := witness_double_count.1
    rw [ht] at h2
    simp only [Option.map_some, Option.some.injEq] at h2
    rw [witness_double_count.2.1] at h1
    omega

end C06
