import RallyModel.Versions
import RallyProofs.Versions
/-!
# C15 — the track/team branch used is the documented best match for the ES version

Property theorems only (helper lemmas live in `RallyProofs/Versions.lean`).  The theorems
quantify over **every** list of branch names `alts` and every version; `cs` is the list of
version-shaped branches among them as parsed by `components(strict=False)`.
`Pick` names the rule that fired; `renderPick` turns it into the branch name `best_match` returns.
-/
namespace C15
open Versions

/-- `k` is the minor of a plain `M.k` branch (no patch, no suffix) with `k ≤ m` — *including `k = 0`*. -/
def PriorMinor (cs : List Comp) (M m k : Nat) : Prop :=
  (⟨M, some k, none, none⟩ : Comp) ∈ cs ∧ k ≤ m

/-- `k` is the nearest prior minor: a prior minor that no other prior minor exceeds. -/
def NearestPriorMinor (cs : List Comp) (M m k : Nat) : Prop :=
  PriorMinor cs M m k ∧ ∀ j, PriorMinor cs M m j → j ≤ k

def suffixHit (alts : List Str) (v : Variants) : Prop := ∃ w, v.withSuffix = some w ∧ w ∈ alts

/-- The documented precedence (docs/track.rst, "track-repositories-branch-logic") as a relation
    between the inputs and the rule that decides. -/
inductive Chosen (alts : List Str) (cs : List Comp) (v : Variants) : Pick → Prop
  | suffix (w : Str) : v.withSuffix = some w → w ∈ alts → Chosen alts cs v (.suffix w)
  | patch : ¬ suffixHit alts v → v.withPatch ∈ alts → Chosen alts cs v .patch
  | minor : ¬ suffixHit alts v → v.withPatch ∉ alts → v.withMinor ∈ alts → Chosen alts cs v .minor
  | priorMinor (k : Nat) : ¬ suffixHit alts v → v.withPatch ∉ alts → v.withMinor ∉ alts →
      NearestPriorMinor cs v.major v.minor k → Chosen alts cs v (.prior k)
  | major : ¬ suffixHit alts v → v.withPatch ∉ alts → v.withMinor ∉ alts →
      (∀ k, ¬ PriorMinor cs v.major v.minor k) → v.withMajor ∈ alts → Chosen alts cs v .major
  | master : ¬ suffixHit alts v → v.withPatch ∉ alts → v.withMinor ∉ alts →
      (∀ k, ¬ PriorMinor cs v.major v.minor k) → v.withMajor ∉ alts →
      (∀ c ∈ cs, c.major < v.major) → Chosen alts cs v .master
  | none : ¬ suffixHit alts v → v.withPatch ∉ alts → v.withMinor ∉ alts →
      (∀ k, ¬ PriorMinor cs v.major v.minor k) → v.withMajor ∉ alts →
      (∃ c ∈ cs, v.major ≤ c.major) → Chosen alts cs v .none

/-- `latest_bounded_minor` returns the nearest prior minor (0 included), or nothing iff there is none. -/
theorem latestBoundedMinor_spec (alts : List Str) (cs : List Comp) (v : Variants)
    (h : parseAlts alts = .ok cs) :
    ∃ r, latestBoundedMinor alts v = .ok r ∧
      match r with
      | some k => NearestPriorMinor cs v.major v.minor k
      | Option.none => ∀ k, ¬ PriorMinor cs v.major v.minor k := by
  refine ⟨maxList (eligibleMinors cs v.major v.minor), by simp [latestBoundedMinor, h, Except.map], ?_⟩
  cases hm : maxList (eligibleMinors cs v.major v.minor) with
  | none =>
    intro k hk
    have := maxList_eq_none.mp hm
    have hk' : k ∈ eligibleMinors cs v.major v.minor := mem_eligibleMinors.mpr hk
    rw [this] at hk'
    exact absurd hk' (by simp)
  | some k =>
    have ⟨h1, h2⟩ := maxList_some hm
    exact ⟨mem_eligibleMinors.mp h1, fun j hj => h2 j (mem_eligibleMinors.mpr hj)⟩

/-- **pick_spec**: for every branch list whose version-shaped names parse, and every version,
    the rule `best_match` applies is exactly the one the documented precedence selects. -/
theorem pick_spec (alts : List Str) (cs : List Comp) (v : Variants)
    (hp : parseAlts alts = .ok cs) :
    ∃ p, pickFor alts v = .ok p ∧ Chosen alts cs v p := by
  unfold pickFor
  by_cases hs : suffixHit alts v
  · obtain ⟨w, hw, hmem⟩ := hs
    have : suffixIn alts v = true := by simp [suffixIn, hw, hmem]
    exact ⟨.suffix w, by simp [this, hw], Chosen.suffix w hw hmem⟩
  · have hs' : suffixIn alts v = false := by
      unfold suffixIn
      cases hw : v.withSuffix with
      | none => rfl
      | some w =>
        simp only [List.contains_eq_mem, decide_eq_false_iff_not]
        intro hmem; exact hs ⟨w, hw, hmem⟩
    by_cases hpa : v.withPatch ∈ alts
    · exact ⟨_, by simp [hs', hpa], Chosen.patch hs hpa⟩
    · by_cases hmi : v.withMinor ∈ alts
      · exact ⟨_, by simp [hs', hpa, hmi], Chosen.minor hs hpa hmi⟩
      · obtain ⟨r, hr, hspec⟩ := latestBoundedMinor_spec alts cs v hp
        cases r with
        | some k =>
          exact ⟨_, by simp [hs', hpa, hmi, hr], Chosen.priorMinor k hs hpa hmi hspec⟩
        | none =>
          by_cases hma : v.withMajor ∈ alts
          · exact ⟨_, by simp [hs', hpa, hmi, hr, hma], Chosen.major hs hpa hmi hspec hma⟩
          · have hlm : latestMajor alts = .ok (cs.foldl (fun m c => max m (c.major : Int)) (-1)) := by
              simp [latestMajor, hp, Except.map]
            by_cases hgt : (v.major : Int) > cs.foldl (fun m c => max m (c.major : Int)) (-1)
            · refine ⟨_, by simp [hs', hpa, hmi, hr, hma, hlm, hgt], Chosen.master hs hpa hmi hspec hma ?_⟩
              intro c hc
              have := (foldl_max_ge cs (-1)).2 c hc
              omega
            · refine ⟨_, by simp [hs', hpa, hmi, hr, hma, hlm, hgt], Chosen.none hs hpa hmi hspec hma ?_⟩
              rcases foldl_max_mem cs (-1) with h | ⟨c, hc, h⟩
              · rw [h] at hgt; omega
              · exact ⟨c, hc, by rw [h] at hgt; omega⟩

/-- **bestMatch_spec**: the returned branch name is the rendering of the documented choice. -/
theorem bestMatch_spec (alts : List Str) (cs : List Comp) (s : Str) (v : Variants)
    (hp : parseAlts alts = .ok cs) (hv : variantsOf s = some v) :
    ∃ p, Chosen alts cs v p ∧ bestMatch alts (some s) = .ok (renderPick v p) := by
  obtain ⟨p, hpk, hc⟩ := pick_spec alts cs v hp
  exact ⟨p, hc, by simp [bestMatch, hv, hpk, Except.map]⟩

/-- The precedence is a function: two rules chosen for the same input are equal. -/
theorem chosen_unique (alts : List Str) (cs : List Comp) (v : Variants) (r r' : Pick)
    (h : Chosen alts cs v r) (h' : Chosen alts cs v r') : r = r' := by
  cases h with
  | suffix w hw hm =>
    have hh : suffixHit alts v := ⟨w, hw, hm⟩
    cases h' with
    | suffix w' hw' _ => rw [hw] at hw'; injection hw' with e; rw [e]
    | patch hs _ => exact absurd hh hs
    | minor hs _ _ => exact absurd hh hs
    | priorMinor k hs _ _ _ => exact absurd hh hs
    | major hs _ _ _ _ => exact absurd hh hs
    | master hs _ _ _ _ _ => exact absurd hh hs
    | none hs _ _ _ _ _ => exact absurd hh hs
  | patch hs hp =>
    cases h' with
    | suffix w hw hm => exact absurd ⟨w, hw, hm⟩ hs
    | patch => rfl
    | _ => contradiction
  | minor hs hp hm =>
    cases h' with
    | suffix w hw hm' => exact absurd ⟨w, hw, hm'⟩ hs
    | minor => rfl
    | _ => contradiction
  | priorMinor k hs hp hm hk =>
    cases h' with
    | suffix w hw hm' => exact absurd ⟨w, hw, hm'⟩ hs
    | priorMinor k' _ _ _ hk' =>
      have : k = k' := Nat.le_antisymm (hk'.2 k hk.1) (hk.2 k' hk'.1)
      rw [this]
    | patch => contradiction
    | minor => contradiction
    | major _ _ _ hn _ => exact absurd hk.1 (hn k)
    | master _ _ _ hn _ _ => exact absurd hk.1 (hn k)
    | none _ _ _ hn _ _ => exact absurd hk.1 (hn k)
  | major hs hp hm hn hma =>
    cases h' with
    | suffix w hw hm' => exact absurd ⟨w, hw, hm'⟩ hs
    | priorMinor k _ _ _ hk => exact absurd hk.1 (hn k)
    | major => rfl
    | _ => contradiction
  | master hs hp hm hn hma hall =>
    cases h' with
    | suffix w hw hm' => exact absurd ⟨w, hw, hm'⟩ hs
    | priorMinor k _ _ _ hk => exact absurd hk.1 (hn k)
    | master => rfl
    | none _ _ _ _ _ hex =>
      obtain ⟨c, hc, hle⟩ := hex
      have := hall c hc
      omega
    | _ => contradiction
  | none hs hp hm hn hma hex =>
    cases h' with
    | suffix w hw hm' => exact absurd ⟨w, hw, hm'⟩ hs
    | priorMinor k _ _ _ hk => exact absurd hk.1 (hn k)
    | none => rfl
    | master _ _ _ _ _ hall =>
      obtain ⟨c, hc, hle⟩ := hex
      have := hall c hc
      omega
    | patch _ hp' => exact absurd hp' hp
    | minor _ _ hm' => exact absurd hm' hm
    | major _ _ _ _ hma' => exact absurd hma' hma

/-- never a branch of another major, never a later minor: whatever is returned is `master`
    or is spelled `M`, `M.k` with `k ≤ m`, `M.m.p` or `M.m.p-s` for the version's own `M.m.p[-s]`. -/
theorem never_other_major_or_later_minor (alts : List Str) (cs : List Comp) (s : Str) (v : Variants) (b : Str)
    (hp : parseAlts alts = .ok cs) (hv : variantsOf s = some v)
    (h : bestMatch alts (some s) = .ok (some b)) :
    b = master ∨ b = v.withMajor ∨ b = v.withPatch ∨ v.withSuffix = some b ∨
      ∃ k, k ≤ v.minor ∧ b = natStr v.major ++ ['.'] ++ natStr k := by
  obtain ⟨p, hc, hb⟩ := bestMatch_spec alts cs s v hp hv
  rw [h] at hb
  injection hb with hb
  cases hc with
  | suffix w hw _ => right; right; right; left; simp [renderPick] at hb; rw [hb]; exact hw
  | patch => right; right; left; simpa [renderPick] using hb
  | minor => right; right; right; right; exact ⟨v.minor, Nat.le_refl _, by simpa [renderPick, Variants.withMinor] using hb⟩
  | priorMinor k _ _ _ hk => right; right; right; right; exact ⟨k, hk.1.2, by simpa [renderPick] using hb⟩
  | major => right; left; simpa [renderPick] using hb
  | master => left; simpa [renderPick] using hb
  | none => simp [renderPick] at hb

/-- the `master` rule fires for a version only if its major is newer than every versioned branch;
    and when it does not and nothing else qualifies, the answer is `none` (→ error / tag lookup). -/
theorem master_only_if_newer (alts : List Str) (cs : List Comp) (v : Variants)
    (hp : parseAlts alts = .ok cs) (h : pickFor alts v = .ok .master) :
    ∀ c ∈ cs, c.major < v.major := by
  obtain ⟨p, hpk, hc⟩ := pick_spec alts cs v hp
  rw [h] at hpk
  injection hpk with hpk
  subst hpk
  cases hc with
  | master _ _ _ _ _ hall => exact hall

/-- unknown / serverless / empty versions use master -/
theorem nonversion_cases (alts : List Str) :
    bestMatch alts Option.none = .ok (some master) ∧
    bestMatch alts (some serverless) = .ok (some master) ∧
    bestMatch alts (some []) = .ok (some master) := by
  have h1 : variantsOf serverless = Option.none := by decide
  have h2 : variantsOf [] = Option.none := by decide
  refine ⟨rfl, ?_, ?_⟩
  · simp [bestMatch, h1]
  · simp [bestMatch, h2, serverless]

/-! repository layer: remote branch first, then local branch, then v-tag, else an explicit error -/

theorem update_remote_first (rb lb tags : List Str) (dv : Option Str) (b : Str)
    (h : bestMatch rb dv = .ok (some b)) :
    repoUpdate true rb lb tags dv = .ok (.remoteBranch b) := by
  simp [repoUpdate, h]

theorem update_local_second (remote : Bool) (rb lb tags : List Str) (dv : Option Str) (b : Str)
    (hr : remote = false ∨ bestMatch rb dv = .ok Option.none)
    (h : bestMatch lb dv = .ok (some b)) :
    repoUpdate remote rb lb tags dv = .ok (.localBranch b) := by
  rcases hr with hr | hr
  · simp [repoUpdate, hr, h]
  · cases remote <;> simp [repoUpdate, hr, h]

theorem update_tag_last (remote : Bool) (rb lb tags : List Str) (dv : Option Str) (t : Str)
    (hr : remote = false ∨ bestMatch rb dv = .ok Option.none)
    (h : bestMatch lb dv = .ok Option.none) (ht : findMatchingTag tags dv = .ok (some t)) :
    repoUpdate remote rb lb tags dv = .ok (.tag t) := by
  rcases hr with hr | hr
  · simp [repoUpdate, hr, h, ht]
  · cases remote <;> simp [repoUpdate, hr, h, ht]

/-- nothing qualifies ⇒ explicit error, never a checkout -/
theorem update_none_is_error (remote : Bool) (rb lb tags : List Str) (dv : Option Str)
    (hr : remote = false ∨ bestMatch rb dv = .ok Option.none)
    (h : bestMatch lb dv = .ok Option.none) (ht : findMatchingTag tags dv = .ok Option.none) :
    repoUpdate remote rb lb tags dv = .error .notFound := by
  rcases hr with hr | hr
  · simp [repoUpdate, hr, h, ht]
  · cases remote <;> simp [repoUpdate, hr, h, ht]

/-- a tag is only ever used in the form `v<variant>` and must exist -/
theorem tag_is_existing_variant (tags : List Str) (s : Str) (t : Str)
    (h : findMatchingTag tags (some s) = .ok (some t)) : t ∈ tags ∧ t.head? = some 'v' := by
  unfold findMatchingTag at h
  cases hv : variantsOf s with
  | none => simp [hv] at h
  | some v =>
    simp only [hv] at h
    injection h with h
    have hm := List.mem_of_find?_eq_some h
    have hp := List.find?_some h
    constructor
    · simpa using hp
    · rcases List.mem_map.mp hm with ⟨c, _, rfl⟩
      rfl

/-- **tag_precedence** — the tag fall-back tries the version's variants from most to least specific
    (`v<major.minor.patch-suffix>`, `v<major.minor.patch>`, `v<major.minor>`, `v<major>`) and takes the first that exists;
    if none exists there is no tag. -/
theorem tag_precedence (tags : List Str) (s : Str) (v : Variants) (hv : variantsOf s = some v) :
    (∀ w, v.withSuffix = some w → ('v' :: w) ∈ tags → findMatchingTag tags (some s) = .ok (some ('v' :: w))) ∧
    ((∀ w, v.withSuffix = some w → ('v' :: w) ∉ tags) → ('v' :: v.withPatch) ∈ tags →
        findMatchingTag tags (some s) = .ok (some ('v' :: v.withPatch))) ∧
    ((∀ w, v.withSuffix = some w → ('v' :: w) ∉ tags) → ('v' :: v.withPatch) ∉ tags → ('v' :: v.withMinor) ∈ tags →
        findMatchingTag tags (some s) = .ok (some ('v' :: v.withMinor))) ∧
    ((∀ w, v.withSuffix = some w → ('v' :: w) ∉ tags) → ('v' :: v.withPatch) ∉ tags → ('v' :: v.withMinor) ∉ tags →
        ('v' :: v.withMajor) ∈ tags → findMatchingTag tags (some s) = .ok (some ('v' :: v.withMajor))) ∧
    ((∀ w, v.withSuffix = some w → ('v' :: w) ∉ tags) → ('v' :: v.withPatch) ∉ tags → ('v' :: v.withMinor) ∉ tags →
        ('v' :: v.withMajor) ∉ tags → findMatchingTag tags (some s) = .ok none) := by
  unfold findMatchingTag
  simp only [hv]
  cases hs : v.withSuffix with
  | none =>
    refine ⟨fun w hw => by simp at hw, fun _ h1 => ?_, fun _ h1 h2 => ?_, fun _ h1 h2 h3 => ?_, fun _ h1 h2 h3 => ?_⟩
    · simp [h1]
    · simp [h1, h2]
    · simp [h1, h2, h3]
    · simp [h1, h2, h3]
  | some w0 =>
    refine ⟨fun w hw hin => ?_, fun h0 h1 => ?_, fun h0 h1 h2 => ?_, fun h0 h1 h2 h3 => ?_, fun h0 h1 h2 h3 => ?_⟩
    · injection hw with hw; subst hw
      simp [hin]
    · have := h0 w0 rfl
      simp [this, h1]
    · have := h0 w0 rfl
      simp [this, h1, h2]
    · have := h0 w0 rfl
      simp [this, h1, h2, h3]
    · have := h0 w0 rfl
      simp [this, h1, h2, h3]

example : findMatchingTag ["v7".toList, "v7.3".toList, "v8".toList] (some "7.3.1".toList) = .ok (some "v7.3".toList) := by decide

/-- the decimal numeral the model renders for a number (`str(int)` in the code) reads back as that number
    (`int(str)`): the branch names built from version components denote those components -/
theorem numeral_roundtrip (n : Nat) : digitsVal (natStr n) = n := by
  unfold digitsVal natStr
  rw [Nat.toString_eq_repr, Nat.toList_repr]
  exact Nat.ofDigitChars_ten_toDigits

/-- hence different numbers never render to the same numeral -/
theorem numeral_injective (a b : Nat) (h : natStr a = natStr b) : a = b := by
  have := congrArg digitsVal h
  rwa [numeral_roundtrip, numeral_roundtrip] at this

/-! ### non-vacuity: concrete inputs meeting the hypotheses (tests, labelled as tests) -/

example : bestMatch [['7', '.', '0'], ['6'], master] (some ['7', '.', '3', '.', '0']) = .ok (some ['7', '.', '0']) := by decide
example : bestMatch [['7', '.', '2'], ['7', '.', '1', '1'], ['7'], master] (some ['7', '.', '1', '0', '.', '2']) = .ok (some ['7', '.', '2']) := by decide
example : parseAlts [['7', '.', '0'], ['6'], master] = .ok [⟨7, some 0, Option.none, Option.none⟩, ⟨6, Option.none, Option.none, Option.none⟩] := by decide
example : variantsOf ['7', '.', '3', '.', '0', '-', 'S'] = some ⟨7, 3, 0, some ['S']⟩ := by decide
example : bestMatch [['5'], master] (some ['6', '.', '0', '.', '0']) = .ok (some master) := by decide
example : bestMatch [['7'], master] (some ['6', '.', '0', '.', '0']) = .ok Option.none := by decide

end C15
