import RallyModel.TrackFilter
import RallyModel.Alloc
import RallyProofs.TrackFilter
import RallyProofs.Alloc
/-!
# C11 — task filters keep exactly the selected tasks and leave a runnable track

Theorems about `RallyModel/TrackFilter.lean` (model of `TaskFilterTrackProcessor`), for every
schedule and every filter list.  `leaves` is the sequence of leaf tasks of a schedule in order;
a task value carries all its properties, so equality of task sequences means "unchanged".
-/
namespace C11
open TrackFilter

/-- Core statement: with a non-empty filter list the remaining leaf tasks are exactly the original
    leaf tasks that match at least one filter (include) resp. none (exclude), in their original
    order and unchanged — filtering only deletes. -/
theorem leaves_applyFilters (exclude : Bool) (fs : List Filter) (sched : List Elem) (hne : fs ≠ []) :
    leaves (applyFilters exclude fs sched) = (leaves sched).filter (fun t => matchesAny fs t != exclude) := by
  have hf : fs.isEmpty = false := by cases fs <;> simp_all
  unfold applyFilters
  simp only [hf, Bool.false_eq_true, if_false]
  rw [leaves_filterMap, leaves_eq_flatMap, List.filter_flatMap]
  congr 1
  funext e
  exact filterElem_leaves exclude fs e

/-- `--include-tasks`: exactly the tasks matching at least one filter remain -/
theorem include_exact (fs : List Filter) (sched : List Elem) (hne : fs ≠ []) :
    leaves (applyFilters false fs sched) = (leaves sched).filter (fun t => matchesAny fs t) := by
  rw [leaves_applyFilters false fs sched hne]
  apply List.filter_congr
  intro t _; cases matchesAny fs t <;> rfl

/-- `--exclude-tasks`: exactly the tasks matching none of the filters remain -/
theorem exclude_exact (fs : List Filter) (sched : List Elem) (hne : fs ≠ []) :
    leaves (applyFilters true fs sched) = (leaves sched).filter (fun t => !matchesAny fs t) := by
  rw [leaves_applyFilters true fs sched hne]
  apply List.filter_congr
  intro t _; cases matchesAny fs t <;> rfl

/-- **filters_order_irrelevant** — a filter list is a set of alternatives: any reordering (and, with it, any duplication-free
    rearrangement) of the filters leaves exactly the same schedule. -/
theorem filters_order_irrelevant (exclude : Bool) (fs fs' : List Filter) (h : fs.Perm fs') (sched : List Elem) :
    applyFilters exclude fs sched = applyFilters exclude fs' sched := by
  unfold applyFilters
  have he : fs.isEmpty = fs'.isEmpty := by
    cases fs with
    | nil => rw [List.nil_perm.mp h]
    | cons a l =>
      cases fs' with
      | nil => exact absurd (List.perm_nil.mp h) (by simp)
      | cons b l' => rfl
  rw [he]
  split
  · rfl
  · congr 1
    funext e
    exact filterElem_perm h exclude e

/-- **filtering_idempotent** — filtering an already filtered schedule with the same filters changes nothing: what was kept
    still qualifies (in particular a kept parallel element is kept again with the same tasks). -/
theorem filtering_idempotent (exclude : Bool) (fs : List Filter) (sched : List Elem) :
    applyFilters exclude fs (applyFilters exclude fs sched) = applyFilters exclude fs sched := by
  unfold applyFilters
  split
  · rfl
  · exact filterMap_idem _ (fun a b => filterElem_idem exclude fs a b) sched

/-- **include_and_exclude_partition_the_tasks** — for the same non-empty filter list every leaf task of the schedule is kept
    by exactly one of `--include-tasks` and `--exclude-tasks`. -/
theorem include_and_exclude_partition_the_tasks (fs : List Filter) (sched : List Elem) (hne : fs ≠ []) (t : Task) :
    (leaves (applyFilters false fs sched)).count t + (leaves (applyFilters true fs sched)).count t = (leaves sched).count t := by
  rw [include_exact fs sched hne, exclude_exact fs sched hne]
  induction leaves sched with
  | nil => rfl
  | cons a l ih =>
    simp only [List.filter_cons]
    cases hm : matchesAny fs a <;> simp [List.count_cons, ih.symm] <;> omega

/-- **filtered_track_needs_only_data_of_remaining_tasks** — whatever each task reads (`readBy`: corpora, document sets, any
    resource), what the filtered schedule reads is exactly what the selected tasks read, in their order: track preparation
    and worker start-up of a filtered track may depend on nothing that only removed tasks read. -/
theorem filtered_track_needs_only_data_of_remaining_tasks {α : Type} (readBy : Task → List α) (exclude : Bool) (fs : List Filter)
    (sched : List Elem) (hne : fs ≠ []) :
    (leaves (applyFilters exclude fs sched)).flatMap readBy =
      ((leaves sched).filter (fun t => matchesAny fs t != exclude)).flatMap readBy ∧
    ∀ x ∈ (leaves (applyFilters exclude fs sched)).flatMap readBy, x ∈ (leaves sched).flatMap readBy := by
  rw [leaves_applyFilters exclude fs sched hne]
  refine ⟨rfl, fun x hx => ?_⟩
  obtain ⟨t, ht, hxt⟩ := List.mem_flatMap.mp hx
  exact List.mem_flatMap.mpr ⟨t, (List.mem_filter.mp ht).1, hxt⟩

/-- without filters the track is returned as it is -/
theorem no_filters_identity (exclude : Bool) (sched : List Elem) : applyFilters exclude [] sched = sched := rfl

/-- the filtered schedule contains no empty parallel element (repaired code) -/
theorem no_empty_parallel (exclude : Bool) (fs : List Filter) (sched : List Elem)
    (h0 : ∀ ts p, Elem.par ts p ∈ sched → ts ≠ []) :
    ∀ ts p, Elem.par ts p ∈ applyFilters exclude fs sched → ts ≠ [] := by
  intro ts p hmem
  unfold applyFilters at hmem
  split at hmem
  · exact h0 ts p hmem
  · rw [List.mem_filterMap] at hmem
    obtain ⟨e, he, hfe⟩ := hmem
    unfold filterElem at hfe
    split at hfe
    · simp at hfe
    · cases e with
      | leaf t => simp at hfe
      | par ts' p' =>
        simp only at hfe
        split at hfe
        · simp at hfe
        · rename_i hcond
          simp only [Option.some.injEq, Elem.par.injEq] at hfe
          obtain ⟨rfl, rfl⟩ := hfe
          have hts' : ts' ≠ [] := h0 ts' p' he
          intro hempty
          apply hcond
          simp [hempty, hts']

/-- every remaining parallel element is an original one with some of its tasks deleted
    (its own properties — `payload` — untouched) -/
theorem parallel_only_loses_tasks (exclude : Bool) (fs : List Filter) (sched : List Elem) (ts : List Task) (p : Nat)
    (h : Elem.par ts p ∈ applyFilters exclude fs sched) :
    ∃ ts0, Elem.par ts0 p ∈ sched ∧ ts.Sublist ts0 := by
  unfold applyFilters at h
  split at h
  · exact ⟨ts, h, List.Sublist.refl _⟩
  · rw [List.mem_filterMap] at h
    obtain ⟨e, he, hfe⟩ := h
    unfold filterElem at hfe
    split at hfe
    · simp at hfe
    · cases e with
      | leaf t => simp at hfe
      | par ts' p' =>
        simp only at hfe
        split at hfe
        · simp at hfe
        · simp only [Option.some.injEq, Elem.par.injEq] at hfe
          obtain ⟨rfl, rfl⟩ := hfe
          exact ⟨ts', he, List.filter_sublist⟩

/-- Historical witness (pinned code before the `fix:` commit): excluding every task of a parallel
    left an empty parallel element in the schedule. -/
theorem pinned_leaves_empty_parallel :
    applyFiltersPinned true [Filter.name ['a']] [Elem.par [⟨1, ['a'], ['b'], []⟩] 7] = [Elem.par [] 7] := by
  decide

/-! ### filter syntax -/

theorem parse_name (t : Str) (h : ∀ c ∈ t, c ≠ ':') : parseFilter t = .ok (.name t) := by
  simp [parseFilter, splitColon_no_colon t h]

theorem parse_type (v : Str) (h : ∀ c ∈ v, c ≠ ':') : parseFilter (typeKw ++ ':' :: v) = .ok (.opType v) := by
  have hk : ∀ c ∈ typeKw, c ≠ ':' := by decide
  simp [parseFilter, splitColon_append typeKw v hk, splitColon_no_colon v h]

theorem parse_tag (v : Str) (h : ∀ c ∈ v, c ≠ ':') : parseFilter (tagKw ++ ':' :: v) = .ok (.tag v) := by
  have hk : ∀ c ∈ tagKw, c ≠ ':' := by decide
  have hne : tagKw ≠ typeKw := by decide
  simp [parseFilter, splitColon_append tagKw v hk, splitColon_no_colon v h, hne]

/-- anything else with a colon is rejected -/
theorem parse_rejects (k v : Str) (hk : ∀ c ∈ k, c ≠ ':') (hv : ∀ c ∈ v, c ≠ ':')
    (h1 : k ≠ typeKw) (h2 : k ≠ tagKw) : parseFilter (k ++ ':' :: v) = .error .systemSetupError := by
  simp [parseFilter, splitColon_append k v hk, splitColon_no_colon v hv, h1, h2]

/-! ### the reader in front of the filter: which type a task has is decided by its own specification and the `operations` block only -/

/-- **plain_reference_to_a_builtin_keeps_its_type** — a task that names an operation by a plain string which is not an entry
    of the `operations` block runs the built-in operation of that type: name and type are that string, whatever else the
    track contains. -/
theorem plain_reference_to_a_builtin_keeps_its_type (ops : List OpDef) (s : Str) (h : ∀ d ∈ ops, d.name ≠ s) :
    resolveOp ops (.plain s) = ⟨s, s⟩ := by
  have hl : lookupOp ops s = none := by
    unfold lookupOp
    rw [List.find?_eq_none]
    intro d hd
    simpa using h d hd
  simp [resolveOp, hl, parseOperation]

/-- **plain_reference_to_the_block_is_that_entry** — a plain string that names an entry of the block is the first such entry. -/
theorem plain_reference_to_the_block_is_that_entry (ops : List OpDef) (s : Str) (d : OpDef) (h : lookupOp ops s = some d) :
    resolveOp ops (.plain s) = d ∧ d.name = s ∧ d ∈ ops := by
  refine ⟨by simp [resolveOp, h], ?_, ?_⟩
  · have := List.find?_some h
    simpa using this
  · exact List.mem_of_find?_eq_some h

/-- **inline_operation_is_taken_as_written** — an operation defined inline in a schedule has the type it states (and the
    name it states, by default its type), independently of the table. -/
theorem inline_operation_is_taken_as_written (ops : List OpDef) (n : Option Str) (ty : Str) :
    resolveOp ops (.inline n ty) = ⟨n.getD ty, ty⟩ := by
  cases n <;> rfl

theorem leaves_readSchedule (ops : List OpDef) (es : List ElemSpec) :
    leaves (readSchedule ops es) = (specLeaves es).map (readTask ops) := by
  induction es with
  | nil => rfl
  | cons e es ih =>
    cases e with
    | leaf t => simp only [readSchedule, List.map_cons, readElem, leaves, specLeaves] at ih ⊢; rw [ih]
    | par ts p => simp only [readSchedule, List.map_cons, readElem, leaves, specLeaves, List.map_append] at ih ⊢; rw [ih]

/-- **reading_carries_nothing_between_tasks_and_challenges** — every task of every challenge is read against the same table,
    by itself: a readable specification yields, challenge by challenge and task by task, the map of independent readings —
    what stands earlier in the schedule or in an earlier challenge has no influence on a task. -/
theorem reading_carries_nothing_between_tasks_and_challenges (ops : List OpDef) (chs : List (List ElemSpec))
    (out : List (List Elem)) (h : readChallenges ops chs = .ok out) :
    out = chs.map (readSchedule ops) ∧
    ∀ c ∈ chs, leaves (readSchedule ops c) = (specLeaves c).map (readTask ops) := by
  refine ⟨?_, fun c _ => leaves_readSchedule ops c⟩
  induction chs generalizing out with
  | nil => simp only [readChallenges, Except.ok.injEq] at h; simp [← h]
  | cons c cs ih =>
    unfold readChallenges at h
    split at h
    · simp at h
    · rename_i s hs
      split at h
      · simp at h
      · rename_i ss hss
        simp only [Except.ok.injEq] at h
        have hc : s = readSchedule ops c := by
          simp only [readChallenge] at hs
          split at hs
          · simp only [Except.ok.injEq] at hs; exact hs.symm
          · simp at hs
        rw [← h, List.map_cons, ← ih ss hss, hc]

/-- **filters_select_by_the_specification** — reading and filtering composed: in every challenge of a readable specification
    the remaining leaf tasks are exactly the tasks of the specification, each read by itself, that match at least one filter
    (include) resp. none (exclude), in their order. -/
theorem filters_select_by_the_specification (block : List OpRef) (chs : List (List ElemSpec)) (exclude : Bool)
    (fs : List Filter) (hne : fs ≠ []) (out : List (List Elem)) (h : readAndFilter block chs exclude fs = .ok out) :
    ∃ ops, parseOperations block = .ok ops ∧
      out.map leaves = chs.map (fun c => ((specLeaves c).map (readTask ops)).filter (fun t => matchesAny fs t != exclude)) := by
  unfold readAndFilter readTrack at h
  split at h
  · simp at h
  · rename_i ss hss
    split at hss
    · simp at hss
    · rename_i ops hops
      refine ⟨ops, hops, ?_⟩
      simp only [Except.ok.injEq] at h
      have hr := (reading_carries_nothing_between_tasks_and_challenges ops chs ss hss).1
      rw [← h, hr, List.map_map, List.map_map]
      apply List.map_congr_left
      intro c _
      simp only [Function.comp]
      rw [leaves_applyFilters exclude fs _ hne, leaves_readSchedule]

/-- **type_filter_is_literal** — a `type:` filter selects a task iff its argument IS the task's operation type (as written in
    the track): no spelling of a type stands for another one. -/
theorem type_filter_is_literal (a : Str) (t : Task) : (Filter.opType a).matchesTask t = true ↔ a = t.opType := by
  simp [Filter.matchesTask]

theorem type_filter_does_not_select_another_spelling (a b : Str) (hab : a ≠ b) (t : Task) (ht : t.opType = b) :
    matchesAny [Filter.opType a] t = false := by
  simp [matchesAny, Filter.matchesTask, ht, hab]

/-- **one_string_of_tags_is_one_tag** — `"tags": "setup"` is the one tag `setup`: a `tag:` filter selects the task iff its
    argument is that string (no substring, no character of it); a list of tags is membership. -/
theorem one_string_of_tags_is_one_tag (ops : List OpDef) (id : Nat) (n : Option Str) (op : OpRef) (s g : Str) :
    (Filter.tag g).matchesTask (readTask ops ⟨id, n, op, .one s⟩) = true ↔ g = s := by
  simp [Filter.matchesTask, readTask, normTags, eq_comm]

theorem list_of_tags_is_membership (ops : List OpDef) (id : Nat) (n : Option Str) (op : OpRef) (l : List Str) (g : Str) :
    (Filter.tag g).matchesTask (readTask ops ⟨id, n, op, .many l⟩) = true ↔ g ∈ l := by
  simp [Filter.matchesTask, readTask, normTags]

theorem distinct_nodup (l : List Str) (h : distinct l = true) : l.Nodup := by
  induction l with
  | nil => exact List.nodup_nil
  | cons x xs ih =>
    simp only [distinct, Bool.and_eq_true, Bool.not_eq_true', List.contains_eq_mem, decide_eq_false_iff_not] at h
    exact List.nodup_cons.mpr ⟨h.1, ih h.2⟩

/-- **read_challenge_has_distinct_task_names** — the tasks of a challenge the reader accepts carry pairwise different names
    (what the model of `list.remove` in the filter relies on). -/
theorem read_challenge_has_distinct_task_names (ops : List OpDef) (es : List ElemSpec) (s : List Elem)
    (h : readChallenge ops es = .ok s) : ((leaves s).map (·.name)).Nodup := by
  simp only [readChallenge] at h
  split at h
  · rename_i hd
    simp only [Except.ok.injEq] at h
    rw [← h]; exact distinct_nodup _ hd
  · simp at h

/-! ### the filtered track is runnable (via the allocation model of C02) -/

def toAlloc (clients : Task → Nat) : Elem → Alloc.Element
  | .leaf t => ⟨none, [⟨t.id, clients t, false, false⟩]⟩
  | .par ts p => ⟨some p, ts.map fun t => ⟨t.id, clients t, false, false⟩⟩

/-- the driver walks exactly one step per remaining element, has one progress entry per step, and
    every step has at least one task -/
theorem filtered_runnable (exclude : Bool) (fs : List Filter) (sched : List Elem) (clients : Task → Nat)
    (hc : ∀ t, clients t > 0) (h0 : ∀ ts p, Elem.par ts p ∈ sched → ts ≠ []) :
    let s' := (applyFilters exclude fs sched).map (toAlloc clients)
    Alloc.numberOfSteps s' = (applyFilters exclude fs sched).length ∧
    (Alloc.tasksPerJoinpoint s').length = Alloc.numberOfSteps s' ∧
    ∀ ts ∈ Alloc.tasksPerJoinpoint s', ts ≠ [] := by
  intro s'
  have hs := C02_steps s'
  refine ⟨by simpa [s'] using hs.1, hs.2, ?_⟩
  intro ts hts
  simp only [Alloc.tasksPerJoinpoint, s', List.map_map, List.mem_map] at hts
  obtain ⟨e, he, rfl⟩ := hts
  cases e with
  | leaf t =>
    simp [toAlloc, Alloc.allocatedSubs, hc t, List.eraseDups_cons]
  | par ts p =>
    have hne := no_empty_parallel exclude fs sched h0 ts p he
    cases ts with
    | nil => exact absurd rfl hne
    | cons t tl => simp [toAlloc, Alloc.allocatedSubs, hc t, List.eraseDups_cons]
where
  C02_steps (s : List Alloc.Element) :
      Alloc.numberOfSteps s = s.length ∧ (Alloc.tasksPerJoinpoint s).length = Alloc.numberOfSteps s := by
    have h1 : Alloc.numberOfSteps s = s.length := by
      unfold Alloc.numberOfSteps Alloc.joinPoints Alloc.row
      simp only [List.filter_cons, Alloc.Entry.isJoin, if_true, List.length_cons]
      rw [Alloc.count_isJoin_rowFrom _ _ _ _ (Alloc.maxClients_pos s) (Alloc.maxClients_pos s)]
      omega
    exact ⟨h1, by simp [Alloc.tasksPerJoinpoint, h1]⟩

/-! ### non-vacuity (tests, labelled as tests) -/

example : applyFilters true [Filter.name ['a']] [Elem.par [⟨1, ['a'], ['b'], []⟩, ⟨2, ['c'], ['b'], []⟩] 7, Elem.leaf ⟨3, ['a'], ['x'], []⟩]
    = [Elem.par [⟨2, ['c'], ['b'], []⟩] 7] := by decide
example : applyFilters false [Filter.tag ['q']] [Elem.par [⟨1, ['a'], ['b'], [['q']]⟩, ⟨2, ['c'], ['b'], []⟩] 7, Elem.leaf ⟨3, ['d'], ['x'], []⟩]
    = [Elem.par [⟨1, ['a'], ['b'], [['q']]⟩] 7] := by decide
example : parseFilter ['t', 'y', 'p', 'e', ':', 'b'] = .ok (.opType ['b']) := by rfl

-- an inline operation named like a built-in type ('h') but of another type ('r'), then — in the same and in a later challenge —
-- plain references to 'h': they keep type 'h'; `type:h` selects exactly them
example : readAndFilter [] [[.leaf ⟨1, some ['a'], .inline (some ['h']) ['r'], .absent⟩, .leaf ⟨2, none, .plain ['h'], .absent⟩],
      [.par [⟨3, some ['b'], .plain ['h'], .absent⟩, ⟨4, none, .inline none ['r'], .absent⟩] 0]] false [Filter.opType ['h']]
    = .ok [[.leaf ⟨2, ['h'], ['h'], []⟩], [.par [⟨3, ['b'], ['h'], []⟩] 0]] := by rfl
-- a block entry named 'h' of type 'r' does capture plain references (that is what the block is for)
example : readAndFilter [.inline (some ['h']) ['r']] [[.leaf ⟨2, none, .plain ['h'], .absent⟩]] false [Filter.opType ['h']] = .ok [[]] := by rfl
example : readTrack [.plain ['h'], .inline (some ['h']) ['r']] [] = .error .trackSyntaxError := by rfl
example : readTrack [] [[.leaf ⟨1, none, .plain ['h'], .absent⟩, .leaf ⟨2, none, .inline none ['h'], .absent⟩]] = .error .trackSyntaxError := by rfl
example : readAndFilter [] [[.leaf ⟨1, none, .plain ['h'], .one ['x', 'x']⟩, .leaf ⟨2, some ['a'], .plain ['h'], .many [['x'], ['y']]⟩]] true [Filter.tag ['x']]
    = .ok [[.leaf ⟨1, ['h'], ['h'], [['x', 'x']]⟩]] := by rfl
example : matchesAny [Filter.opType ['n', '_', 's']] ⟨1, ['a'], ['n', '-', 's'], []⟩ = false := by decide

end C11
