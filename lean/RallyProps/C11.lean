import RallyModel.TrackFilter
import RallyModel.Alloc
import RallyProofs.TrackFilter
import RallyProofs.Alloc
/-!
# C11 — task filters keep exactly the selected tasks and leave a runnable track

Theorems about `RallyModel/TrackFilter.lean` (model of `TaskFilterTrackProcessor`), for every
schedule and every filter list.  `leaves` is the sequence of leaf tasks of a schedule in order;
a task value carries all its properties, so equality of task sequences means "unchanged".
-/
namespace C11
open TrackFilter

/-- Core statement: with a non-empty filter list the remaining leaf tasks are exactly the original
    leaf tasks that match at least one filter (include) resp. none (exclude), in their original
    order and unchanged — filtering only deletes. -/
theorem leaves_applyFilters (exclude : Bool) (fs : List Filter) (sched : List Elem) (hne : fs ≠ []) :
    leaves (applyFilters exclude fs sched) = (leaves sched).filter (fun t => matchesAny fs t != exclude) := by
  have hf : fs.isEmpty = false := by cases fs <;> simp_all
  unfold applyFilters
  simp only [hf, Bool.false_eq_true, if_false]
  rw [leaves_filterMap, leaves_eq_flatMap, List.filter_flatMap]
  congr 1
  funext e
  exact filterElem_leaves exclude fs e

/-- `--include-tasks`: exactly the tasks matching at least one filter remain -/
theorem include_exact (fs : List Filter) (sched : List Elem) (hne : fs ≠ []) :
    leaves (applyFilters false fs sched) = (leaves sched).filter (fun t => matchesAny fs t) := by
  rw [leaves_applyFilters false fs sched hne]
  apply List.filter_congr
  intro t _; cases matchesAny fs t <;> rfl

/-- `--exclude-tasks`: exactly the tasks matching none of the filters remain -/
theorem exclude_exact (fs : List Filter) (sched : List Elem) (hne : fs ≠ []) :
    leaves (applyFilters true fs sched) = (leaves sched).filter (fun t => !matchesAny fs t) := by
  rw [leaves_applyFilters true fs sched hne]
  apply List.filter_congr
  intro t _; cases matchesAny fs t <;> rfl

/-- **filters_order_irrelevant** — a filter list is a set of alternatives: any reordering (and, with it, any duplication-free
    rearrangement) of the filters leaves exactly the same schedule. -/
theorem filters_order_irrelevant (exclude : Bool) (fs fs' : List Filter) (h : fs.Perm fs') (sched : List Elem) :
    applyFilters exclude fs sched = applyFilters exclude fs' sched := by
  unfold applyFilters
  have he : fs.isEmpty = fs'.isEmpty := by
    cases fs with
    | nil => rw [List.nil_perm.mp h]
    | cons a l =>
      cases fs' with
      | nil => exact absurd (List.perm_nil.mp h) (by simp)
      | cons b l' => rfl
  rw [he]
  split
  · rfl
  · congr 1
    funext e
    exact filterElem_perm h exclude e

/-- **filtering_idempotent** — filtering an already filtered schedule with the same filters changes nothing: what was kept
    still qualifies (in particular a kept parallel element is kept again with the same tasks). -/
theorem filtering_idempotent (exclude : Bool) (fs : List Filter) (sched : List Elem) :
    applyFilters exclude fs (applyFilters exclude fs sched) = applyFilters exclude fs sched := by
  unfold applyFilters
  split
  · rfl
  · exact filterMap_idem _ (fun a b => filterElem_idem exclude fs a b) sched

/-- **include_and_exclude_partition_the_tasks** — for the same non-empty filter list every leaf task of the schedule is kept
    by exactly one of `--include-tasks` and `--exclude-tasks`. -/
theorem include_and_exclude_partition_the_tasks (fs : List Filter) (sched : List Elem) (hne : fs ≠ []) (t : Task) :
    (leaves (applyFilters false fs sched)).count t + (leaves (applyFilters true fs sched)).count t = (leaves sched).count t := by
  rw [include_exact fs sched hne, exclude_exact fs sched hne]
  induction leaves sched with
  | nil => rfl
  | cons a l ih =>
    simp only [List.filter_cons]
    cases hm : matchesAny fs a <;> simp [List.count_cons, ih.symm] <;> omega

/-- **filtered_track_needs_only_data_of_remaining_tasks** — whatever each task reads (`readBy`: corpora, document sets, any
    resource), what the filtered schedule reads is exactly what the selected tasks read, in their order: track preparation
    and worker start-up of a filtered track may depend on nothing that only removed tasks read. -/
theorem filtered_track_needs_only_data_of_remaining_tasks {α : Type} (readBy : Task → List α) (exclude : Bool) (fs : List Filter)
    (sched : List Elem) (hne : fs ≠ []) :
    (leaves (applyFilters exclude fs sched)).flatMap readBy =
      ((leaves sched).filter (fun t => matchesAny fs t != exclude)).flatMap readBy ∧
    ∀ x ∈ (leaves (applyFilters exclude fs sched)).flatMap readBy, x ∈ (leaves sched).flatMap readBy := by
  rw [leaves_applyFilters exclude fs sched hne]
  refine ⟨rfl, fun x hx => ?_⟩
  obtain ⟨t, ht, hxt⟩ := List.mem_flatMap.mp hx
  exact List.mem_flatMap.mpr ⟨t, (List.mem_filter.mp ht).1, hxt⟩

/-- without filters the track is returned as it is -/
theorem no_filters_identity (exclude : Bool) (sched : List Elem) : applyFilters exclude [] sched = sched := rfl

/-- the filtered schedule contains no empty parallel element (repaired code) -/
theorem no_empty_parallel (exclude : Bool) (fs : List Filter) (sched : List Elem)
    (h0 : ∀ ts p, Elem.par ts p ∈ sched → ts ≠ []) :
    ∀ ts p, Elem.par ts p ∈ applyFilters exclude fs sched → ts ≠ [] := by
  intro ts p hmem
  unfold applyFilters at hmem
  split at hmem
  · exact h0 ts p hmem
  · rw [List.mem_filterMap] at hmem
    obtain ⟨e, he, hfe⟩ := hmem
    unfold filterElem at hfe
    split at hfe
    · simp at hfe
    · cases e with
      | leaf t => simp at hfe
      | par ts' p' =>
        simp only at hfe
        split at hfe
        · simp at hfe
        · rename_i hcond
          simp only [Option.some.injEq, Elem.par.injEq] at hfe
          obtain ⟨rfl, rfl⟩ := hfe
          have hts' : ts' ≠ [] := h0 ts' p' he
          intro hempty
          apply hcond
          simp [hempty, hts']

/-- every remaining parallel element is an original one with some of its tasks deleted
    (its own properties — `payload` — untouched) -/
theorem parallel_only_loses_tasks (exclude : Bool) (fs : List Filter) (sched : List Elem) (ts : List Task) (p : Nat)
    (h : Elem.par ts p ∈ applyFilters exclude fs sched) :
    ∃ ts0, Elem.par ts0 p ∈ sched ∧ ts.Sublist ts0 := by
  unfold applyFilters at h
  split at h
  · exact ⟨ts, h, List.Sublist.refl _⟩
  · rw [List.mem_filterMap] at h
    obtain ⟨e, he, hfe⟩ := h
    unfold filterElem at hfe
    split at hfe
    · simp at hfe
    · cases e with
      | leaf t => simp at hfe
      | par ts' p' =>
        simp only at hfe
        split at hfe
        · simp at hfe
        · simp only [Option.some.injEq, Elem.par.injEq] at hfe
          obtain ⟨rfl, rfl⟩ := hfe
          exact ⟨ts', he, List.filter_sublist⟩

/-- Historical witness (pinned code before the `fix:` commit): excluding every task of a parallel
    left an empty parallel element in the schedule. -/
theorem pinned_leaves_empty_parallel :
    applyFiltersPinned true [Filter.name ['a']] [Elem.par [⟨1, ['a'], ['b'], []⟩] 7] = [Elem.par [] 7] := by
  decide

/-! ### filter syntax -/

theorem parse_name (t : Str) (h : ∀ c ∈ t, c ≠ ':') : parseFilter t = .ok (.name t) := by
  simp [parseFilter, splitColon_no_colon t h]

theorem parse_type (v : Str) (h : ∀ c ∈ v, c ≠ ':') : parseFilter (typeKw ++ ':' :: v) = .ok (.opType v) := by
  have hk : ∀ c ∈ typeKw, c ≠ ':' := by decide
  simp [parseFilter, splitColon_append typeKw v hk, splitColon_no_colon v h]

theorem parse_tag (v : Str) (h : ∀ c ∈ v, c ≠ ':') : parseFilter (tagKw ++ ':' :: v) = .ok (.tag v) := by
  have hk : ∀ c ∈ tagKw, c ≠ ':' := by decide
  have hne : tagKw ≠ typeKw := by decide
  simp [parseFilter, splitColon_append tagKw v hk, splitColon_no_colon v h, hne]

/-- anything else with a colon is rejected -/
theorem parse_rejects (k v : Str) (hk : ∀ c ∈ k, c ≠ ':') (hv : ∀ c ∈ v, c ≠ ':')
    (h1 : k ≠ typeKw) (h2 : k ≠ tagKw) : parseFilter (k ++ ':' :: v) = .error .systemSetupError := by
  simp [parseFilter, splitColon_append k v hk, splitColon_no_colon v hv, h1, h2]

/-! ### the filtered track is runnable (via the allocation model of C02) -/

def toAlloc (clients : Task → Nat) : Elem → Alloc.Element
  | .leaf t => ⟨none, [⟨t.id, clients t, false, false⟩]⟩
  | .par ts p => ⟨some p, ts.map fun t => ⟨t.id, clients t, false, false⟩⟩

/-- the driver walks exactly one step per remaining element, has one progress entry per step, and
    every step has at least one task -/
theorem filtered_runnable (exclude : Bool) (fs : List Filter) (sched : List Elem) (clients : Task → Nat)
    (hc : ∀ t, clients t > 0) (h0 : ∀ ts p, Elem.par ts p ∈ sched → ts ≠ []) :
    let s' := (applyFilters exclude fs sched).map (toAlloc clients)
    Alloc.numberOfSteps s' = (applyFilters exclude fs sched).length ∧
    (Alloc.tasksPerJoinpoint s').length = Alloc.numberOfSteps s' ∧
    ∀ ts ∈ Alloc.tasksPerJoinpoint s', ts ≠ [] := by
  intro s'
  have hs := C02_steps s'
  refine ⟨by simpa [s'] using hs.1, hs.2, ?_⟩
  intro ts hts
  simp only [Alloc.tasksPerJoinpoint, s', List.map_map, List.mem_map] at hts
  obtain ⟨e, he, rfl⟩ := hts
  cases e with
  | leaf t =>
    simp [toAlloc, Alloc.allocatedSubs, hc t, List.eraseDups_cons]
  | par ts p =>
    have hne := no_empty_parallel exclude fs sched h0 ts p he
    cases ts with
    | nil => exact absurd rfl hne
    | cons t tl => simp [toAlloc, Alloc.allocatedSubs, hc t, List.eraseDups_cons]
where
  C02_steps (s : List Alloc.Element) :
      Alloc.numberOfSteps s = s.length ∧ (Alloc.tasksPerJoinpoint s).length = Alloc.numberOfSteps s := by
    have h1 : Alloc.numberOfSteps s = s.length := by
      unfold Alloc.numberOfSteps Alloc.joinPoints Alloc.row
      simp only [List.filter_cons, Alloc.Entry.isJoin, if_true, List.length_cons]
      rw [Alloc.count_isJoin_rowFrom _ _ _ _ (Alloc.maxClients_pos s) (Alloc.maxClients_pos s)]
      omega
    exact ⟨h1, by simp [Alloc.tasksPerJoinpoint, h1]⟩

/-! ### non-vacuity (tests, labelled as tests) -/

example : applyFilters true [Filter.name ['a']] [Elem.par [⟨1, ['a'], ['b'], []⟩, ⟨2, ['c'], ['b'], []⟩] 7, Elem.leaf ⟨3, ['a'], ['x'], []⟩]
    = [Elem.par [⟨2, ['c'], ['b'], []⟩] 7] := by decide
example : applyFilters false [Filter.tag ['q']] [Elem.par [⟨1, ['a'], ['b'], [['q']]⟩, ⟨2, ['c'], ['b'], []⟩] 7, Elem.leaf ⟨3, ['d'], ['x'], []⟩]
    = [Elem.par [⟨1, ['a'], ['b'], [['q']]⟩] 7] := by decide
example : parseFilter ['t', 'y', 'p', 'e', ':', 'b'] = .ok (.opType ['b']) := by rfl

end C11
