import RallyModel.Team
import RallyProofs.Team
import RallyModel.TeamSession
import RallyProofs.TeamSession
/-!
# C13 — cars compose in order with documented precedence; provisioning mirrors templates

Property theorems only (helper lemmas: `RallyProofs/Team.lean`, model: `RallyModel/Team.lean`).
Every theorem quantifies over **every** team directory `t` (cars, mixins, config bases with
arbitrary variable sets and template trees), every list of car names, every parameter map and
every initial content of the installation directory.

Vocabulary: `lastOf l k` is the value of the last binding of `k` in the list of bindings `l`
(for a section of an `.ini` file or a dict: *the* binding); `ranked layers k` is the value of `k`
in the first layer of `layers` that defines it; `dget d k` is Python's `d[k]`.
-/
namespace C13
open Team

/-! ## variable precedence -/

/-- The documented precedence as a ranked list of definers, highest rank first:
    Rally's node variables, the command-line car parameters, the `[variables]` of the cars
    (last car first), the `[variables]` of the config bases (last car's last base first). -/
def layers (t : TeamDir) (names : List Str) (params : Vars) (n : Node) (dp : List Str) : List Vars :=
  [defaults n dp, params] ++ (carVarLists t names).reverse ++ (baseVarLists t names).reverse

/-- **var_precedence**: whenever `team.load_car` succeeds, the value every template sees for every
    variable (other than `cluster_settings`, see `cluster_settings_internal`) is the one of the
    highest-ranked definer: Rally node variable > car parameter > car/mixin variable (later car wins)
    > config-base variable (later wins); undefined iff nobody defines it. -/
theorem var_precedence (t : TeamDir) (names : List Str) (params : Vars) (car : Car) (n : Node) (dp : List Str)
    (h : loadCar t names params = .ok car) (k : Str) (hk : k ≠ kClusterSettings) :
    dget (provisionerVars (installerVars car.vars n dp) []) k = ranked (layers t names params n dp) k := by
  obtain ⟨inis, hf, _, _, _, _, hnd, hv⟩ := loadCar_ok t names params car h
  obtain ⟨h1, h2, _, _⟩ := findCars_ok t names inis hf
  rw [dget_provisionerVars _ _ k hk (installerVars_nodup _ _ _), dget_installerVars,
    lastOf_eq_dget _ _ hnd, hv k]
  simp only [layers, List.flatMap_nil, lastOf, Option.none_or, List.cons_append, List.nil_append,
    ranked_cons, ranked_append, h1, h2, lastOf_eq_dget _ _ (defaults_keys_nodup n dp)]

/-- the car's own variable map (what `Car.variables` holds) follows the same ranking below Rally's layer -/
theorem car_variables_precedence (t : TeamDir) (names : List Str) (params : Vars) (car : Car)
    (h : loadCar t names params = .ok car) (k : Str) :
    dget car.vars k = ranked (params :: (carVarLists t names).reverse ++ (baseVarLists t names).reverse) k := by
  obtain ⟨inis, hf, _, _, _, _, _, hv⟩ := loadCar_ok t names params car h
  obtain ⟨h1, h2, _, _⟩ := findCars_ok t names inis hf
  rw [hv k]
  simp only [List.cons_append, ranked_cons, ranked_append, h1, h2]

/-- **internal_not_overridable**: for every key of Rally's own dictionary the final value is
    Rally's computed one, whatever the cars, mixins, config bases or car parameters define under
    that name — provided no *plugin* variable uses the name (see `plugin_vars_override_internal`).
    `defaults n dp` depends on the car only through `dp` (see `data_paths_derived`). -/
theorem internal_not_overridable (carVars : Vars) (n : Node) (dp : List Str) (plugins : List Plugin)
    (k : Str) (v : Val) (hk : dget (defaults n dp) k = some v) (hp : ∀ p ∈ plugins, k ∉ keys p.vars) :
    dget (provisionerVars (installerVars carVars n dp) plugins) k = some v := by
  have hne : k ≠ kClusterSettings := by
    intro e; rw [e, defaults_no_cluster_settings] at hk; cases hk
  rw [dget_provisionerVars _ _ k hne (installerVars_nodup _ _ _), dget_installerVars, hk]
  have : lastOf (plugins.flatMap (·.vars)) k = none := by
    rw [lastOf_eq_none_iff]
    simp only [keys, List.map_flatMap, List.mem_flatMap, not_exists, not_and]
    intro p hpm
    exact hp p hpm
  simp [this]

/-- `cluster_settings` is Rally's as well: always the mandatory-plugin settings. -/
theorem cluster_settings_internal (iv : Vars) (plugins : List Plugin) :
    dget (provisionerVars iv plugins) kClusterSettings =
      some (.settings ((plugins.filter (fun p => !p.movedToModule)).map (·.name))) := by
  unfold provisionerVars
  simp [dget_dset]

/-- The one internal value that is *derived from* a car variable of the same name. -/
theorem data_paths_derived (carVars : Vars) (esHome : Str) :
    (dget carVars kDataPaths = none → dataPaths carVars esHome = .ok [pjoin esHome (cl!"data")]) ∧
    (∀ s, dget carVars kDataPaths = some (.str s) → dataPaths carVars esHome = .ok [s]) ∧
    (∀ l, dget carVars kDataPaths = some (.strs l) → dataPaths carVars esHome = .ok l) := by
  refine ⟨?_, ?_, ?_⟩ <;> intros <;> simp_all [dataPaths]

def node0 : Node := ⟨cl!"n0", cl!"c", cl!"/r", [cl!"1.1.1.1"], [cl!"n0"], cl!"1.1.1.1", 9200, cl!"elasticsearch-1"⟩

/-- The hypothesis about plugins in `internal_not_overridable` is needed: `_provisioner_variables`
    merges plugin variables *after* Rally's node variables, so a plugin configuration or
    `--plugin-params` that uses an internal name does override it (plugins are outside the
    quantifier of C13; recorded as an observation). -/
theorem plugin_vars_override_internal :
    ∃ (carVars : Vars) (n : Node) (dp : List Str) (plugins : List Plugin) (k : Str) (v : Val),
      dget (defaults n dp) k = some v ∧ dget (provisionerVars (installerVars carVars n dp) plugins) k ≠ some v :=
  ⟨[], node0, [], [⟨cl!"p", false, [(cl!"http_port", .str (cl!"1"))]⟩], cl!"http_port", .str (cl!"9200"),
    by decide, by decide⟩

/-! ## config bases -/

/-- **config_paths_ordered_unique**: the config paths of the composed car are the config bases named
    by the cars, each exactly once, in the order of first mention: no duplicates, same members,
    order preserved, and each base stands right after the distinct bases mentioned before it. -/
theorem config_paths_ordered_unique (t : TeamDir) (names : List Str) (params : Vars) (car : Car)
    (h : loadCar t names params = .ok car) :
    car.configPaths.Nodup ∧
    (∀ b, b ∈ car.configPaths ↔ b ∈ baseNames t names) ∧
    car.configPaths.Sublist (baseNames t names) ∧
    car.configPaths ≠ [] ∧
    (∀ l x r, baseNames t names = l ++ x :: r → x ∉ l →
      ∃ pre suf, car.configPaths = pre ++ x :: suf ∧ pre.Nodup ∧ (∀ y, y ∈ pre ↔ y ∈ l)) := by
  obtain ⟨inis, hf, _, _, hcp, hne, _, _⟩ := loadCar_ok t names params car h
  obtain ⟨_, _, h3, _⟩ := findCars_ok t names inis hf
  rw [hcp, h3]
  refine ⟨nodup_firsts _ _, ?_, firsts_sublist _ _, by rw [← hcp]; exact hne, ?_⟩
  · intro b; rw [mem_firsts]; simp
  · intro l x r hl hx
    rw [hl, firsts_split [] l r x hx (by simp)]
    exact ⟨firsts [] l, _, rfl, nodup_firsts _ _, fun y => by rw [mem_firsts]; simp⟩

/-! ## template tree -/

/-- is the last component of `q` a plain-text name (`plain_text`)? -/
def plainName (q : Path) : Bool :=
  match q.getLast? with
  | some nm => plainText nm
  | none => false

/-- **tree_mirrored (files)**: after all config bases were applied to an installation `fs`, for
    every relative path `q`: if no base provides `q` the file is untouched (in particular nothing new
    appears); if `q` is plain text the file is what was there before (if anything) followed by the
    renderings of `q` from each providing base, in order; otherwise it is a verbatim copy of the
    last provider's bytes. -/
theorem tree_mirrored (vars : Vars) (fs : FS) (walks : List (List WalkDir)) (q : Path) :
    getF (applyConfigs vars fs walks).files q =
      if providers walks q = [] then getF fs.files q
      else if plainName q then
        some ((getF fs.files q).getD [] ++ ((providers walks q).map (fun f => renderBytes vars f.body)).flatten)
      else (providers walks q).getLast?.map (fun f => srcBytes f.body) := by
  rw [getF_applyConfigs]
  by_cases hne : providers walks q = []
  · simp [hne]
  · simp only [hne, if_false]
    have hname : ∀ f ∈ providers walks q, plainText f.name = plainName q := by
      intro f hf
      simp only [plainName, providers_name walks q f hf]
    cases hp : plainName q
    · simp only [Bool.false_eq_true, if_false]
      exact foldl_step_binary vars _ _ (fun f hf => by rw [hname f hf, hp]) hne
    · simp only [if_true]
      exact foldl_step_plain vars _ _ (fun f hf => by rw [hname f hf, hp]) hne

/-- **tree_mirrored (directories)**: the directories afterwards are those from before plus the
    (non-empty prefixes of the) directories of the template trees — nothing else. -/
theorem tree_mirrored_dirs (vars : Vars) (fs : FS) (walks : List (List WalkDir)) (d : Path) :
    d ∈ (applyConfigs vars fs walks).dirs ↔
      d ∈ fs.dirs ∨ ∃ w ∈ walks, ∃ wd ∈ w, d ≠ [] ∧ d <+: wd.rel := by
  rw [mem_dirs_applyConfigs]
  simp only [mem_prefixes]

/-- a binary file is never rendered: its bytes are those lying in the team directory -/
theorem binary_verbatim (vars : Vars) (fs : FS) (walks : List (List WalkDir)) (q : Path) (f : SrcFile)
    (hl : (providers walks q).getLast? = some f) (hb : plainName q = false) :
    getF (applyConfigs vars fs walks).files q = some (srcBytes f.body) := by
  rw [tree_mirrored]
  have : providers walks q ≠ [] := by intro e; rw [e] at hl; cases hl
  simp [this, hb, hl]

/-- `prepare` = delete the pre-bundled `config` directory, then apply the car's config bases in
    `config_paths` order with the provisioner variables; so `tree_mirrored` speaks about the
    files `BareProvisioner.prepare` produces. -/
theorem prepare_applies_configs (t : TeamDir) (car : Car) (n : Node) (dist fs0 : FS) (dp : List Str)
    (hd : dataPaths car.vars n.esHome = .ok dp) (hc : deleteConfig dist = .ok fs0) :
    (prepare t car n dist).fs =
      applyConfigs (provisionerVars (installerVars car.vars n dp) []) fs0
        (car.configPaths.map (fun b => (baseOf t b).walk)) ∧
    (prepare t car n dist).vars = provisionerVars (installerVars car.vars n dp) [] := by
  simp [prepare, hd, hc]

/-- nothing of the pre-bundled configuration survives, everything else of the archive does -/
theorem deleteConfig_spec (dist fs0 : FS) (hc : deleteConfig dist = .ok fs0) (q : Path) (b : Bytes) :
    (q, b) ∈ fs0.files ↔ (q, b) ∈ dist.files ∧ q.head? ≠ some kConfig := by
  unfold deleteConfig at hc
  split at hc
  · injection hc with hc; subst hc
    simp [List.mem_filter]
  · cases hc

/-! ## cleanup -/

/-- **cleanup_all_or_nothing (nothing)**: with preserve-install nothing is removed. -/
theorem cleanup_preserve (installDir : Path) (dataPaths : List Path) (l : Listing) :
    cleanup true installDir dataPaths l = l := rfl

/-- The unconditional reading of the cleanup clause: afterwards nothing is left at or below the
    installation directory and every data path. -/
def CleanupRemovesAll : Prop :=
  ∀ (l : Listing) (installDir : Path) (dataPaths : List Path),
    ∀ e ∈ cleanup false installDir dataPaths l, ∀ d ∈ installDir :: dataPaths, ¬ d <+: e.1

def pTmp : Path := [cl!"tmp"]
def pLink : Path := [cl!"tmp", cl!"data"]

/-- It is false of the current code: `delete_path` uses `shutil.rmtree`, which raises `OSError`
    on a symbolic link (or a regular file); the error is logged and swallowed, so a data path
    that is a symbolic link to the real data directory survives cleanup together with the data. -/
theorem cleanup_removes_all_false : ¬ CleanupRemovesAll := by
  intro h
  have := h [(pTmp, .dir), (pLink, .link)] [cl!"tmp", cl!"install"] [pLink] (pLink, .link) (by decide) pLink (by decide)
  exact this (List.prefix_refl _)

/-- **cleanup_all_or_nothing (all)**, with the extra hypothesis spelled out: if the installation
    directory and every data path is a real directory or does not exist (`Clearable`), then without
    preserve-install nothing at or below any of them is left, nothing else is touched, and nothing
    is ever added. -/
theorem cleanup_all_or_nothing_partial (l : Listing) (installDir : Path) (dataPaths : List Path)
    (h : ∀ d ∈ installDir :: dataPaths, Clearable l d) :
    (∀ e ∈ cleanup false installDir dataPaths l, ∀ d ∈ installDir :: dataPaths, ¬ d <+: e.1) ∧
    (∀ e ∈ l, (∀ d ∈ installDir :: dataPaths, ¬ d <+: e.1) → e ∈ cleanup false installDir dataPaths l) ∧
    (cleanup false installDir dataPaths l).Sublist l := by
  have hc : cleanup false installDir dataPaths l = (dataPaths ++ [installDir]).foldl deletePath l := by
    simp [cleanup, List.foldl_append]
  rw [hc]
  refine ⟨?_, ?_, foldl_deletePath_sub _ _⟩
  · intro e he d hd
    apply gone_foldl_deletePath (dataPaths ++ [installDir]) l _ e he d
    · rcases List.mem_cons.mp hd with e1 | h1
      · simp [e1]
      · simp [h1]
    · intro d' hd'
      apply h
      rcases List.mem_append.mp hd' with h1 | h1
      · exact List.mem_cons_of_mem _ h1
      · simp at h1; simp [h1]
  · intro e he hk
    apply keep_foldl_deletePath _ _ _ he
    intro d hd
    apply hk
    rcases List.mem_append.mp hd with h1 | h1
    · exact List.mem_cons_of_mem _ h1
    · simp at h1; simp [h1]

/-- the spelling of a path as a string -/
def pathStr (p : Path) : Str := (cl!"/").intercalate p

def pInstall : Path := [cl!"node", cl!"install", cl!"elasticsearch-1.2.3"]
def pSibling : Path := [cl!"node", cl!"install", cl!"elasticsearch-1.2.3-data"]

/-- "below" is ancestry of *paths* (component lists), not prefix of *strings*: a sibling whose
    spelling extends the installation directory's is not below it. -/
theorem string_prefix_is_not_ancestor :
    ∃ i d : Path, (pathStr i).isPrefixOf (pathStr d) = true ∧ ¬ i <+: d :=
  ⟨pInstall, pSibling, by decide, by decide⟩

/-- **cleanup_removes_string_prefix_sibling** (an instance of `cleanup_all_or_nothing_partial`): a
    data path is removed whatever its spelling has in common with the installation directory's —
    in particular when it is a sibling such as `…/elasticsearch-1.2.3-data` next to
    `…/elasticsearch-1.2.3`, which a string-prefix test would mistake for "inside the installation". -/
theorem cleanup_removes_string_prefix_sibling (l : Listing) (installDir dataPath : Path)
    (_hs : (pathStr installDir).isPrefixOf (pathStr dataPath) = true)
    (hi : Clearable l installDir) (hd : Clearable l dataPath) :
    ∀ e ∈ cleanup false installDir [dataPath] l, ¬ dataPath <+: e.1 ∧ ¬ installDir <+: e.1 := by
  have h := (cleanup_all_or_nothing_partial l installDir [dataPath]
    (by intro d hd'; simp at hd'; rcases hd' with e | e <;> subst e <;> assumption)).1
  intro e he
  exact ⟨h e he dataPath (by simp), h e he installDir (by simp)⟩

/-- whatever the kinds: cleanup never adds or changes entries, and never touches anything outside
    the installation directory and the data paths -/
theorem cleanup_only_removes_below (preserve : Bool) (l : Listing) (installDir : Path) (dataPaths : List Path) :
    (cleanup preserve installDir dataPaths l).Sublist l ∧
    (∀ e ∈ l, (∀ d ∈ installDir :: dataPaths, ¬ d <+: e.1) → e ∈ cleanup preserve installDir dataPaths l) := by
  cases preserve
  · have hc : cleanup false installDir dataPaths l = (dataPaths ++ [installDir]).foldl deletePath l := by
      simp [cleanup, List.foldl_append]
    rw [hc]
    refine ⟨foldl_deletePath_sub _ _, ?_⟩
    intro e he hk
    apply keep_foldl_deletePath _ _ _ he
    intro d hd
    apply hk
    rcases List.mem_append.mp hd with h1 | h1
    · exact List.mem_cons_of_mem _ h1
    · simp at h1; simp [h1]
  · exact ⟨List.Sublist.refl _, fun e he _ => he⟩

/-! ## non-vacuity: concrete inputs meeting the hypotheses (tests, labelled as tests) -/

def vK : Str := cl!"heap"
def tBase1 : Base := ⟨[(vK, .str (cl!"1g")), (cl!"only_base", .str (cl!"b"))], false,
  [⟨[], []⟩, ⟨[cl!"config"], [⟨cl!"jvm.options", .tmpl [.text (cl!"-Xmx"), .var vK 0, .text (cl!"\n")]⟩,
                               ⟨cl!"x.bin", .blob [1, 2]⟩]⟩]⟩
def tBase2 : Base := ⟨[(vK, .str (cl!"2g"))], false,
  [⟨[cl!"config"], [⟨cl!"jvm.options", .tmpl [.text (cl!"-ea "), .var (cl!"http_port") 1]⟩, ⟨cl!"x.bin", .blob [3]⟩]⟩]⟩
def tTeam : TeamDir :=
  ⟨[(cl!"a", ⟨some (cl!"b1"), [(vK, .str (cl!"4g")), (cl!"http_port", .str (cl!"1"))]⟩),
    (cl!"m", ⟨some (cl!"b2,b1"), [(vK, .str (cl!"5g"))]⟩),
    (cl!"mix", ⟨none, [(cl!"only_mix", .str (cl!"z"))]⟩)],
   [(cl!"b1", tBase1), (cl!"b2", tBase2)]⟩
def tNames : List Str := [cl!"a", cl!"m", cl!"mix"]

/-- load succeeds, two bases in first-mention order, no duplicates -/
example : (loadCar tTeam tNames []).toOption.map (·.configPaths) = some [cl!"b1", cl!"b2"] := by decide
/-- later car wins over earlier car and over bases; base-only variable visible; params win over cars;
    Rally's http_port wins over the car's -/
example : (loadCar tTeam tNames []).toOption.bind (fun c => dget c.vars vK) = some (.str (cl!"5g")) := by decide
example : (loadCar tTeam tNames [(vK, .str (cl!"9g"))]).toOption.bind (fun c => dget c.vars vK) = some (.str (cl!"9g")) := by decide
example : (loadCar tTeam tNames []).toOption.bind (fun c => dget c.vars (cl!"only_base")) = some (.str (cl!"b")) := by decide
example : (loadCar tTeam tNames []).toOption.bind
    (fun c => dget (provisionerVars (installerVars c.vars node0 []) []) (cl!"http_port")) = some (.str (cl!"9200")) := by decide
example : dget (defaults node0 []) (cl!"http_port") = some (.str (cl!"9200")) := by decide
example : (match loadCar tTeam [cl!"mix"] [] with | .error .noConfigBase => true | _ => false) = true := by decide
example : (match loadCar tTeam [cl!"nope"] [] with | .error .unknownCar => true | _ => false) = true := by decide
/-- a path provided by two bases: plain text appended in base order after the old content, binary from the last -/
example : providers [tBase1.walk, tBase2.walk] [cl!"config", cl!"jvm.options"] ≠ [] := by decide
example : getF (applyConfigs [(vK, .str (cl!"5g")), (cl!"http_port", .str (cl!"9200"))]
      ⟨[([cl!"config", cl!"jvm.options"], utf8 (cl!"#old\n"))], []⟩ [tBase1.walk, tBase2.walk]).files
      [cl!"config", cl!"jvm.options"] = some (utf8 (cl!"#old\n-Xmx5g\n-ea 9200\n")) := by decide
example : getF (applyConfigs [] ⟨[], []⟩ [tBase1.walk, tBase2.walk]).files [cl!"config", cl!"x.bin"] = some [3] := by decide
example : (applyConfigs [] ⟨[], []⟩ [tBase1.walk, tBase2.walk]).dirs = [[cl!"config"]] := by decide
example : plainName [cl!"config", cl!"jvm.options"] = true ∧ plainName [cl!"config", cl!"x.bin"] = false := by decide
/-- the hypotheses of `prepare_applies_configs` are satisfiable, and a whole `prepare` succeeds -/
example : (dataPaths [] node0.esHome).toOption.isSome ∧ (deleteConfig ⟨[], [[kConfig]]⟩).toOption.isSome := by decide
example : ((loadCar tTeam tNames [(kRuntimeJdk, .str (cl!"17")), (kRuntimeJdkBundled, .bool true)]).toOption.map
    (fun c => (prepare tTeam c node0 ⟨[([kConfig, cl!"jvm.options"], [1])], [[kConfig]]⟩).result.toOption.isSome)) = some true := by decide
/-- a plugin that does not use the name leaves the hypothesis of `internal_not_overridable` true -/
example : ∀ p ∈ [(⟨cl!"x-pack", false, [(cl!"plugin_name", .str (cl!"x"))]⟩ : Plugin)], (cl!"http_port") ∉ keys p.vars := by decide
/-- cleanup: hypotheses of the partial theorem hold on a listing where something is actually removed -/
example : cleanup false [cl!"r", cl!"install"] [[cl!"d"]]
    [([cl!"r"], .dir), ([cl!"r", cl!"install"], .dir), ([cl!"r", cl!"install", cl!"f"], .file), ([cl!"d"], .dir),
     ([cl!"d", cl!"x"], .link), ([cl!"keep"], .file)] = [([cl!"r"], .dir), ([cl!"keep"], .file)] := by decide
example : Clearable [([cl!"d"], .dir), ([cl!"d", cl!"x"], .link)] [cl!"d"] := Or.inl (by decide)
/-- the string-prefix sibling and its content are removed, an unrelated neighbour stays -/
example : cleanup false pInstall [pSibling]
    [([cl!"node"], .dir), ([cl!"node", cl!"install"], .dir), (pInstall, .dir), (pInstall ++ [cl!"bin"], .dir), (pSibling, .dir),
     (pSibling ++ [cl!"segments_1"], .file), ([cl!"node", cl!"install", cl!"other"], .dir)]
    = [([cl!"node"], .dir), ([cl!"node", cl!"install"], .dir), ([cl!"node", cl!"install", cl!"other"], .dir)] := by decide
example : (deleteConfig ⟨[([cl!"config", cl!"e.yml"], [1]), ([cl!"bin", cl!"es"], [2])], [[cl!"config"], [cl!"bin"]]⟩).toOption
    = some ⟨[([cl!"bin", cl!"es"], [2])], [[cl!"bin"]]⟩ := by decide

/-! ## sessions: several loads / provisionings in one process (model: `RallyModel/TeamSession.lean`)

`run d steps` threads the disk through a list of `write` (a team directory appears or is switched in
place) and `load` (`team.load_car`, optionally followed by `BareProvisioner.prepare`) steps;
`answer d root names params prov` is ONE call in a fresh process that sees the disk `d`. -/

/-- every answer of a session is the answer of an independent call on the disk that the `write` steps
    before it have produced: position in the session, earlier loads (of the same or of another team
    directory) and later steps do not matter -/
def independent (d : Disk) : List Step → List Step → List Answer
  | _, [] => []
  | pre, .write r t :: ss => independent d (pre ++ [.write r t]) ss
  | pre, .load r n p pr :: ss =>
    answer (diskAfter d (pre.filter Step.isWrite)) r n p pr :: independent d (pre ++ [.load r n p pr]) ss

/-- **session_is_map_of_independent_calls**: a sequence of `load_car` / provisioning calls in one process
    answers exactly like the independent calls, each on the files that are on disk at its moment. -/
theorem session_is_map_of_independent_calls (d : Disk) (steps : List Step) :
    run d steps = independent d [] steps := by
  suffices h : ∀ (ss pre : List Step), run (diskAfter d pre) ss = independent d pre ss from h steps []
  intro ss
  induction ss with
  | nil => intro pre; rfl
  | cons s ss ih =>
    intro pre
    cases s with
    | write r t =>
      have := ih (pre ++ [.write r t])
      rw [diskAfter_append] at this
      simpa [run, step, independent, diskAfter] using this
    | load r n p pr =>
      have := ih (pre ++ [.load r n p pr])
      rw [diskAfter_append] at this
      simp only [run, step, independent, diskAfter_filter_writes]
      simpa [diskAfter] using this

/-- the same, spelled out for one load in the middle of a session -/
theorem session_answer_is_independent_call (d : Disk) (pre post : List Step) (root : Str) (names : List Str)
    (params : Vars) (prov : Option Prov) :
    run d (pre ++ .load root names params prov :: post) =
      run d pre ++ answer (diskAfter d (pre.filter Step.isWrite)) root names params prov :: run (diskAfter d pre) post := by
  rw [run_append, diskAfter_filter_writes]
  simp [run, step]

/-- **loads_leave_no_trace**: dropping a load from a session drops its answer and changes no other answer
    (no cache, no memo: a load carries nothing over to later calls). -/
theorem loads_leave_no_trace (d : Disk) (pre post : List Step) (root : Str) (names : List Str)
    (params : Vars) (prov : Option Prov) :
    ∃ a rest, run d (pre ++ .load root names params prov :: post) = run d pre ++ a :: rest ∧
      run d (pre ++ post) = run d pre ++ rest := by
  refine ⟨answer (diskAfter d pre) root names params prov, run (diskAfter d pre) post, ?_, run_append d pre post⟩
  rw [run_append]
  simp [run, step]

/-- **load_reads_only_its_root**: other team directories on disk (with config bases and cars of the same
    names) have no influence on a load. -/
theorem load_reads_only_its_root (d d' : Disk) (root : Str) (names : List Str) (params : Vars) (prov : Option Prov)
    (h : assoc d root = assoc d' root) : answer d root names params prov = answer d' root names params prov :=
  answer_congr d d' root names params prov h

/-- **load_sees_last_write**: after a team directory was (re)written, a load from it answers as if that
    content were the only thing the process has ever seen — whatever was there before, whatever was loaded
    before, and whatever happened to other directories in between. -/
theorem load_sees_last_write (d : Disk) (pre mid : List Step) (root : Str) (t : TeamDir) (names : List Str)
    (params : Vars) (prov : Option Prov) (hmid : ∀ s ∈ mid, Step.writesTo root s = false) :
    answer (diskAfter d (pre ++ .write root t :: mid)) root names params prov = answer [(root, t)] root names params prov := by
  apply answer_congr
  rw [diskAfter_append]
  simp only [diskAfter]
  rw [assoc_diskAfter_untouched _ _ _ hmid, assoc_writeTeam_same]
  simp [assoc]

/-- **session_var_precedence**: in every session, the variables of a successfully loaded car follow the
    documented ranking over the files that are at its root at that moment (car parameter > car / mixin
    variable, later first > config-base variable, later first). -/
theorem session_var_precedence (d : Disk) (pre : List Step) (root : Str) (t : TeamDir) (n : Str) (names : List Str)
    (params : Vars) (prov : Option Prov) (car : Car)
    (ht : assoc (diskAfter d pre) root = some t)
    (h : (answer (diskAfter d (pre.filter Step.isWrite)) root (n :: names) params prov).car = .ok car) (k : Str) :
    dget car.vars k = ranked (params :: (carVarLists t (n :: names)).reverse ++ (baseVarLists t (n :: names)).reverse) k := by
  rw [diskAfter_filter_writes] at h
  have hl : loadCar t (n :: names) params = .ok car := by
    unfold answer loadCarAt at h
    rw [ht] at h
    cases hc : loadCar t (n :: names) params with
    | error e => simp [hc, liftErr] at h
    | ok c => simp [hc, liftErr] at h; rw [h]
  exact car_variables_precedence t (n :: names) params car hl k

/-! non-vacuity of the session theorems: two team directories with a config base of the same name and
    different variables, and one of them switched in place -/
def sBaseOld : Base := ⟨[(vK, .str (cl!"1g")), (cl!"zen", .str (cl!"3s"))], false, []⟩
def sBaseNew : Base := ⟨[(vK, .str (cl!"2g")), (cl!"seed", .str (cl!"file"))], false, []⟩
def sTeamOld : TeamDir := ⟨[(cl!"defaults", ⟨some (cl!"vanilla"), []⟩)], [(cl!"vanilla", sBaseOld)]⟩
def sTeamNew : TeamDir := ⟨[(cl!"defaults", ⟨some (cl!"vanilla"), []⟩)], [(cl!"vanilla", sBaseNew)]⟩
def sSteps : List Step :=
  [.write (cl!"/a") sTeamOld, .load (cl!"/a") [cl!"defaults"] [] none, .write (cl!"/b") sTeamNew,
   .load (cl!"/b") [cl!"defaults"] [] none, .write (cl!"/a") sTeamNew, .load (cl!"/a") [cl!"defaults"] [] none,
   .load (cl!"/c") [cl!"defaults"] [] none, .load (cl!"/c") [] [] none]

def heapOf (a : Answer) : Option Val := a.car.toOption.bind (fun c => dget c.vars vK)

/-- three loads: old value, new value from the other directory, new value after the switch in place (and the
    variable the old base defined is gone); a missing directory is an error unless no car is named -/
example : (run [] sSteps).map heapOf =
    [some (.str (cl!"1g")), some (.str (cl!"2g")), some (.str (cl!"2g")), none, none] := by decide
example : ((run [] sSteps).map (fun a => a.car.toOption.bind (fun c => dget c.vars (cl!"zen")))) =
    [some (.str (cl!"3s")), none, none, none, none] := by decide
example : ((run [] sSteps).map (fun a => match a.car with | .error .noTeam => 1 | .error (.team .noConfigBase) => 2 | _ => 0)) =
    [0, 0, 0, 1, 2] := by decide
/-- hypotheses of `load_sees_last_write` / `session_var_precedence` are satisfiable -/
example : ∀ s ∈ [Step.write (cl!"/b") sTeamNew, .load (cl!"/b") [cl!"defaults"] [] none], Step.writesTo (cl!"/a") s = false := by decide
example : (assoc (diskAfter [] (sSteps.take 5)) (cl!"/a")).isSome = true := by decide
example : (answer (diskAfter [] ((sSteps.take 5).filter Step.isWrite)) (cl!"/a") [cl!"defaults"] []
    (some ⟨node0, ⟨[], [[kConfig]]⟩⟩)).prepared.isSome = true := by decide

end C13
