import RallyModel.Corpus
import RallyProofs.Corpus
/-!
# C14 — corpus preparation ends with complete, verified data or an explicit error

Model: `RallyModel/Corpus.lean` (`prepareLoop` = `DocumentSetPreparator.prepare_document_set` with fuel,
`bundledLoop` = `prepare_bundled_document_set`).  All theorems quantify over **every** initial file-system state
(document, archive, `.tmp`, `.offset`: absent or any size / content / mtime — hence over every state a crash of an
earlier run can leave: the crash-left states are the elements of `trace`), every document-set specification, every
plan of HTTP outcomes and every behaviour of the decompression library (`World`).

* `prepare_else_explicit_error`, `prepare_fuel_irrelevant`, `prepare_never_out_of_fuel`: three loop iterations always
  suffice; the result is a normal return or one of the exceptions of `CodeErr`.
* `download_atomic`, `download_never_partial`: in every reachable state (crash states included) the download's final
  name holds what was there before or a completely received, size-verified body.
* `prepare_ok_means_verified` (+ `bundled_true_means_verified`): a normal return means published content, declared
  size and a complete offset table — under hypotheses the proof forces: the uncompressed size is declared and the
  archive format does not restore mtimes (two open findings, each shown necessary by a witness, `*_needed*`; the
  statement without them, `FullStatement`, is refuted), and the no-checksum assumptions (no foreign `.offset` with a
  newer mtime, no other bytes of exactly the published size).
* `completed_run_keeps_line_count_memo`, `retry_after_any_run_checks_line_count`: the offset table as memo of the line-
  count check is kept sound by every *completed* run (returned or raised), so a failed verification is not forgotten by
  a retry; `line_count_memo_broken_in_crash_window`: it is not sound between `os.replace` and the comparison (open).
* `decompress_ok_means_tool_or_library_succeeded`: a failed external tool never counts as a successful decompression.
* `prepare_docs_ok_means_resolved_file_verified`: the caller with one or two data directories and the path resolution
  afterwards: the file the challenge reads is the verified one.
* `used_docsets_complete`, `used_docsets_sound`: the set of document sets handed to preparation is exactly what the
  leaf tasks of the selected challenge select (every task counts, however its operation is named).
* `crash_states_keep_offset_table_sound`: the offset-table assumption is *preserved* by the code: no state the
  preparation passes through — hence no crash — leaves a table that is valid by mtime but not the document's complete
  table (the table is built under `.offset.tmp` and published atomically).
-/
namespace C14
open Corpus Corpus.Witness

/-! ## 1. explicit error or normal return; the loop terminates -/

/-- **prepare_else_explicit_error**: for every initial state, specification and outcome plan, with three iterations of
    fuel (and hence with any larger bound) `prepare_document_set` has returned normally or raised one of the explicit
    exceptions listed in `CodeErr`; it never loops on. -/
theorem prepare_else_explicit_error (w : World) (spec : Spec) (fs : FS) (plan : List Attempt) (n : Nat) :
    (prepareLoop w spec (n + 3) fs plan).res = .done () ∨ ∃ e : CodeErr, (prepareLoop w spec (n + 3) fs plan).res = .raised e := by
  rcases loop_terminates w spec fs plan n with ⟨a, h⟩ | h
  · exact Or.inl h
  · exact Or.inr h

/-- more fuel than three iterations changes nothing (result, final state and every intermediate state) -/
theorem prepare_fuel_irrelevant (w : World) (spec : Spec) (fs : FS) (plan : List Attempt) (n : Nat) :
    prepareLoop w spec (n + 3) fs plan = prepare w spec fs plan :=
  loop_fuel_irrelevant w spec fs plan n

/-- `FUEL = 3` is enough: `prepare` never reports `outOfFuel` -/
theorem prepare_never_out_of_fuel (w : World) (spec : Spec) (fs : FS) (plan : List Attempt) :
    (prepare w spec fs plan).res ≠ .outOfFuel :=
  terminated_ne (loop_terminates w spec fs plan 0)

/-- `prepare_bundled_document_set` needs at most two iterations -/
theorem bundled_never_out_of_fuel (w : World) (spec : Spec) (fs : FS) :
    (prepareBundled w spec fs).res ≠ .outOfFuel :=
  bundled_terminates w spec fs 0

/-! ## 2. the final name of a download never holds a partial download -/

/-- **download_atomic**: in every state the preparation passes through — so in every state a crash can leave —
    the download's final name (the archive; the document file when the corpus has no archive) holds what it held at
    the start, or the *completely received* body of one of the responses (2xx, stream ended without error), whose size
    was verified against the declared size, else against Content-Length when the response had one. -/
theorem download_atomic (w : World) (spec : Spec) (fs : FS) (plan : List Attempt) (fuel : Nat) :
    (∀ s ∈ (prepareLoop w spec fuel fs plan).trace, FinalNameOk spec plan (fs.get (target spec)) (s.get (target spec))) ∧
    FinalNameOk spec plan (fs.get (target spec)) ((prepareLoop w spec fuel fs plan).fs.get (target spec)) :=
  loop_final_name w spec plan (fs.get (target spec)) fuel fs plan (fun _ h => h) (Or.inl rfl)

/-- the size is known: declared by the track, or every completely received response carries Content-Length = `real` -/
def LengthKnown (spec : Spec) (plan : List Attempt) (real : Nat) : Prop :=
  targetSize spec = some real ∨
  (targetSize spec = none ∧ ∀ st cl cid chunks, Attempt.resp st cl cid chunks .clean ∈ plan → cl = some real)

/-- **download_never_partial**: if the real size of the published file is known (declared truthfully, or sent as
    Content-Length), a file that appears under the final name in any reachable state has exactly that size — a
    short body (dropped connection, truncated response) is never installed. -/
theorem download_never_partial (w : World) (spec : Spec) (fs : FS) (plan : List Attempt) (fuel real : Nat)
    (hk : LengthKnown spec plan real) :
    ∀ s ∈ (prepareLoop w spec fuel fs plan).trace,
      s.get (target spec) = fs.get (target spec) ∨ ∃ f, s.get (target spec) = some f ∧ f.size = real := by
  intro s hs
  rcases (download_atomic w spec fs plan fuel).1 s hs with h | ⟨f, h1, st, cl, cid, chunks, hm, _, _, _, hv⟩
  · exact Or.inl h
  · refine Or.inr ⟨f, h1, ?_⟩
    rcases hk with hk | ⟨hk1, hk2⟩
    · exact hv real (by simp [expectedOr, hk])
    · exact hv real (by simp [expectedOr, hk1, hk2 st cl cid chunks hm])

/-- without any length information the statement is false: HTTP itself cannot tell a short body from a complete one -/
def DownloadNeverPartial_Full : Prop :=
  ∀ (w : World) (spec : Spec) (fs : FS) (plan : List Attempt) (fuel real : Nat),
    ∀ s ∈ (prepareLoop w spec fuel fs plan).trace,
      s.get (target spec) = fs.get (target spec) ∨ ∃ f, s.get (target spec) = some f ∧ f.size = real

/-- witness: no declared size, no Content-Length, the connection ends cleanly after 25 of 40 bytes -/
theorem download_never_partial_full_false : ¬ DownloadNeverPartial_Full := by
  intro h
  have := h w0 ⟨true, none, none, 10, true, false, false⟩ emptyFS [.resp 200 none .pub [25] .clean] 1 40
    ⟨none, some ⟨25, .pub, 2⟩, none, none, none, 4⟩ (by decide)
  revert this
  decide

/-! ## 3. a normal return means complete, verified data -/

/-- **prepare_ok_means_verified** (the `_partial` version: hypotheses `Hyp`, `Inv` spelled out in
    `RallyProofs/Corpus.lean`): if the uncompressed size is declared truthfully, the archive format does not restore
    mtimes, no other bytes of exactly the published size are around, mtimes are not in the future and an offset table
    that is not older than the document is that document's complete table, then — for every initial state of document,
    archive and `.tmp`, every compressed-size declaration, every line count and every sequence of download and
    decompression outcomes — a normal return of `prepare_document_set` leaves the document file with the published
    content and the declared size, and the complete offset table of exactly these bytes, not older than the file. -/
theorem prepare_ok_means_verified (w : World) (spec : Spec) (fs : FS) (plan : List Attempt) (fuel : Nat)
    (hyp : Hyp w spec plan) (hinv : Inv w fs) (hok : (prepareLoop w spec fuel fs plan).res = .done ()) :
    Verified w (prepareLoop w spec fuel fs plan).fs :=
  loop_verified w spec plan hyp fuel fs plan (fun _ h => h) hinv hok

/-- the same for `prepare_bundled_document_set` returning `True` -/
theorem bundled_true_means_verified (w : World) (spec : Spec) (fs : FS) (fuel : Nat)
    (hyp : Hyp w spec []) (hinv : Inv w fs) (hok : (bundledLoop w spec fuel fs).res = .done true) :
    Verified w (bundledLoop w spec fuel fs).fs :=
  bundled_verified w spec hyp.usize hyp.noMtimeRestore hyp.dcGarbage fuel fs hinv hok

/-- in particular the declared size is the size on disk -/
theorem prepare_ok_declared_size (w : World) (spec : Spec) (fs : FS) (plan : List Attempt) (fuel : Nat)
    (hyp : Hyp w spec plan) (hinv : Inv w fs) (hok : (prepareLoop w spec fuel fs plan).res = .done ()) :
    ∃ d, (prepareLoop w spec fuel fs plan).fs.doc = some d ∧ spec.usize = some d.size := by
  obtain ⟨d, _, h1, h2, _⟩ := prepare_ok_means_verified w spec fs plan fuel hyp hinv hok
  exact ⟨d, h1, by rw [hyp.usize, h2]⟩

/-! ### the statement without the forced hypotheses is false of the current code

`Admissible` (`RallyProofs/Corpus.lean`) = the property's own quantifier: truthful declarations *when* declared, no
other bytes of exactly the published size, no foreign `.offset` with a newer mtime (nothing can tell these apart:
there are no checksums), mtimes not in the future.  It does **not** require a declared size or a format that leaves
mtimes alone. -/

def FullStatement : Prop :=
  ∀ (w : World) (spec : Spec) (fs : FS) (plan : List Attempt), Admissible w spec fs plan →
    (prepare w spec fs plan).res = .done () → Verified w (prepare w spec fs plan).fs

/-- **the full statement is false** (witness D2: nothing declared falsely, sound state, matching line count — a
    document whose last bytes are missing is accepted because the uncompressed size is not declared) -/
theorem full_statement_false : ¬ FullStatement := by
  intro h
  have hv := h w0 specUndeclared fsPartialDoc [] adm_partialDoc (by decide)
  rw [verified_iff] at hv
  revert hv
  decide

/-- hypothesis "uncompressed size declared" is needed (finding `partial-document-accepted-size-undeclared`): the initial
    state satisfies `Inv`, the track declares nothing false, the line count matches — and a torn document is accepted -/
theorem declared_size_needed_partial_document :
    Inv w0 fsPartialDoc ∧ Admissible w0 specUndeclared fsPartialDoc [] ∧
    (prepare w0 specUndeclared fsPartialDoc []).res = .done () ∧ ¬ Verified w0 (prepare w0 specUndeclared fsPartialDoc []).fs := by
  refine ⟨inv_partialDoc, adm_partialDoc, by decide, ?_⟩
  rw [verified_iff]; decide

/-- hypothesis "the format does not restore mtimes" is needed (finding
    `stale-offset-table-kept-because-tar-extraction-restores-mtime`): sizes declared, `Inv` holds (the table on disk
    *is* the complete table of the (other, wrong-sized) document on disk), download/extraction flawless — the stale
    table is kept because the extracted file is older than it -/
theorem no_mtime_restore_needed :
    Inv wTar fsOtherDocWithTable ∧ specDeclared.usize = some wTar.dSize ∧
    (prepare wTar specDeclared fsOtherDocWithTable []).res = .done () ∧
    ¬ Verified wTar (prepare wTar specDeclared fsOtherDocWithTable []).fs := by
  refine ⟨inv_otherDoc, rfl, by decide, ?_⟩
  rw [verified_iff]; decide

/-- the offset-table assumption is a real assumption (no checksum): a foreign / torn `.offset` that is newer than a
    complete, right-sized document is taken as valid -/
theorem foreign_offset_table_is_trusted :
    Hyp w0 specDeclared [] ∧ (prepare w0 specDeclared fsTornTable []).res = .done () ∧
    ¬ Verified w0 (prepare w0 specDeclared fsTornTable []).fs := by
  refine ⟨hyp_w0 [], by decide, ?_⟩
  rw [verified_iff]; decide

/-- **crash_states_keep_offset_table_sound**: … but the code itself never produces such a table.  If mtimes are not in
    the future and the table on disk, when not older than the document, is that document's complete table, then the
    same holds in *every* state `prepare_document_set` passes through (every crash state) and in its final state, for
    every specification, outcome plan and decompression behaviour that does not restore mtimes: the table is built
    under `<document>.offset.tmp` and appears under its final name only complete. -/
theorem crash_states_keep_offset_table_sound (w : World) (spec : Spec) (fs : FS) (plan : List Attempt) (fuel : Nat)
    (hm : ∀ c s, (w.dc c s).mtime = none) (hinv : OffInv fs) :
    (∀ x ∈ (prepareLoop w spec fuel fs plan).trace, OffInv x) ∧ OffInv (prepareLoop w spec fuel fs plan).fs :=
  loop_offInv w spec hm fuel fs plan hinv

/-! ## 4. state carried from one run to the next: the offset table as memo of the line-count check -/

/-- **completed_run_keeps_line_count_memo**: `LinesMemo` = "a table that is valid by mtime belongs to a document whose
    line count is the declared one".  For every specification (sizes declared or not), outcome plan and decompression
    behaviour that does not restore mtimes: a *completed* run — returned **or raised** — leaves the memo sound (a table
    built for a document that fails the comparison is removed again), and a normal return means that the document on
    disk has the declared number of lines (compared now, or vouched for by the memo). -/
theorem completed_run_keeps_line_count_memo (w : World) (spec : Spec) (fs : FS) (plan : List Attempt) (fuel : Nat)
    (hm : ∀ c s, (w.dc c s).mtime = none) (hinv : OffInv fs) (hmemo : LinesMemo w spec fs) :
    LinesMemo w spec (prepareLoop w spec fuel fs plan).fs ∧
    ((prepareLoop w spec fuel fs plan).res = .done () →
      ∃ d, (prepareLoop w spec fuel fs plan).fs.doc = some d ∧ w.lines d.cid d.size = spec.nlines) :=
  loop_linesMemo w spec hm fuel fs plan hinv hmemo

/-- **retry_after_any_run_checks_line_count**: run, then run again on whatever the first run left — after a return or after
    any error, with any two outcome plans: if the retry returns normally, the document has the declared line count.
    A failed verification is never forgotten by a retry. -/
theorem retry_after_any_run_checks_line_count (w : World) (spec : Spec) (fs : FS) (plan1 plan2 : List Attempt) (f1 f2 : Nat)
    (hm : ∀ c s, (w.dc c s).mtime = none) (hinv : OffInv fs) (hmemo : LinesMemo w spec fs)
    (hok : (prepareLoop w spec f2 (prepareLoop w spec f1 fs plan1).fs plan2).res = .done ()) :
    ∃ d, (prepareLoop w spec f2 (prepareLoop w spec f1 fs plan1).fs plan2).fs.doc = some d ∧
      w.lines d.cid d.size = spec.nlines :=
  (loop_linesMemo w spec hm f2 _ plan2 (loop_offInv w spec hm f1 fs plan1 hinv).2
    (loop_linesMemo w spec hm f1 fs plan1 hinv hmemo).1).2 hok

/-- … but the memo is **not** sound in every *intermediate* state of the current code: the table is published
    (`os.replace`) before the line count is compared.  Witness: half a document, nothing declared.  The run itself
    raises `linesMismatch` and removes the table; a kill between the two steps leaves `fsHalfDocPublished`, which
    satisfies `OffInv`, and the retry on it returns normally with 6 lines where 10 are declared. -/
theorem line_count_memo_broken_in_crash_window :
    (prepare wLines specUndeclared fsHalfDoc []).res = .raised .linesMismatch ∧
    fsHalfDocPublished ∈ (prepare wLines specUndeclared fsHalfDoc []).trace ∧
    OffInv fsHalfDocPublished ∧ ¬ LinesMemo wLines specUndeclared fsHalfDocPublished ∧
    (prepare wLines specUndeclared fsHalfDocPublished []).res = .done () ∧
    (prepare wLines specUndeclared fsHalfDocPublished []).fs.doc = some ⟨50, .pub, 1⟩ ∧
    wLines.lines .pub 50 ≠ specUndeclared.nlines := by
  refine ⟨by decide, by decide, ⟨?_, ?_, ?_⟩, ?_, by decide, by decide, by decide⟩
  · intro d h; cases h; decide
  · intro o h; cases h; decide
  · intro o d h1 h2 _; cases h1; cases h2; rfl
  · intro h
    exact absurd (h ⟨.complete 50 .pub, 3⟩ ⟨50, .pub, 1⟩ rfl rfl (by decide)) (by decide)

/-! ## 5. format dispatch and fallback to the library -/

/-- **decompress_ok_means_tool_or_library_succeeded**: `io.decompress` returns normally only if the archive could be
    opened and either the external tool exited with status 0 or the library path (with its checksum verification) ran
    to the end without raising — a failed tool never counts as success. -/
theorem decompress_ok_means_tool_or_library_succeeded (o : DcOutcome) (fs : FS) (h : (ioDecompress o fs).1 = none) :
    o.openFails = false ∧ ((∃ n, o.ext = some (n, true)) ∨ o.fails = false) := by
  by_cases hopen : o.openFails
  · simp [ioDecompress, hopen] at h
  refine ⟨by simpa using hopen, ?_⟩
  cases hext : o.ext with
  | none =>
    right
    simp only [ioDecompress, hopen, hext, dcError] at h
    by_cases hf : o.fails
    · simp [hf] at h
    · simpa using hf
  | some p =>
    obtain ⟨n, b⟩ := p
    cases b with
    | true => exact Or.inl ⟨n, rfl⟩
    | false =>
      right
      simp only [ioDecompress, hopen, hext, dcError] at h
      by_cases hf : o.fails
      · simp [hf] at h
      · simpa using hf

/-! ## 6. the caller: prepare_docs with one or two data directories, and the file the challenge reads -/

/-- **prepare_docs_ok_means_resolved_file_verified**: `DefaultTrackPreparator.prepare_docs` with one data directory
    (track repository) or two (`--track-path`: bundled attempt in the track directory, fall-back to the corpus
    directory only when the bundled attempt returns `False`), followed by `set_absolute_data_path` (first directory in
    which the document file exists).  For every state of both directories, specification and outcome plan (same
    hypotheses as `prepare_ok_means_verified`, for each directory): if `prepare_docs` returns normally, the directory
    the document file is *resolved* to holds the verified file with its complete table.  (A `DataError` of the bundled
    attempt is not swallowed, and `False` is only returned when the track directory has no document file, so a bad
    bundled file can never shadow the verified copy in the corpus directory.) -/
theorem prepare_docs_ok_means_resolved_file_verified (w : World) (spec : Spec) (two : Bool) (fsT fsC : FS) (plan : List Attempt)
    (hyp : Hyp w spec plan) (hT : Inv w fsT) (hC : Inv w fsC)
    (hok : (prepareDocs w spec two fsT fsC plan).res = .done ()) :
    ∃ fs, resolveDoc two (prepareDocs w spec two fsT fsC plan).track (prepareDocs w spec two fsT fsC plan).corpus = some fs ∧
      Verified w fs :=
  prepareDocs_verified w spec two fsT fsC plan hyp hT hC hok

/-- `prepare_bundled_document_set` returns `False` only if that directory has no document file -/
theorem bundled_false_means_no_document_file (w : World) (spec : Spec) (fs : FS)
    (h : (prepareBundled w spec fs).res = .done false) : (prepareBundled w spec fs).fs.doc = none :=
  bundled_false_no_doc w spec BFUEL fs h

/-- non-vacuity: a wrong-sized bundled document file with a complete archive in the corpus directory is an explicit
    error (not a silent fall-back); without the bundled file the corpus directory is prepared and resolved -/
example : (prepareDocs w0 specDeclared true ⟨some ⟨61, .pub, 1⟩, none, none, none, none, 2⟩
    ⟨none, some ⟨40, .pub, 1⟩, none, none, none, 2⟩ []).res = .raised .bundledDocWrongSize := by decide
example : (prepareDocs w0 specDeclared true emptyFS ⟨none, some ⟨40, .pub, 1⟩, none, none, none, 2⟩ []).res = .done () ∧
    (resolveDoc true (prepareDocs w0 specDeclared true emptyFS ⟨none, some ⟨40, .pub, 1⟩, none, none, none, 2⟩ []).track
      (prepareDocs w0 specDeclared true emptyFS ⟨none, some ⟨40, .pub, 1⟩, none, none, none, 2⟩ []).corpus).isSome = true := by decide

/-! ## 7. which document sets are prepared: everything some task of the selected challenge reads -/

/-- **used_docsets_complete**: for every track (document sets with any targets) and every schedule (any mix of tasks,
    filters, repeated or equal-looking operations): a document set that *some* leaf task of the selected challenge
    selects is in the set handed to preparation -/
theorem used_docsets_complete (docs : List DocSet) (tasks : List TaskSel) (u : List DocSet)
    (h : usedDocsets docs tasks = some u) (t : TaskSel) (ht : t ∈ tasks) (d : DocSet) (hd : d ∈ docs) (hs : selects t d = true) :
    d ∈ u := by
  unfold usedDocsets at h
  split at h
  · rename_i he; simp [List.isEmpty_iff] at he; subst he; cases hd
  · split at h
    · cases h
    · cases h
      exact List.mem_filter.mpr ⟨hd, List.any_eq_true.mpr ⟨t, ht, hs⟩⟩

/-- … and nothing else is prepared: every member of the set is read by some task -/
theorem used_docsets_sound (docs : List DocSet) (tasks : List TaskSel) (u : List DocSet)
    (h : usedDocsets docs tasks = some u) (d : DocSet) (hd : d ∈ u) : d ∈ docs ∧ ∃ t ∈ tasks, selects t d = true := by
  unfold usedDocsets at h
  split at h
  · cases h; cases hd
  · split at h
    · cases h
    · cases h
      have := List.mem_filter.mp hd
      exact ⟨this.1, List.any_eq_true.mp this.2⟩

/-- **collected_tasks_cover_every_used_corpus**: however the consumer handles the tasks that `on_prepare_track` yields —
    executed while iterating, or collected first and handed out later in any order (`TrackPreparationActor._seed_tasks`,
    `tasks.pop()`) — each task stands for its own corpus, so every corpus with a used document set is prepared by one
    of them (a sequence of tasks is the map of independent tasks: nothing is shared between them) -/
theorem collected_tasks_cover_every_used_corpus (corpora : List Nat) (used : List DocSet) (handedOut : List Nat)
    (hperm : handedOut.Perm (prepareTasks corpora used)) (d : DocSet) (hd : d ∈ used) (hc : d.corpus ∈ corpora) :
    d.corpus ∈ handedOut := by
  refine hperm.mem_iff.mpr ?_
  unfold prepareTasks
  exact List.mem_filter.mpr ⟨hc, List.any_eq_true.mpr ⟨d, hd, by simp⟩⟩

/-- non-vacuity: two tasks with equal-looking (unnamed, same type) operations that restrict the indices differently
    use both document sets; a search task uses none -/
example : usedDocsets [⟨1, 0, some 10, none, true⟩, ⟨2, 0, some 11, none, true⟩]
    [⟨true, none, [10], []⟩, ⟨false, none, [], []⟩, ⟨true, none, [11], []⟩] =
    some [⟨1, 0, some 10, none, true⟩, ⟨2, 0, some 11, none, true⟩] := by decide

/-- the zero-lines quirk is gone: an empty document where 10 lines are expected is an explicit error, and neither the
    table nor its temporary file stays behind -/
theorem empty_document_is_rejected :
    (prepare w0 specUndeclared fsEmptyDoc []).res = .raised .linesMismatch ∧
    (prepare w0 specUndeclared fsEmptyDoc []).fs.off = none ∧ (prepare w0 specUndeclared fsEmptyDoc []).fs.offTmp = none := by
  decide

/-! ### non-vacuity: the hypotheses are satisfiable and lead to a normal return through every branch -/

def goodPlan : List Attempt :=
  [.resp 200 (some 40) .pub [25] .protocolError, .resp 200 (some 40) .pub [25, 15] .clean]

/-- nothing on disk, one dropped connection, then a good download, decompression, table build: normal return with
    exactly the verified state, after 12 atomic steps -/
example : (prepare w0 specDeclared emptyFS goodPlan).res = .done () ∧
    verifiedB w0 (prepare w0 specDeclared emptyFS goodPlan).fs = true ∧
    (prepare w0 specDeclared emptyFS goodPlan).fs.arch.map (·.size) = some 40 ∧
    (prepare w0 specDeclared emptyFS goodPlan).trace.length = 12 := by decide

example : Verified w0 (prepare w0 specDeclared emptyFS goodPlan).fs :=
  prepare_ok_means_verified w0 specDeclared emptyFS goodPlan FUEL (hyp_w0 _) inv_empty (by decide)

/-- a partial document left by a crashed decompression and a stale table are repaired when the size is declared -/
example : (prepare w0 specDeclared ⟨some ⟨97, .pub, 3⟩, some ⟨40, .pub, 1⟩, none, some ⟨.complete 97 .pub, 2⟩, none, 4⟩ []).res = .done () ∧
    verifiedB w0 (prepare w0 specDeclared ⟨some ⟨97, .pub, 3⟩, some ⟨40, .pub, 1⟩, none, some ⟨.complete 97 .pub, 2⟩, none, 4⟩ []).fs = true := by
  decide

/-- … and an explicit error otherwise (wrong-sized archive, no base URL) -/
example : (prepare w0 { specDeclared with hasBaseUrl := false } ⟨none, some ⟨39, .pub, 1⟩, none, none, none, 2⟩ []).res
    = .raised .presentWrongSizeNoUrl := by decide

/-- `LengthKnown` is satisfiable with a plan that contains a short body: it is *not* installed -/
example : LengthKnown specDeclared [.resp 200 none .pub [25] .clean] 40 := Or.inl rfl
example : (prepare w0 specDeclared emptyFS [.resp 200 none .pub [25] .clean]).res = .raised .downloadCorrupt ∧
    (prepare w0 specDeclared emptyFS [.resp 200 none .pub [25] .clean]).fs.arch = none := by decide

/-- bundled: archive next to the track, nothing else: decompress, build table, `True` -/
example : (prepareBundled w0 specDeclared ⟨none, some ⟨40, .pub, 1⟩, none, none, none, 2⟩).res = .done true := by decide
example : (prepareBundled w0 specDeclared emptyFS).res = .done false := by decide

/-- `OffInv` holds of a non-trivial state (stale table older than a partial document) and a crash state of the
    preparation started there still satisfies it -/
example : OffInv ⟨some ⟨97, .pub, 3⟩, some ⟨40, .pub, 1⟩, none, some ⟨.torn 97 .pub 4, 2⟩, none, 4⟩ := by
  constructor
  · intro d h; cases h; decide
  · intro o h; cases h; decide
  · intro o d h1 h2 h3; cases h1; cases h2; exact absurd h3 (by decide)

end C14
