import RallyModel.Stats
import RallyProofs.Stats
import RallyGen.Percentiles
import RallyGen.StatsKeys
/-!
# C08 — race results are correct statistics of the normal samples and survive storage

Property theorems only (lemmas: `RallyProofs/Stats.lean`, rounding facts: `RallyProofs/StatsDbl.lean`).

Two percentile functions appear, and every theorem says which one it is about:

* **ideal** — `percentileI s p = interp s (p/100·(n-1))`, the linear-interpolation definition on exact rationals.
  The four laws of the property text (non-decreasing in `p`, between min and max, p100 = max, p50 = median)
  are proved for it, for every non-empty sorted list and every `p ∈ [0,100]`.
* **float** — `percentileD`, the executable model of `InMemoryMetricsStore.percentile_value` with the rank and
  the interpolation computed in IEEE doubles (`Dbl`), compared bit for bit with the real code by the harness.
  For it we prove: it never raises inside `[0,100]`, its closed form `valueD`, p100 = max and p0 = min *exactly*,
  p50 = the middle element exactly for odd sizes and the float midpoint formula for even sizes, result ≥ min
  exactly, the float rank within relative `2u + u²` (`u = 2⁻⁵³`) of the ideal rank, and
  `float_percentile_close`: `|float − ideal| ≤ floatErr s M = spread·(2u+u²)·(n−1) + 12·M·u`; hence
  (`float_percentile_laws`) monotonicity in `p`, `≤ max` and p50 = median hold for the float values up to that
  error.  (Exact `≤ max` / exact monotonicity of the float function are not proved; the harness checks both
  exactly on every real output.)

`SizeOk n` (`n ≤ 2^53`) only says the sample count itself is exactly representable as a double.
Not claimed (by design of the code, stated in the property plan): `duration` and `unit` read warm-up records too.
-/
namespace C08
open Stats Dbl StatsDbl

/-! ## 1. the linear-interpolation definition (ideal, exact rationals) -/

/-- every value list is turned into a sorted list with the same multiset before percentiles are taken -/
theorem values_are_sorted_first (vs : List Rat) : Sorted (sortR vs) ∧ (sortR vs).Perm vs :=
  ⟨sortR_sorted vs, sortR_perm vs⟩

/-- **percentile_monotone** (ideal): non-decreasing in `p` -/
theorem percentile_monotone (s : List Rat) (hs : Sorted s) (hne : s ≠ []) (p q : Rat)
    (h0 : 0 ≤ p) (hpq : p ≤ q) (h1 : q ≤ 100) : percentileI s p ≤ percentileI s q :=
  percentileI_mono hs hne h0 hpq h1

/-- **percentile_bounds** (ideal): between the minimum and the maximum -/
theorem percentile_bounds (s : List Rat) (hs : Sorted s) (hne : s ≠ []) (p : Rat) (h0 : 0 ≤ p) (h1 : p ≤ 100) :
    s.head hne ≤ percentileI s p ∧ percentileI s p ≤ s.getLast hne ∧
    (∀ a, (∀ v ∈ s, a ≤ v) → a ≤ percentileI s p) ∧ (∀ b, (∀ v ∈ s, v ≤ b) → percentileI s p ≤ b) := by
  have hn : 0 < s.length := List.length_pos_iff.mpr hne
  obtain ⟨b1, b2⟩ := percentileI_bounds hs hne h0 h1
  have e1 : s.getD 0 0 = s.head hne := by
    cases s with
    | nil => exact absurd rfl hne
    | cons a t => rfl
  have e2 : s.getD (s.length - 1) 0 = s.getLast hne := by
    rw [getD_of_lt (by omega), List.getLast_eq_getElem]
  rw [e1] at b1
  rw [e2] at b2
  exact ⟨b1, b2, fun a ha => le_trans (ha _ (List.head_mem hne)) b1, fun b hb => le_trans b2 (hb _ (List.getLast_mem hne))⟩

/-- **p100_max** (ideal) -/
theorem p100_max (s : List Rat) (hne : s ≠ []) : percentileI s 100 = s.getLast hne := percentileI_100 hne

/-- p0 = min (ideal) -/
theorem p0_min (s : List Rat) (hne : s ≠ []) : percentileI s 0 = s.head hne := percentileI_0 hne

/-- **p50_median** (ideal): the 50th percentile is the textbook median -/
theorem p50_median (s : List Rat) (hne : s ≠ []) : percentileI s 50 = medianS s := percentileI_50 hne

/-! ## 2. the float computation the code performs (`Dbl`) -/

/-- (float) `percentile_value` never raises for a percentile in [0,100] and returns `valueD` -/
theorem float_percentile_total (s : List Rat) (hne : s ≠ []) (hsz : SizeOk s.length) (p : Rat) (h0 : 0 ≤ p) (h1 : p ≤ 100) :
    percentileD s p = .ok (valueD s p) := percentileD_ok hne hsz h0 h1

/-- (float) p100 is exactly the maximum, p0 exactly the minimum -/
theorem float_p100_max (s : List Rat) (hne : s ≠ []) (hsz : SizeOk s.length) :
    percentileD s 100 = .ok (s.getLast hne) ∧ percentileD s 0 = .ok (s.head hne) := by
  rw [percentileD_ok hne hsz (by norm_num) (by norm_num), percentileD_ok hne hsz (by norm_num) (by norm_num),
    valueD_100 hne hsz, valueD_0 hne hsz]
  exact ⟨rfl, rfl⟩

/-- (float) p50 of an odd number of samples is exactly the median; of an even number it is the float
    evaluation of `lo + (hi - lo) * 0.5` on the two middle samples (the exact median is `(lo + hi) / 2`) -/
theorem float_p50_median (s : List Rat) (hne : s ≠ []) (hsz : SizeOk s.length) :
    (s.length % 2 = 1 → percentileD s 50 = .ok (medianS s)) ∧
    (s.length % 2 = 0 → percentileD s 50 = .ok (fadd (s.getD (s.length / 2 - 1) 0)
        (fmul (fsub (s.getD (s.length / 2) 0) (s.getD (s.length / 2 - 1) 0)) (1 / 2)))) := by
  rw [percentileD_ok hne hsz (by norm_num) (by norm_num)]
  constructor
  · intro hodd
    rw [valueD_50_odd hsz hodd]
    unfold medianS
    rw [if_pos hodd]
  · intro heven
    rw [valueD_50_even hne hsz heven]

/-- (float) the result never drops below the minimum (sorted list of doubles) -/
theorem float_percentile_ge_min (s : List Rat) (hs : Sorted s) (hne : s ≠ []) (hsz : SizeOk s.length)
    (hdbl : ∀ v ∈ s, fl v = v) (p : Rat) (h0 : 0 ≤ p) (h1 : p ≤ 100) :
    ∃ v, percentileD s p = .ok v ∧ s.head hne ≤ v :=
  ⟨valueD s p, percentileD_ok hne hsz h0 h1, valueD_ge_min hs hne hsz hdbl h0 h1⟩

/-- (float vs ideal) the rank computed in doubles is within relative `2u + u²` (`u = 2⁻⁵³`) of the ideal rank,
    and inside `[0, n-1]` -/
theorem float_rank_close (n : Nat) (hn : 0 < n) (hsz : SizeOk n) (p : Rat) (h0 : 0 ≤ p) (h1 : p ≤ 100) :
    |rankD n p - rankI n p| ≤ (2 * uro + uro ^ 2) * rankI n p ∧ 0 ≤ rankD n p ∧ rankD n p ≤ (n : Rat) - 1 :=
  ⟨rankD_close hn hsz h0, rankD_range hn hsz h0 h1⟩

/-- the error term of the float percentile: `spread·(2u+u²)·(n-1)` from the rank, `12·M·u` from the three
    rounded operations of the interpolation (`M` bounds the absolute values, `u = 2⁻⁵³`) -/
def floatErr (s : List Rat) (M : Rat) : Rat :=
  spread s * ((2 * uro + uro ^ 2) * ((s.length : Rat) - 1)) + 12 * M * uro

/-- **(float vs ideal)** for every non-empty sorted list with `|v| ≤ M` and every `p ∈ [0,100]` the value the code
    computes in doubles differs from the ideal linear-interpolation percentile by at most `floatErr s M` -/
theorem float_percentile_close (s : List Rat) (hs : Sorted s) (hne : s ≠ []) (hsz : SizeOk s.length) (M : Rat)
    (hM : ∀ v ∈ s, |v| ≤ M) (p : Rat) (h0 : 0 ≤ p) (h1 : p ≤ 100) :
    percentileD s p = .ok (valueD s p) ∧ |valueD s p - percentileI s p| ≤ floatErr s M :=
  ⟨percentileD_ok hne hsz h0 h1, valueD_close hs hne hsz hM h0 h1⟩

/-- (float) hence the laws of the ideal definition hold for the float values up to that error:
    non-decreasing in `p` up to `2·floatErr`, at most `max + floatErr`, within `floatErr` of the median at p50 -/
theorem float_percentile_laws (s : List Rat) (hs : Sorted s) (hne : s ≠ []) (hsz : SizeOk s.length) (M : Rat)
    (hM : ∀ v ∈ s, |v| ≤ M) (p q : Rat) (h0 : 0 ≤ p) (hpq : p ≤ q) (h1 : q ≤ 100) :
    valueD s p ≤ valueD s q + 2 * floatErr s M ∧ valueD s q ≤ s.getLast hne + floatErr s M ∧
    |valueD s 50 - medianS s| ≤ floatErr s M := by
  have hp := abs_le.mp (valueD_close hs hne hsz hM h0 (le_trans hpq h1))
  have hq := abs_le.mp (valueD_close hs hne hsz hM (le_trans h0 hpq) h1)
  have hmono := percentileI_mono hs hne h0 hpq h1
  have hmax := (percentile_bounds s hs hne q (le_trans h0 hpq) h1).2.1
  have h50 := valueD_close hs hne hsz hM (p := 50) (by norm_num) (by norm_num)
  rw [percentileI_50 hne] at h50
  unfold floatErr
  refine ⟨by linarith [hp.2, hq.1], by linarith [hq.2], h50⟩

/-! ## 3. count, min, max, mean agree with the raw values -/

/-- **mean_min_max_sum_count**: for every non-empty value multiset `get_stats` exists, `count` is the number of
    values, `min`/`max` are members bounding all values, `avg` is the exact mean rounded once to a double
    (relative error ≤ 2⁻⁵³); for no values the result is `None` -/
theorem stats_agree_with_raw (vs : List Rat) :
    (vs = [] → statsOf vs = none) ∧
    (vs ≠ [] → ∃ st, statsOf vs = some st ∧ st.count = vs.length ∧
      (st.min ∈ vs ∧ ∀ v ∈ vs, st.min ≤ v) ∧ (st.max ∈ vs ∧ ∀ v ∈ vs, v ≤ st.max) ∧
      st.avg = fl (vs.sum / (vs.length : Rat)) ∧
      |st.avg - vs.sum / (vs.length : Rat)| ≤ |vs.sum / (vs.length : Rat)| / 2 ^ 53) := by
  constructor
  · rintro rfl; exact statsOf_nil
  · intro hne
    obtain ⟨st, h1, h2, h3, h4, h5, _⟩ := statsOf_spec hne
    exact ⟨st, h1, h2, h3, h4, h5, by rw [h5]; exact fl_rel_err _⟩

/-- the statistics depend on the multiset of values only (document order is irrelevant) -/
theorem stats_of_multiset (vs vs' : List Rat) (h : vs.Perm vs') (ps : List Rat) :
    statsOf vs = statsOf vs' ∧ percentilesOf vs ps = percentilesOf vs' ps ∧ medianOf vs = medianOf vs' :=
  ⟨statsOf_perm h, percentilesOf_perm h ps, medianOf_perm h⟩

/-! ## 4. error rate -/

/-- **error_rate_def**: whenever `get_error_rate` returns, it returns failed / all over the `service_time`
    records of the task (restricted to the operation type / sample type asked for), as the correctly rounded
    quotient, and `0` when there is no such record; the value lies in [0,1] -/
theorem error_rate_def (recs : List Rec) (task : Str) (op : Option Str) (st : Option SType) (e : Rat)
    (h : errorRateE recs task op st = .ok e) :
    let all := (recs.filter (errSel task op st)).length
    let failed := (recs.filter (errFail task op st)).length
    failed ≤ all ∧ (all = 0 → e = 0) ∧
    (0 < all → e = fl ((failed : Rat) / (all : Rat)) ∧ |e - (failed : Rat) / (all : Rat)| ≤ (failed : Rat) / (all : Rat) / 2 ^ 53) ∧
    0 ≤ e ∧ e ≤ 1 := by
  intro all failed
  have hle : failed ≤ all := errFail_le recs
  unfold errorRateE at h
  cases hc : errCountE task op st recs with
  | error x => rw [hc] at h; cases h
  | ok c =>
    rw [hc] at h
    have hcc := errCountE_ok hc
    cases h
    subst hcc
    simp only [rateOf]
    have hq0 : (0 : Rat) ≤ (failed : Rat) / (all : Rat) := by positivity
    refine ⟨hle, ?_, ?_, ?_, ?_⟩
    · intro h0; rw [if_neg (by change ¬ (all > 0); omega)]
    · intro hpos
      rw [if_pos hpos]
      refine ⟨rfl, ?_⟩
      have := fl_rel_err ((failed : Rat) / (all : Rat))
      rwa [abs_of_nonneg hq0] at this
    · split
      · exact fl_nonneg hq0
      · exact le_refl _
    · split
      · next hpos =>
        have hall : (0 : Rat) < (all : Rat) := by exact_mod_cast hpos
        have : (failed : Rat) / (all : Rat) ≤ 1 := by
          rw [div_le_one hall]; exact_mod_cast hle
        have := fl_mono this
        rwa [fl_one] at this
      · norm_num

/-! ## 5. the set of reported percentiles depends on the sample count only -/

/-- the generated `percentiles_for_sample_size` table answers every sample size ≥ 1, with percentiles in [0,100] -/
theorem generated_percentile_table_ok : TableOk RallyGen.Percentiles.table :=
  ⟨by decide +kernel, by decide +kernel⟩

/-- … every row lists strictly ascending percentiles ending in 100; every row but the single-sample one starts
    with the median; the keys of a row are distinct -/
theorem generated_percentile_rows :
    ∀ r ∈ RallyGen.Percentiles.table,
      (r.pcts.map Prod.fst).Pairwise (· < ·) ∧ (r.pcts.map Prod.fst).getLast? = some 100 ∧
      (2 ≤ r.lo → (r.pcts.map Prod.fst).head? = some 50) ∧ (r.pcts.map Prod.snd).Nodup := by
  decide +kernel

/-- the ladder itself, pinned: one more tail percentile from every power of ten on (1, 2, 10, 100, 1000, 10000) —
    race files of different races are compared key by key, so the thresholds are part of the stored format -/
theorem generated_percentile_ladder :
    RallyGen.Percentiles.table.map (fun r => (r.lo, r.pcts.map Prod.snd)) =
      [(1, [['1', '0', '0', '_', '0']]),
       (2, [['5', '0', '_', '0'], ['1', '0', '0', '_', '0']]),
       (10, [['5', '0', '_', '0'], ['9', '0', '_', '0'], ['1', '0', '0', '_', '0']]),
       (100, [['5', '0', '_', '0'], ['9', '0', '_', '0'], ['9', '9', '_', '0'], ['1', '0', '0', '_', '0']]),
       (1000, [['5', '0', '_', '0'], ['9', '0', '_', '0'], ['9', '9', '_', '0'], ['9', '9', '_', '9'], ['1', '0', '0', '_', '0']]),
       (10000, [['5', '0', '_', '0'], ['9', '0', '_', '0'], ['9', '9', '_', '0'], ['9', '9', '_', '9'], ['9', '9', '_', '9', '9'],
         ['1', '0', '0', '_', '0']])] := by
  decide +kernel

/-- **percentile_set_depends_on_count_only**: the keys `single_latency` reports are exactly the table row of the
    sample count; two value lists of equal length get the same keys, whatever the values -/
theorem percentile_set_depends_on_count_only (tbl : PTable) (vs vs' : List Rat) (u u' : Option Str) (l l' : Latency)
    (h : latencyOf tbl vs u = .ok (some l)) (h' : latencyOf tbl vs' u' = .ok (some l')) (hlen : vs.length = vs'.length) :
    l.pcts.map Prod.fst = l'.pcts.map Prod.fst ∧
    ∃ pk, pctsFor tbl vs.length = .ok pk ∧ l.pcts.map Prod.fst = pk.map Prod.snd := by
  obtain ⟨pk, hpk, hk⟩ := latencyOf_keys h
  obtain ⟨pk', hpk', hk'⟩ := latencyOf_keys h'
  rw [← hlen, hpk] at hpk'
  cases hpk'
  exact ⟨by rw [hk, hk'], pk, hpk, hk⟩

/-- (float) with the generated table: for every non-empty value list `single_latency` reports, in table order,
    `valueD (sorted values) p` for each percentile `p` of the row of the sample count, plus the mean -/
theorem reported_percentiles_closed_form (vs : List Rat) (hne : vs ≠ []) (hsz : SizeOk vs.length) (u : Option Str) :
    ∃ pk, pctsFor RallyGen.Percentiles.table vs.length = .ok pk ∧
      latencyOf RallyGen.Percentiles.table vs u =
        .ok (some ⟨pk.map (fun x => (x.2, valueD (sortR vs) x.1)), meanOf vs, u⟩) := by
  obtain ⟨pk, hpk, hr⟩ := pctsFor_total generated_percentile_table_ok (List.length_pos_iff.mpr hne)
  exact ⟨pk, hpk, latencyOf_closed hne hsz u hpk hr⟩

/-- (ideal) along any strictly ascending list of percentiles in [0,100] — in particular along every row of the
    generated table — the ideal percentile values are non-decreasing -/
theorem reported_order_ideal (s : List Rat) (hs : Sorted s) (hne : s ≠ []) (ps : List Rat)
    (hasc : ps.Pairwise (· < ·)) (hr : ∀ p ∈ ps, 0 ≤ p ∧ p ≤ 100) :
    (ps.map (percentileI s)).Pairwise (· ≤ ·) := by
  rw [List.pairwise_map]
  apply List.Pairwise.imp_of_mem _ hasc
  intro a b ha hb hab
  exact percentileI_mono hs hne (hr a ha).1 (le_of_lt hab) (hr b hb).2

/-! ## 6. normal samples only -/

/-- **normal_only**: for every schedule and every two record lists whose *normal-type* records form the same
    multiset (so: after adding, removing or changing any warm-up records, and after any reordering), the
    reported tasks and all their numbers — throughput min/mean/median/max, every latency / service-time /
    processing-time percentile and mean, error rate — are identical.  (`duration` and the unit strings are
    outside `OpMetrics.core`: they read all records.) -/
theorem normal_only (tbl : PTable) (recs recs' : List Rec) (sched : List Task) (r r' : List OpMetrics)
    (h : calcE tbl recs sched = .ok r) (h' : calcE tbl recs' sched = .ok r')
    (hsame : (recs.filter isNormal).Perm (recs'.filter isNormal)) :
    r.map OpMetrics.core = r'.map OpMetrics.core :=
  calcE_normal_only sched h h' hsame

/-- in particular: stripping every warm-up record changes nothing -/
theorem warmup_records_never_matter (tbl : PTable) (recs : List Rec) (sched : List Task) (r r' : List OpMetrics)
    (h : calcE tbl recs sched = .ok r) (h' : calcE tbl (recs.filter isNormal) sched = .ok r') :
    r.map OpMetrics.core = r'.map OpMetrics.core := by
  apply calcE_normal_only sched h h'
  unfold SameNormal
  rw [List.filter_filter]
  simp

/-- the calculator does return (no KeyError / IndexError / AssertionError) on every well-formed store, so the
    hypotheses of `normal_only` are satisfiable for every such record list -/
theorem calc_total (recs : List Rec) (hwf : WF recs) (hsz : SizeOk recs.length) (sched : List Task) :
    ∃ r, calcE RallyGen.Percentiles.table recs sched = .ok r :=
  calcE_total generated_percentile_table_ok hwf hsz sched

/-- without warm-up records the store stays well-formed -/
theorem wf_filter (recs : List Rec) (h : WF recs) : WF (recs.filter isNormal) :=
  fun d hd => h d (List.mem_filter.mp hd).1

/-! ## 7. persistence: `GlobalStats(as_dict())` is the identity on every field of the generated key table -/

/-- the generated `(attribute, key, default)` table of `GlobalStats.__init__`: non-empty, attributes distinct,
    every attribute is read from the key of the same name -/
theorem generated_key_table_good : TableGood RallyGen.StatsKeys.table :=
  ⟨by decide, by decide +kernel, by decide +kernel⟩

/-- **stats_roundtrip**: for every `GlobalStats` instance (any values under the table's attributes),
    constructing `GlobalStats` from its `as_dict()` reproduces every attribute -/
theorem stats_roundtrip (o : Dict) (hshape : o.map Prod.fst = RallyGen.StatsKeys.table.map KeySpec.attr) :
    gsInit RallyGen.StatsKeys.table (some (gsAsDict o)) = o :=
  gsInit_roundtrip generated_key_table_good hshape

/-- the race file: `GlobalStats(find_by_race_id(id).results)` reproduces the stored results attribute by
    attribute — hence `op_metrics` (per-task metrics) and every global metric; a race stored without results
    reads back as the defaults -/
theorem race_file_roundtrip (o : Dict) (hshape : o.map Prod.fst = RallyGen.StatsKeys.table.map KeySpec.attr) :
    readBack RallyGen.StatsKeys.table (some o) = o ∧
    (∀ k, dictGet (readBack RallyGen.StatsKeys.table (some o)) k = dictGet o k) ∧
    readBack RallyGen.StatsKeys.table none = RallyGen.StatsKeys.table.map (fun s => (s.attr, s.dflt.val)) := by
  have h : readBack RallyGen.StatsKeys.table (some o) = o := gsInit_roundtrip generated_key_table_good hshape
  exact ⟨h, fun k => by rw [h], rfl⟩

/-! ## 7b. per-task lookup after the read-back (`GlobalStats(race.results).tasks()` / `.metrics(task)`, as compare does) -/

/-- **lookup_after_roundtrip**: for every schedule with pairwise distinct task names, every record list and every
    `GlobalStats` dict `o` whose `op_metrics` are the records the calculator produced: after the race-file round
    trip, `metrics(t)` for a scheduled task `t` returns exactly the record computed for `t` by its own loop
    iteration `taskE` (so: the statistics of `t`'s own samples — never the record of another task that shares
    the operation or whose operation is called like `t`), `None` iff `t` is not reported, and `tasks()` lists the
    reported task names in schedule order -/
theorem lookup_after_roundtrip (tbl : PTable) (recs : List Rec) (sched : List Task) (r : List OpMetrics)
    (hnd : (sched.map Task.name).Nodup) (h : calcE tbl recs sched = .ok r)
    (o : Dict) (hshape : o.map Prod.fst = RallyGen.StatsKeys.table.map KeySpec.attr)
    (hop : dictGet o sOpMetrics = some (.arr ((r.map opToDict).map JVal.obj))) :
    gsOpMetrics (readBack RallyGen.StatsKeys.table (some o)) = some (r.map opToDict) ∧
    tasksE (r.map opToDict) = .ok (r.map (fun m => JVal.str m.task)) ∧
    ∀ t ∈ sched, ∀ om, taskE tbl recs t = .ok om → metricsE (r.map opToDict) t.name = .ok (om.map opToDict) := by
  refine ⟨?_, tasksE_calc r, fun t ht om hom => metricsE_calc hnd h ht hom⟩
  rw [(race_file_roundtrip o hshape).1]
  unfold gsOpMetrics
  rw [hop]
  exact recsOfJ_map _

/-- for *any* record list (also hand-written / pre-0.8.0 race files): `metrics(task)` only ever returns a member
    whose task — or, for a record without a `task` key, operation — is the requested name -/
theorem lookup_returns_requested_task (rs : List Dict) (t : Str) (r : Dict) (h : metricsE rs t = .ok (some r)) :
    r ∈ rs ∧ ∃ k, recKeyE r = .ok k ∧ jIsStr k t = true := metricsE_key h

/-- … and when those names are pairwise distinct every record is found under its own name -/
theorem lookup_unique (rs : List Dict) (ks : List Str)
    (hk : List.Forall₂ (fun r k => recKeyE r = .ok (.str k)) rs ks) (hnd : ks.Nodup) (r : Dict) (k : Str)
    (hmem : (r, k) ∈ rs.zip ks) : metricsE rs k = .ok (some r) := metricsE_unique hk hnd hmem

/-! ## 7c. one store object over time: deliveries (`put_value_*`, `bulk_add`), hand-overs and queries in any order -/

/-- **store_is_what_was_delivered**: after any history on one store object the document list is exactly what was
    delivered (by `_add` or `bulk_add`, in order) since the last clearing `to_externalizable(clear=True)` —
    queries and non-clearing hand-overs in between leave no trace -/
theorem store_is_what_was_delivered (h : List SEv) :
    stateAfter [] h = delivered h ∧ delivered h = delivered (h.filter (fun e => !e.readOnly)) :=
  ⟨stateAfter_eq_delivered h, delivered_filter h⟩

/-- **query_is_function_of_delivered**: in every history, the answer to a query is `evalQ` of the documents
    delivered before it — in particular interim queries (`pre` may contain any, including interim
    `calculate_results`) do not change it — and everything asked later is answered from `delivered pre` as well -/
theorem query_is_function_of_delivered (tbl : PTable) (pre post : List SEv) (q : QKind) :
    runHist tbl [] (pre ++ SEv.query q :: post) =
      runHist tbl [] pre ++ evalQ tbl (delivered pre) q :: runHist tbl (delivered pre) post ∧
    delivered pre = delivered (pre.filter (fun e => !e.readOnly)) := by
  refine ⟨?_, delivered_filter pre⟩
  rw [runHist_append, stateAfter_eq_delivered, runHist_cons]
  rfl

/-- **answers_depend_on_multiset**: statistics, mean, median, percentiles and error rate of two document lists that
    are permutations of each other (e.g. the same samples delivered in other chunks / another order) coincide; for
    `calculate_results` all numbers coincide (`OpMetrics.core`) -/
theorem answers_depend_on_multiset (tbl : PTable) (docs docs' : List Rec) (hp : docs.Perm docs') :
    (∀ k a a', k.orderFree = true → evalQ tbl docs k = .ok a → evalQ tbl docs' k = .ok a' → a = a') ∧
    (∀ sched r r', calcE tbl docs sched = .ok r → calcE tbl docs' sched = .ok r' →
      r.map OpMetrics.core = r'.map OpMetrics.core) :=
  ⟨fun _ _ _ hk h h' => evalQ_perm hp hk h h', fun sched _ _ h h' => calcE_normal_only sched h h' (hp.filter _)⟩

/-! ## 7d. the race store directory over time: `store_race` / `find_by_race_id` / `list` on one directory -/

/-- **race_dir_holds_last_document**: after any history of `store_race` calls (any ids, the same id any number of
    times, documents growing or shrinking), finds and lists on one directory, `find_by_race_id(id)` yields exactly
    the document stored LAST for `id` (NotFound iff none was stored); the answer given in the middle of a history
    depends on the stores before it only -/
theorem race_dir_holds_last_document (pre post : List REv) (id : Str) :
    dirFind (dirAfter [] pre) id = lastStored pre id ∧
    raceRun [] (pre ++ REv.find id :: post) =
      raceRun [] pre ++ (match lastStored pre id with | some d => RAns.found d | none => RAns.notFound) ::
        raceRun (dirAfter [] pre) post := by
  refine ⟨dirFind_after pre id, ?_⟩
  rw [raceRun_append, raceRun_cons, ← dirFind_after]
  rfl

/-- **race_list_shows_last_documents**: every race `list()` shows is the last document of its id, no id twice, and
    with `max_results` at least the number of ids every stored id is shown -/
theorem race_list_shows_last_documents (h : List REv) (max : Nat) :
    (∀ id d, (id, d) ∈ dirList (dirAfter [] h) max → lastStored h id = some d) ∧
    ((dirAfter [] h).length ≤ max → ∀ id d, lastStored h id = some d → (id, d) ∈ dirList (dirAfter [] h) max) ∧
    ((dirList (dirAfter [] h) max).map Prod.fst).Nodup := dirList_after h max

/-- **race_lookup_is_by_exact_id**: what `find_by_race_id(id)` yields depends on the `store_race` calls made with
    exactly that id only — races stored under any other id (an id that `id` is a prefix, an abbreviation or a
    substring of, an id that `id` matches when read as a glob pattern, a newer race, …) never influence it, and if
    no race was stored under exactly `id` the answer is NotFound -/
theorem race_lookup_is_by_exact_id (h : List REv) (id : Str) :
    dirFind (dirAfter [] h) id = dirFind (dirAfter [] (h.filter (REv.concerns id))) id ∧
    ((∀ e ∈ h, ∀ i d, e = REv.store i d → i ≠ id) → dirFind (dirAfter [] h) id = none) := by
  refine ⟨?_, fun hno => ?_⟩
  · rw [dirFind_after, dirFind_after]; exact lastStored_filter h id
  · rw [dirFind_after]; exact lastStored_none_of_no_store h id hno

/-! ## 8. throughput summary -/

/-- **summary_agrees_with_raw**: whenever normal samples exist, `summary_stats` reports min / mean / median / max
    and they agree with the raw values: min and max are the extreme members, mean is the once-rounded exact
    mean, median is the (float) 50th percentile of the sorted values — also when mean or median is 0 -/
theorem summary_agrees_with_raw (vs : List Rat) (u : Option Str) (hne : vs ≠ []) (hsz : SizeOk vs.length) :
    ∃ st, statsOf vs = some st ∧
      summaryOf vs u = .ok ⟨some st.min, some st.avg, some (valueD (sortR vs) 50), some st.max, u⟩ ∧
      (st.min ∈ vs ∧ ∀ v ∈ vs, st.min ≤ v) ∧ (st.max ∈ vs ∧ ∀ v ∈ vs, v ≤ st.max) ∧
      st.avg = fl (vs.sum / (vs.length : Rat)) := by
  obtain ⟨st, hst, _, hmin, hmax, havg, _⟩ := statsOf_spec hne
  have hlen : 0 < vs.length := List.length_pos_iff.mpr hne
  have hmed : medianOf vs = .ok (some (valueD (sortR vs) 50)) := by
    unfold medianOf percentilesOf
    rw [if_pos hlen, pctList_ok (sortR_ne_nil hne) (by rw [sortR_length]; exact hsz)]
    · rfl
    · intro p hp
      simp only [List.mem_singleton] at hp
      subst hp; constructor <;> norm_num
  refine ⟨st, hst, ?_, hmin, hmax, havg⟩
  unfold summaryOf
  rw [hmed]
  simp [meanOf, hst]

/-- without normal samples all four numbers are `None` -/
theorem summary_without_samples (u : Option Str) : summaryOf [] u = .ok ⟨none, none, none, none, u⟩ := by
  unfold summaryOf medianOf percentilesOf
  simp [statsOf_nil, Except.map]

/-- Historical witness (pinned code before the `fix:` commit 3c92ad9, `if mean and median and stats`): one
    throughput sample of value 0 was reported as all-`None`; the repaired model reports it. -/
theorem pinned_summary_zero :
    (summaryOfPinned [0] none).toOption = some ⟨none, none, none, none, none⟩ ∧
    (summaryOf [0] none).toOption = some ⟨some 0, some 0, some 0, some 0, none⟩ := by decide +kernel

/-! ### non-vacuity: concrete inputs meeting the hypotheses (tests, labelled as tests) -/

example : Sorted [1, 2, 3, 4] ∧ percentileI [1, 2, 3, 4] 50 = 5 / 2 ∧ percentileI [1, 2, 3, 4] 90 = 37 / 10 ∧
    percentileI [1, 2, 3, 4] 100 = 4 ∧ medianS [1, 2, 3, 4] = 5 / 2 := by decide +kernel
example : SizeOk [1, 2, 3, 4].length := by unfold SizeOk; norm_num
example : (percentileD [1, 2, 3, 4] 50).toOption = some (5 / 2) ∧ (percentileD [1, 2, 7] 50).toOption = some 2 ∧
    (percentileD [1, 2, 7] 101).toOption = none := by decide +kernel
example : fl (1 / 10) = 3602879701896397 / 36028797018963968 ∧ fl (1 / 2) = 1 / 2 := by decide +kernel
example : (∀ v ∈ ([1, 3 / 2, 7] : List Rat), fl v = v) ∧ (∀ v ∈ ([1, 3 / 2, 7] : List Rat), |v| ≤ 7) := by
  constructor <;> intro v hv <;> simp only [List.mem_cons, List.not_mem_nil, or_false] at hv <;>
    rcases hv with rfl | rfl | rfl
  · decide +kernel
  · decide +kernel
  · decide +kernel
  · norm_num
  · norm_num [abs_of_nonneg]
  · norm_num
example : floatErr [1, 3 / 2, 7] 7 ≤ 1 / 10 ^ 13 := by
  unfold floatErr spread uro; norm_num
/-- a well-formed store with a warm-up and two normal records, one failed request -/
def exRecs : List Rec :=
  [⟨nServiceTime, some ['t'], some ['b'], .warmup, 250, some ['m', 's'], some false, 536000⟩,
   ⟨nServiceTime, some ['t'], some ['b'], .normal, 190, some ['m', 's'], some true, 595000⟩,
   ⟨nServiceTime, some ['t'], some ['b'], .normal, 200, some ['m', 's'], some false, 709000⟩]
example : WF exRecs := by
  intro d hd
  simp only [exRecs, List.mem_cons, List.not_mem_nil, or_false] at hd
  rcases hd with rfl | rfl | rfl <;> simp
example : (errorRateE exRecs ['t'] (some ['b']) (some .normal)).toOption = some (1 / 2) ∧
    (errorRateE exRecs ['t'] (some ['b']) none).toOption = some (fl (2 / 3)) ∧
    (durationE [exRecs[0]] ['t']).toOption = some (some 536000) := by decide +kernel
example : (exRecs.filter isNormal).length = 2 ∧ (exRecs.filter (errSel ['t'] (some ['b']) (some .normal))).length = 2 ∧
    (exRecs.filter (errFail ['t'] (some ['b']) (some .normal))).length = 1 := by decide +kernel
example : delivered [.put exRecs[0], .query (.duration ['t']), .bulk [exRecs[1], exRecs[2]], .handover false (.duration ['t'])] = exRecs ∧
    delivered [.put exRecs[0], .handover true (.duration ['t']), .bulk [exRecs[1]], .query (.duration ['t'])] = [exRecs[1]] := by
  constructor <;> rfl
example : raceRun [] [.store ['a'] ⟨5, 0⟩, .store ['b'] ⟨7, 1⟩, .store ['a'] ⟨3, 2⟩, .find ['a'], .find ['c'], .store ['a'] ⟨9, 0⟩, .find ['a']] =
    [.found ⟨3, 2⟩, .notFound, .found ⟨9, 0⟩] ∧
    lastStored [.store ['a'] ⟨5, 0⟩, .store ['b'] ⟨7, 1⟩, .store ['a'] ⟨3, 2⟩] ['a'] = some ⟨3, 2⟩ := by decide +kernel
example : raceRun [] [.store ['b', '-', '1'] ⟨5, 0⟩, .store ['b', '-', '1', '2'] ⟨7, 1⟩, .store ['b', '*'] ⟨9, 2⟩, .find ['b', '-', '1'],
      .find ['b'], .find ['b', '*']] = [.found ⟨5, 0⟩, .notFound, .found ⟨9, 2⟩] := by decide +kernel
/-- two tasks share the operation `term`; the explicitly named one comes first, the other keeps the default name -/
example :
    let r1 : Dict := [(sTask, .str ['w']), (sOperation, .str ['t', 'e', 'r', 'm']), (sErrorRate, .flt 1)]
    let r2 : Dict := [(sTask, .str ['t', 'e', 'r', 'm']), (sOperation, .str ['t', 'e', 'r', 'm']), (sErrorRate, .flt 0)]
    ((metricsE [r1, r2] ['t', 'e', 'r', 'm']).toOption.map (·.map (·.length))) = some (some 3) ∧
    (match metricsE [r1, r2] ['t', 'e', 'r', 'm'] with
      | .ok (some r) => (match dictGet r sErrorRate with | some (.flt q) => q == 0 | _ => false)
      | _ => false) = true := by decide +kernel
example : (gsInit RallyGen.StatsKeys.table none).map Prod.fst = RallyGen.StatsKeys.table.map KeySpec.attr := by
  simp [gsInit]

end C08
