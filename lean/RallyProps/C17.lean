import RallyModel.Guarded
import RallyProofs.Guarded
import RallyProofs.GuardedPause
import RallyGen.Guarded
/-!
# C17 — metrics store calls survive transient faults and never repeat after success

Property theorems only (helper lemmas: `RallyProofs/Guarded.lean`).  `guarded rnd outs` is the model of
`metrics.EsClient.guarded` run against a client function whose successive invocations produce `outs`
(**any** finite script; a script that runs out gives `pending`), `rnd k` being the `random.random()`
draw of iteration `k`.

The specification side (`IsRetryableStatus`, `Transient`, `FollowedByAnother`, `Surfaces`) is written
here in the property's own words, independently of the model's `handle`.
-/
namespace C17
open Guarded

/-- HTTP 429 / 502 / 503 / 504 -/
def IsRetryableStatus (s : Nat) : Prop := s = 429 ∨ s = 502 ∨ s = 503 ∨ s = 504

/-- the transient faults: connection time-out, connection error, an API error with a retryable
    status, or a bulk error all of whose failed items report a retryable status -/
def Transient : Outcome → Prop
  | .connTimeout => True
  | .connError => True
  | .api s => IsRetryableStatus s
  | .bulk sts => ∀ x ∈ sts, ∃ s, x = some s ∧ IsRetryableStatus s
  | _ => False

/-- attempt `i` (0-based) was followed by another invocation (or would have been: the script ran out) -/
def FollowedByAnother (r : Run) (i : Nat) : Prop :=
  i + 1 < r.calls ∨ (i + 1 = r.calls ∧ r.res = .pending)

/-- how a fault that is not retried (any more) must surface -/
def Surfaces (o : Outcome) (r : Res) : Prop :=
  match o with
  | .success t => r = .returned t
  | .authn => r = .systemSetupError .authn
  | .authz => r = .systemSetupError .authz
  | .api s => r = .rallyError (.apiError s)
  | .transportOther => r = .rallyError .transportError
  | .connTimeout => r = .rallyError .timeoutExhausted
  | .connError => r = .rallyError .connExhausted
  | .bulk sts =>
    (r = .rallyError .bulkExhausted ∧ Transient (.bulk sts)) ∨
    -- the first failed item without a retryable status is the one that is named
    ∃ j x, r = .rallyError (.bulkUnretryable j) ∧ sts[j]? = some x ∧ (∀ s, x = some s → ¬ IsRetryableStatus s) ∧
      ∀ i, i < j → ∃ s, sts[i]? = some (some s) ∧ IsRetryableStatus s
  | .otherExc t => r = .propagated t

/-- the status list in the code is exactly {429, 502, 503, 504} -/
theorem retryable_status_iff (s : Nat) : s ∈ retryableStatusCodes ↔ IsRetryableStatus s := by
  simp [retryableStatusCodes, IsRetryableStatus]
  omega

theorem item_retryable_iff (x : Option Nat) : itemRetryable x = true ↔ ∃ s, x = some s ∧ IsRetryableStatus s := by
  cases x with
  | none => simp [itemRetryable]
  | some n => simp [itemRetryable, retryable_status_iff]

/-- the faults the code answers with sleep-and-retry are exactly the property's transient faults -/
theorem transient_iff (o : Outcome) : isTransient o = true ↔ Transient o := by
  cases o with
  | api s => simp [isTransient, Transient, retryable_status_iff]
  | bulk sts =>
    simp only [isTransient, Transient, Option.isNone_iff_eq_none, firstUnretryable_none]
    constructor <;> intro h x hx
    · exact (item_retryable_iff x).mp (h x hx)
    · exact (item_retryable_iff x).mpr (h x hx)
  | _ => simp [isTransient, Transient]

/-! ### up to ten retries -/

theorem retries_at_most_ten (rnd : Nat → Rat) (outs : List Outcome) :
    (guarded rnd outs).calls ≤ 11 ∧ (guarded rnd outs).calls ≤ outs.length := by
  have := loop_calls_le rnd 0 outs
  simpa [guarded, Run.calls, maxExecutionCount] using this

/-- the loop never ends silently (`while` condition false → implicit `return None`) -/
theorem never_falls_off (rnd : Nat → Rat) (outs : List Outcome) : (guarded rnd outs).res ≠ .loopExit :=
  (loop_res rnd 0 outs).1 (by simp [maxExecutionCount])

/-! ### exponentially growing pauses -/

/-- the trace is: call, pause `2^0 + rnd 0`, call, pause `2^1 + rnd 1`, … (float addition), one pause
    between consecutive calls and none after the last one (unless a further call is pending) -/
theorem backoff_exponential (rnd : Nat → Rat) (outs : List Outcome) :
    (guarded rnd outs).trace =
      backoff rnd ((guarded rnd outs).res == .pending) 0 (guarded rnd outs).calls :=
  loop_trace rnd 0 outs

/-- the pause after attempt `k` is the double nearest to `2^k + r` -/
theorem pause_def (k : Nat) (r : Rat) : pause k r = Dbl.fl (((2 ^ k : Nat) : Rat) + r) := rfl

/-- with `random.random() ∈ [0, 1)` the pause after attempt `k` (`k = 0 … 9` in a run) lies in
    `[2^k, 2^k + 1]`: 1–2 s, 2–3 s, 4–5 s, … 512–513 s -/
theorem pause_in_binade (k : Nat) (r : Rat) (hk : k ≤ 9) (h0 : 0 ≤ r) (h1 : r < 1) :
    ((2 ^ k : Nat) : Rat) ≤ pause k r ∧ pause k r ≤ ((2 ^ k + 1 : Nat) : Rat) :=
  pause_bounds k r (by omega) h0 h1

/-- … hence every pause is at least as long as the one before, whatever the draws -/
theorem pauses_grow (k : Nat) (r r' : Rat) (hk : k + 1 ≤ 9) (h0 : 0 ≤ r) (h1 : r < 1) (h0' : 0 ≤ r') (h1' : r' < 1) :
    pause k r ≤ pause (k + 1) r' :=
  pause_grows k r r' (by omega) h0 h1 h0' h1'

/-- at most ten pauses, one less than calls once the run has ended -/
theorem pauses_count (rnd : Nat → Rat) (outs : List Outcome) :
    (guarded rnd outs).sleeps.length =
      if (guarded rnd outs).res == .pending then (guarded rnd outs).calls else (guarded rnd outs).calls - 1 := by
  unfold Run.sleeps
  rw [backoff_exponential rnd outs, sleeps_backoff_length]

/-! ### retried iff transient (and the budget lasts) -/

theorem retry_iff_transient (rnd : Nat → Rat) (outs : List Outcome) (i : Nat) (o : Outcome)
    (ho : outs[i]? = some o) (hi : i < (guarded rnd outs).calls) :
    FollowedByAnother (guarded rnd outs) i ↔ (Transient o ∧ i < 10) := by
  have hat := loop_at rnd 0 outs i o ho hi
  simp only [Nat.zero_add] at hat
  have hsr := handle_sleepRetry (i + 1) o
  rw [transient_iff] at hsr
  constructor
  · intro hf
    have hf' : i + 1 < nCalls (loop rnd 0 outs).trace ∨
        (i + 1 = nCalls (loop rnd 0 outs).trace ∧ (loop rnd 0 outs).res = .pending) := hf
    cases hs : handle (i + 1) o with
    | sleepRetry =>
      have := hsr.mp hs
      exact ⟨this.1, by have := this.2; simp [maxExecutionCount] at this; omega⟩
    | done r =>
      have hd := hat.1 r hs
      have hterm := handle_done (i + 1) o (by rw [hs]; simp)
      rw [hs] at hterm
      injection hterm with hterm
      rcases hf' with hf' | hf'
      · omega
      · exfalso
        rw [hd.2, hterm] at hf'
        have := hf'.2
        cases o <;> simp [terminal] at this
        split at this <;> simp at this
  · intro ⟨ht, h10⟩
    exact hat.2 (hsr.mpr ⟨ht, by simp [maxExecutionCount]; omega⟩)

/-! ### first success returned, no call after it -/

theorem first_success_returned_no_call_after (rnd : Nat → Rat) (outs : List Outcome) (i t : Nat)
    (ho : outs[i]? = some (.success t)) (hi : i < (guarded rnd outs).calls) :
    (guarded rnd outs).calls = i + 1 ∧ (guarded rnd outs).res = .returned t := by
  have hat := loop_at rnd 0 outs i _ ho hi
  exact hat.1 _ (by simp [handle])

/-! ### … whatever the result is (a falsy result is a result) -/

/-- `guarded` never looks at the object a successful attempt returns: replacing the returned objects (a truthy one by
    `HeadApiResponse(False)`, `{}`, `None` …) changes neither the calls nor the pauses, and the object handed back is the
    replaced one of the same attempt -/
theorem result_value_never_inspected (rnd : Nat → Rat) (f : Nat → Nat) (outs : List Outcome) :
    (guarded rnd (outs.map (retag f))).trace = (guarded rnd outs).trace ∧
    (guarded rnd (outs.map (retag f))).res = retagRes f (guarded rnd outs).res := by
  unfold guarded
  rw [loop_retag]
  exact ⟨rfl, rfl⟩

/-- the tag of a result identifies the attempt that produced it and the kind of object -/
theorem result_tag_identifies (a b : Nat) (v w : Value) (h : resultTag a v = resultTag b w) : a = b ∧ v = w := by
  have h1 := tagAttempt_resultTag a v
  have h2 := tagValue_resultTag a v
  rw [h, tagAttempt_resultTag] at h1
  rw [h, tagValue_resultTag] at h2
  exact ⟨h1.symm, h2.symm⟩

/-- the first attempt that does not raise ends the call and ITS object is handed back — for every kind of result,
    truthy or falsy (`HeadApiResponse(False)` of `exists` for a missing index, an empty body, `None`, `0`, `{}` …) -/
theorem falsy_result_is_a_result (rnd : Nat → Rat) (outs : List Outcome) (i : Nat) (v : Value)
    (ho : outs[i]? = some (succeeds i v)) (hi : i < (guarded rnd outs).calls) :
    (guarded rnd outs).calls = i + 1 ∧
    ∃ t, (guarded rnd outs).res = .returned t ∧ tagAttempt t = i ∧ tagValue t = v :=
  ⟨(first_success_returned_no_call_after rnd outs i _ ho hi).1, _,
    (first_success_returned_no_call_after rnd outs i _ ho hi).2, tagAttempt_resultTag i v, tagValue_resultTag i v⟩

/-- from any state of the loop with budget left: transient faults (within the budget), then an attempt that does not
    raise → exactly one call per fault plus one, and that attempt's object is returned; what follows is never invoked -/
theorem transient_faults_then_result_from (rnd : Nat → Rat) (a : Nat) (pre rest : List Outcome) (t : Nat)
    (hpre : ∀ o ∈ pre, Transient o) (hlen : a + pre.length ≤ 10) :
    nCalls (loop rnd a (pre ++ .success t :: rest)).trace = pre.length + 1 ∧
    (loop rnd a (pre ++ .success t :: rest)).res = .returned t := by
  induction pre generalizing a with
  | nil =>
    have ha : a ≤ maxExecutionCount := by simp only [maxExecutionCount, List.length_nil] at hlen ⊢; omega
    rw [List.nil_append, loop_done rnd a _ rest (.returned t) ha (by simp [handle])]
    simp [nCalls]
  | cons o pre ih =>
    simp only [List.length_cons] at hlen
    have ha : a ≤ maxExecutionCount := by simp only [maxExecutionCount]; omega
    have hs : handle (a + 1) o = .sleepRetry :=
      (handle_sleepRetry _ _).mpr ⟨(transient_iff o).mpr (hpre o (by simp)), by simp only [maxExecutionCount]; omega⟩
    rw [List.cons_append, loop_retry rnd a o _ ha hs]
    have := ih (a + 1) (fun o ho => hpre o (by simp [ho])) (by omega)
    simp only [nCalls, List.length_cons]
    exact ⟨by omega, this.2⟩

/-- **k ≤ 10 transient faults followed by an attempt returning ANY object `v`**: k + 1 calls, k pauses, and the object
    of attempt k is what the caller gets — in particular a falsy object does not make `guarded` call again -/
theorem transient_faults_then_any_result (rnd : Nat → Rat) (pre rest : List Outcome) (v : Value)
    (hpre : ∀ o ∈ pre, Transient o) (hlen : pre.length ≤ 10) :
    (guarded rnd (pre ++ succeeds pre.length v :: rest)).calls = pre.length + 1 ∧
    (guarded rnd (pre ++ succeeds pre.length v :: rest)).sleeps.length = pre.length ∧
    (guarded rnd (pre ++ succeeds pre.length v :: rest)).res = .returned (resultTag pre.length v) := by
  have h := transient_faults_then_result_from rnd 0 pre rest (resultTag pre.length v) hpre (by omega)
  have hc : (guarded rnd (pre ++ succeeds pre.length v :: rest)).calls = pre.length + 1 := h.1
  have hr : (guarded rnd (pre ++ succeeds pre.length v :: rest)).res = .returned (resultTag pre.length v) := h.2
  refine ⟨hc, ?_, hr⟩
  rw [pauses_count, hc, hr]
  simp

/-! ### non-retryable faults and exhaustion surface as Rally errors naming the cause -/

theorem terminal_surfaces (o : Outcome) : Surfaces o (terminal o) := by
  cases o with
  | bulk sts =>
    simp only [Surfaces, terminal]
    cases hf : firstUnretryable sts with
    | none =>
      left
      exact ⟨rfl, (transient_iff (.bulk sts)).mp (by simp [isTransient, hf])⟩
    | some j =>
      right
      obtain ⟨⟨x, hx1, hx2⟩, hpre⟩ := firstUnretryable_some sts j hf
      refine ⟨j, x, rfl, hx1, ?_, ?_⟩
      · intro s hs hr
        have := (item_retryable_iff x).mpr ⟨s, hs, hr⟩
        rw [hx2] at this
        cases this
      · intro i hi
        obtain ⟨y, hy1, hy2⟩ := hpre i hi
        obtain ⟨s, hs1, hs2⟩ := (item_retryable_iff y).mp hy2
        exact ⟨s, by rw [hy1, hs1], hs2⟩
  | _ => simp [Surfaces, terminal]

/-- an attempt that is not followed by another one ends the call at once with the prescribed surface:
    success → its result; authentication / authorization → `SystemSetupError`; other API / transport
    errors, non-retryable bulk items (first offending item named) and exhausted retries → `RallyError`
    with the matching cause; anything else propagates unchanged -/
theorem non_retryable_surface (rnd : Nat → Rat) (outs : List Outcome) (i : Nat) (o : Outcome)
    (ho : outs[i]? = some o) (hi : i < (guarded rnd outs).calls)
    (hn : ¬ (Transient o ∧ i < 10)) :
    (guarded rnd outs).calls = i + 1 ∧ Surfaces o (guarded rnd outs).res := by
  have hat := loop_at rnd 0 outs i o ho hi
  simp only [Nat.zero_add] at hat
  have hsr := handle_sleepRetry (i + 1) o
  rw [transient_iff] at hsr
  have hns : handle (i + 1) o ≠ .sleepRetry := by
    intro hs
    have := hsr.mp hs
    apply hn
    exact ⟨this.1, by have := this.2; simp [maxExecutionCount] at this; omega⟩
  have hd := handle_done (i + 1) o hns
  have := hat.1 _ hd
  refine ⟨this.1, ?_⟩
  show Surfaces o (loop rnd 0 outs).res
  rw [this.2]
  exact terminal_surfaces o

/-- exhausting the retries is an error: after ten retried transient faults an eleventh one raises `RallyError` -/
theorem exhaustion_is_error (rnd : Nat → Rat) (outs : List Outcome) (o : Outcome)
    (ho : outs[10]? = some o) (hi : 10 < (guarded rnd outs).calls) (ht : Transient o) :
    (guarded rnd outs).calls = 11 ∧ ∃ c, (guarded rnd outs).res = .rallyError c ∧
      (c = .timeoutExhausted ∨ c = .connExhausted ∨ c = .bulkExhausted ∨ ∃ s, c = .apiError s ∧ IsRetryableStatus s) := by
  have := non_retryable_surface rnd outs 10 o ho hi (by omega)
  refine ⟨this.1, ?_⟩
  have hs := this.2
  cases o with
  | connTimeout => exact ⟨_, hs, Or.inl rfl⟩
  | connError => exact ⟨_, hs, Or.inr (Or.inl rfl)⟩
  | api s => exact ⟨_, hs, Or.inr (Or.inr (Or.inr ⟨s, rfl, ht⟩))⟩
  | bulk sts =>
    rcases hs with ⟨hs, _⟩ | ⟨j, x, _, hx, hbad, _⟩
    · exact ⟨_, hs, Or.inr (Or.inr (Or.inl rfl))⟩
    · exfalso
      obtain ⟨s, h1, h2⟩ := ht x (List.mem_of_getElem? hx)
      exact hbad s h1 h2
  | success t => cases ht
  | authn => cases ht
  | authz => cases ht
  | transportOther => cases ht
  | otherExc t => cases ht

/-- eleven transient faults in a row always exhaust the budget -/
theorem eleven_transients_exhaust (rnd : Nat → Rat) (outs : List Outcome)
    (h : ∀ i, i < 11 → ∃ o, outs[i]? = some o ∧ Transient o) :
    (guarded rnd outs).calls = 11 ∧ ∃ c, (guarded rnd outs).res = .rallyError c := by
  -- every attempt i < 10 that is reached is followed by another one
  have step : ∀ i, i ≤ 10 → i < (guarded rnd outs).calls := by
    intro i
    induction i with
    | zero =>
      intro _
      obtain ⟨o, ho, _⟩ := h 0 (by omega)
      have hlen : 0 < outs.length := by
        rcases List.getElem?_eq_some_iff.mp ho with ⟨hl, _⟩; exact hl
      by_cases hz : (guarded rnd outs).calls = 0
      · have hp := loop_zero_calls rnd 0 outs (by simp [maxExecutionCount]) hz
        have := (loop_res rnd 0 outs).2 hp
        have hz' : nCalls (loop rnd 0 outs).trace = 0 := hz
        omega
      · omega
    | succ j ih =>
      intro hj
      have hjc := ih (by omega)
      obtain ⟨o, ho, ht⟩ := h j (by omega)
      have hf := (retry_iff_transient rnd outs j o ho hjc).mpr ⟨ht, by omega⟩
      rcases hf with hf | ⟨hf, hp⟩
      · exact hf
      · exfalso
        have := (loop_res rnd 0 outs).2 hp
        obtain ⟨o', ho', _⟩ := h (j + 1) (by omega)
        rcases List.getElem?_eq_some_iff.mp ho' with ⟨hl, _⟩
        have hf' : j + 1 = nCalls (loop rnd 0 outs).trace := hf
        omega
  obtain ⟨o, ho, ht⟩ := h 10 (by omega)
  obtain ⟨h1, c, h2, _⟩ := exhaustion_is_error rnd outs o ho (step 10 (by omega)) ht
  exact ⟨h1, c, h2⟩

/-! ### histories on one `EsMetricsStore`: no document is sent again after the cluster acknowledged it

`runStore rnd emptyStore steps` runs a history of `put` (documents added) and `flush(refresh)` / `close()` calls on one
store object, with arbitrary scripted fault sequences for the bulk call and for the refresh call of each flush
(each followed by success).  `acked` is what the cluster acknowledged, in order, with repetitions. -/

/-- **every document is acknowledged at most once**, whatever faults hit the bulk and refresh calls and whichever
    flushes raised (a refresh that fails for good after an acknowledged bulk does not make the next flush send it again) -/
theorem acknowledged_at_most_once (rnd : Nat → Rat) (steps : List StoreStep) :
    (runStore rnd emptyStore steps).1.acked.Nodup := by
  have h := runStore_inv rnd emptyStore steps rfl
  unfold StoreInv at h
  have hn : (List.range (runStore rnd emptyStore steps).1.next).Nodup := List.nodup_range
  rw [← h] at hn
  exact (List.nodup_append.mp hn).1

/-- nothing is lost and nothing is both acknowledged and still buffered: the documents added so far are exactly
    the acknowledged ones followed by the buffered ones -/
theorem documents_accounted_for (rnd : Nat → Rat) (steps : List StoreStep) :
    (runStore rnd emptyStore steps).1.acked ++ (runStore rnd emptyStore steps).1.buffer
      = List.range (runStore rnd emptyStore steps).1.next :=
  runStore_inv rnd emptyStore steps rfl

/-- … so once the buffer is empty (after a flush whose bulk call did not raise) every document added so far has
    been acknowledged exactly once -/
theorem all_acknowledged_exactly_once_when_flushed (rnd : Nat → Rat) (steps : List StoreStep)
    (h : (runStore rnd emptyStore steps).1.buffer = []) :
    (runStore rnd emptyStore steps).1.acked = List.range (runStore rnd emptyStore steps).1.next := by
  have := documents_accounted_for rnd steps
  rw [h] at this
  simpa using this

/-- a flush leaves the buffer empty unless its bulk call raised — then nothing was acknowledged and nothing dropped -/
theorem flush_empties_buffer_unless_bulk_raised (rnd : Nat → Rat) (s : Store) (refresh : Bool) (bulk refr : List Outcome) :
    (flushStep rnd s refresh bulk refr).1.buffer = [] ∨
    ((flushStep rnd s refresh bulk refr).2.err.isSome = true ∧ (flushStep rnd s refresh bulk refr).2.runs.length = 1 ∧
      (flushStep rnd s refresh bulk refr).1.buffer = s.buffer ∧ (flushStep rnd s refresh bulk refr).1.acked = s.acked) :=
  flushStep_buffer rnd s refresh bulk refr

/-! ### `EsMetricsStore.open()`: the store operations it issues -/

/-- the index is created iff `open(create=True)` finds it missing (a falsy `exists` answer) — never on `open(create=False)`,
    never when it is there -/
theorem open_creates_index_iff_missing (create : Bool) (c : Cluster) :
    StoreOp.createIndex ∈ openPlan create c ↔ (create = true ∧ c.index = false) := by
  rcases c with ⟨(_ | _ | (_ | _)), (_ | _), (_ | _)⟩ <;> cases create <;> decide

/-- the template is written iff there is none listed, or the listed one differs and overwriting is configured -/
theorem open_puts_template_iff (create : Bool) (c : Cluster) :
    StoreOp.putTemplate ∈ openPlan create c ↔
      (create = true ∧ (c.template = none ∨ c.template = some none ∨ (c.template = some (some false) ∧ c.overwrite = true))) := by
  rcases c with ⟨(_ | _ | (_ | _)), (_ | _), (_ | _)⟩ <;> cases create <;> decide

/-- no store operation occurs twice in an `open`, and the refresh comes last, on the index that was found -/
theorem open_plan_each_op_once (create : Bool) (c : Cluster) :
    (openPlan create c).Nodup ∧ (openPlan create c).getLast? = some (.refresh (!create && c.index)) := by
  rcases c with ⟨(_ | _ | (_ | _)), (_ | _), (_ | _)⟩ <;> cases create <;> decide

/-- whatever faults hit the calls: the operations issued are an initial part of the plan, in order, and the whole plan when
    nothing was raised; when something was raised it is the failure of the last operation issued -/
theorem ops_follow_plan (rnd : Nat → Rat) (d : Nat) (ops : List StoreOp) (scripts : List (List Outcome)) :
    (runOps rnd d ops scripts).1.map (·.1) <+: ops ∧
    ((runOps rnd d ops scripts).2 = none → (runOps rnd d ops scripts).1.map (·.1) = ops) ∧
    (∀ e, (runOps rnd d ops scripts).2 = some e → isReturned e = false ∧
      ∃ p, (runOps rnd d ops scripts).1.getLast? = some p ∧ p.2.res = e) := by
  induction ops generalizing d scripts with
  | nil => simp [runOps]
  | cons op ops ih =>
    by_cases h : isReturned (callThenSucceed rnd d (scripts.headD [])).res = true
    · have := ih (d + (callThenSucceed rnd d (scripts.headD [])).calls) scripts.tail
      simp only [runOps, h, if_true, List.map_cons]
      refine ⟨List.prefix_cons_inj _ |>.mpr this.1, fun hn => by rw [this.2.1 hn], ?_⟩
      intro e he
      obtain ⟨h1, p, hp, hpe⟩ := this.2.2 e he
      refine ⟨h1, p, ?_, hpe⟩
      rw [List.getLast?_cons, hp]
      rfl
    · simp only [runOps, h]
      simp only [Bool.false_eq_true, if_false, List.map_cons, List.map_nil]
      refine ⟨by simp, by simp, ?_⟩
      intro e he
      simp only [Option.some.injEq] at he
      subst he
      exact ⟨by simpa using h, _, rfl, rfl⟩

theorem open_follows_plan (rnd : Nat → Rat) (create : Bool) (c : Cluster) (scripts : List (List Outcome)) :
    (openStore rnd create c scripts).1.map (·.1) <+: openPlan create c ∧
    ((openStore rnd create c scripts).2 = none → (openStore rnd create c scripts).1.map (·.1) = openPlan create c) :=
  ⟨(ops_follow_plan rnd 0 _ scripts).1, (ops_follow_plan rnd 0 _ scripts).2.1⟩

/-- one guarded store operation hit by transient faults within the budget: one call per fault plus one, then its answer -/
theorem op_survives_transient_faults (rnd : Nat → Rat) (d : Nat) (s : List Outcome)
    (hs : ∀ o ∈ s, Transient o) (hl : s.length ≤ 10) :
    (callThenSucceed rnd d s).calls = s.length + 1 ∧ (callThenSucceed rnd d s).res = .returned s.length := by
  have := transient_faults_then_result_from (fun k => rnd (d + k)) 0 s [] s.length hs (by omega)
  exact this

/-- `open` survives transient faults: when every operation is hit by at most ten transient faults, nothing is raised, every
    operation of the plan is issued, and each operation is invoked once per fault plus once -/
theorem open_survives_transient_faults (rnd : Nat → Rat) (d : Nat) (ops : List StoreOp) (scripts : List (List Outcome))
    (h : ∀ s ∈ scripts, (∀ o ∈ s, Transient o) ∧ s.length ≤ 10) :
    (runOps rnd d ops scripts).2 = none ∧ (runOps rnd d ops scripts).1.map (·.1) = ops ∧
    ∀ p ∈ (runOps rnd d ops scripts).1, isReturned p.2.res = true ∧ p.2.sleeps.length + 1 = p.2.calls := by
  induction ops generalizing d scripts with
  | nil => simp [runOps]
  | cons op ops ih =>
    have hh : (∀ o ∈ scripts.headD [], Transient o) ∧ (scripts.headD []).length ≤ 10 := by
      cases scripts with
      | nil => simp
      | cons s rest => exact h s (by simp)
    have hr := op_survives_transient_faults rnd d (scripts.headD []) hh.1 hh.2
    have hret : isReturned (callThenSucceed rnd d (scripts.headD [])).res = true := by rw [hr.2]; rfl
    have := ih (d + (callThenSucceed rnd d (scripts.headD [])).calls) scripts.tail
      (fun s hs => h s (List.mem_of_mem_tail hs))
    simp only [runOps, hret, if_true, List.map_cons]
    refine ⟨this.1, by rw [this.2.1], ?_⟩
    intro p hp
    rcases List.mem_cons.mp hp with rfl | hp
    · refine ⟨hret, ?_⟩
      have hc := pauses_count (fun k => rnd (d + k)) (scripts.headD [] ++ [.success (scripts.headD []).length])
      have hres : (guarded (fun k => rnd (d + k)) (scripts.headD [] ++ [.success (scripts.headD []).length])).res
          = .returned (scripts.headD []).length := hr.2
      have hcalls : (guarded (fun k => rnd (d + k)) (scripts.headD [] ++ [.success (scripts.headD []).length])).calls
          = (scripts.headD []).length + 1 := hr.1
      rw [hres, hcalls] at hc
      show (guarded _ _).sleeps.length + 1 = (guarded _ _).calls
      rw [hc, hcalls]
      simp
    · exact this.2.2 p hp

/-! ### one level below: the Rally client turns HTTP answers into what `guarded` classifies -/

/-- `exists` / `template_exists` (HEAD): 2xx and 404 are answers, **every other status is raised** — so 429/502/503/504
    reach `guarded` as retryable API errors, 401/403 as authentication / authorization errors, 500 as an API error -/
theorem head_status_rule (s : Nat) (ignore : List Nat) (hi : ignore = []) :
    statusRaises true s ignore = false ↔ (s = 404 ∨ (200 ≤ s ∧ s < 299)) := by
  subst hi
  by_cases h404 : s = 404
  · simp [statusRaises, h404]
  · simp [statusRaises, h404]

theorem head_transient_status_raises (s : Nat) (h : IsRetryableStatus s) : statusRaises true s [] = true := by
  rcases h with h | h | h | h <;> subst h <;> decide

/-- a status the caller asked to ignore (404 for `delete`, 400 for `create_index`) is a normal response -/
theorem ignored_status_is_a_response (head : Bool) (s : Nat) (ignore : List Nat) (h : s ∈ ignore) :
    statusRaises head s ignore = false := by
  simp [statusRaises, h]

/-- the product check comes first and the request itself is the last exchange of a call: nothing is exchanged after it -/
theorem request_is_the_last_exchange (verified head : Bool) (ignore : List Nat) (info target : Reply) :
    (clientCall verified head ignore info target).1 = [.target] ∨
    (clientCall verified head ignore info target).1 = [.info, .target] ∨
    (clientCall verified head ignore info target).1 = [.info] := by
  unfold clientCall
  cases verified
  · cases info with
    | status s => by_cases h : (decide (200 ≤ s) && decide (s < 299)) = true <;> simp [h]
    | connError => simp
    | connTimeout => simp
  · simp

/-- … hence a request the cluster acknowledged (2xx) always ends the call successfully: no later exchange can turn
    an acknowledged write into a failed call that `guarded` would repeat -/
theorem acknowledged_request_succeeds (verified head : Bool) (ignore : List Nat) (info : Reply) (s : Nat)
    (hs : 200 ≤ s ∧ s < 299) (hsent : Exchange.target ∈ (clientCall verified head ignore info (.status s)).1) :
    (clientCall verified head ignore info (.status s)).2 = .response s := by
  have hr : statusRaises head s ignore = false := by
    simp [statusRaises]; omega
  unfold clientCall at hsent ⊢
  cases verified
  · cases info with
    | status t =>
      by_cases h : (decide (200 ≤ t) && decide (t < 299)) = true
      · simp [h, sendTarget, hr]
      · simp [h] at hsent
    | connError => simp at hsent
    | connTimeout => simp at hsent
  · simp [sendTarget, hr]

/-! ### every store operation is routed through `guarded`; constants as stated (generated table) -/

/-- a method is guarded when it hands its client call to `guarded` itself, or delegates to a method that does,
    and never invokes a client API outside `guarded` -/
def rowGuarded (r : Gen.Guarded.Row) : Bool :=
  !r.unguardedClientCall &&
    (r.direct || match r.via with
      | some j => ((Gen.Guarded.table[j]?).map (fun r' => r'.direct && !r'.unguardedClientCall)).getD false
      | none => false)

theorem all_store_ops_guarded : ∀ r ∈ Gen.Guarded.table, rowGuarded r = true := by
  decide +kernel

/-- the constants in the code are the ones the model (and the theorems above) use:
    retryable statuses {429, 502, 503, 504}, ten retries (eleven executions), base-2 backoff -/
theorem constants_as_stated :
    (∀ s ∈ Gen.Guarded.retryableStatusCodes, s ∈ retryableStatusCodes) ∧
    (∀ s ∈ retryableStatusCodes, s ∈ Gen.Guarded.retryableStatusCodes) ∧
    Gen.Guarded.maxExecutionCount = maxExecutionCount ∧ Gen.Guarded.loopInclusive = true ∧
    Gen.Guarded.backoffBase = 2 := by
  decide +kernel

/-! ### non-vacuity: concrete inputs meeting the hypotheses (tests, labelled as tests) -/

def z : Nat → Rat := fun _ => 0
example : guarded z [.connTimeout, .api 503, .bulk [some 429, some 502], .success 3] =
    ⟨.returned 3, [.call, .sleep 1, .call, .sleep 2, .call, .sleep 4, .call]⟩ := by decide +kernel
example : (guarded z [.connError, .bulk [some 429, some 409, none], .success 2]).res = .rallyError (.bulkUnretryable 1) := by
  decide +kernel
example : (guarded z (List.replicate 11 .connTimeout)).res = .rallyError .timeoutExhausted ∧
    (guarded z (List.replicate 11 .connTimeout)).calls = 11 := by decide +kernel
example : (guarded z (List.replicate 10 .connError ++ [.success 10, .success 11])).res = .returned 10 := by decide +kernel
example : (guarded z (List.replicate 10 (.api 429))).res = .pending := by decide +kernel
example : Transient (.bulk [some 429, some 503]) := by
  intro x hx
  simp at hx
  rcases hx with rfl | rfl
  · exact ⟨429, rfl, Or.inl rfl⟩
  · exact ⟨503, rfl, Or.inr (Or.inr (Or.inl rfl))⟩
example : FollowedByAnother (guarded z [.connTimeout, .success 1]) 0 := Or.inl (by decide +kernel)
example : backoff z false 0 3 = [.call, .sleep (pause 0 0), .call, .sleep (pause 1 0), .call] := by decide +kernel
example : pause 3 (1/2) = 17/2 := by decide +kernel
-- a falsy result (HeadApiResponse(False) of `exists`) after two transient faults: three calls, and the later scripted results are never asked for
example : guarded z [.connTimeout, .api 503, succeeds 2 .headFalse, succeeds 3 .headTrue] =
    ⟨.returned (resultTag 2 .headFalse), [.call, .sleep 1, .call, .sleep 2, .call]⟩ := by decide +kernel
example : Value.truthy .headFalse = false ∧ Value.truthy .emptyBody = false ∧ Value.truthy .pyNone = false ∧ Value.truthy .body = true := by decide
example : tagAttempt (resultTag 2 .headFalse) = 2 ∧ tagValue (resultTag 2 .headFalse) = .headFalse := by decide
example : ([Outcome.connError, .success 5].map (retag (fun t => resultTag t .emptyBody))) = [.connError, succeeds 5 .emptyBody] := by decide
example : (∀ o ∈ [Outcome.connTimeout, .api 429], Transient o) := by
  intro o ho
  simp at ho
  rcases ho with rfl | rfl
  · trivial
  · exact Or.inl rfl
-- open(create=True) on a fresh metrics store: no template, no index -> template_exists, put_template, exists, create_index, refresh
example : openPlan true ⟨none, false, false⟩ = [.templateExists, .putTemplate, .existsIndex false, .createIndex, .refresh false] := by decide
example : openPlan true ⟨some (some false), false, true⟩ = [.templateExists, .getTemplate, .existsIndex false, .refresh false] := by decide
example : openPlan false ⟨none, false, true⟩ = [.existsIndex true, .refresh true] := by decide
example : ((openStore z true ⟨none, false, false⟩ [[.connTimeout], [], [.api 503, .api 429]]).1.map (fun p => (p.1, p.2.calls))) =
    [(.templateExists, 2), (.putTemplate, 1), (.existsIndex false, 3), (.createIndex, 1), (.refresh false, 1)] := by decide +kernel
example : (openStore z true ⟨none, false, false⟩ [[], [.authz]]).2 = some (.systemSetupError .authz) ∧
    (openStore z true ⟨none, false, false⟩ [[], [.authz]]).1.map (·.1) = [.templateExists, .putTemplate] := by decide +kernel
-- two documents, the bulk is acknowledged, the refresh fails for good (not found), one more document, close:
-- the first two documents are not sent again
example : (runStore z emptyStore [.put 2, .flush true [] [.api 404], .put 1, .flush true [.connTimeout] []]).1
    = ⟨[], [0, 1, 2], 3, 5⟩ := by decide +kernel
example : ((runStore z emptyStore [.put 2, .flush true [] [.api 404]]).2.map (·.err)) = [none, some (.rallyError (.apiError 404))] := by
  decide +kernel
-- a bulk that fails for good keeps the documents for the next flush
example : (runStore z emptyStore [.put 2, .flush false [.authn] [], .flush false [] []]).1.acked = [0, 1] := by decide +kernel

end C17
