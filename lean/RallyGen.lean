import RallyGen.Percentiles
import RallyGen.RetryWrapped
import RallyGen.StatsKeys
