import RallyModel.Dbl
import RallyModel.Versions
