import RallyModel.Versions
