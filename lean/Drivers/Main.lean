import Lean.Data.Json
import Drivers.Util
import Drivers.Dispatch
open Lean

def answer (line : String) : Json :=
  match Json.parse line with
  | .error e => Json.mkObj [("bad", Json.str s!"parse: {e}")]
  | .ok j =>
    let r : Except String Json := do
      let m ← j.getObjValAs? String "m"
      let op ← j.getObjValAs? String "op"
      let a := (j.getObjVal? "a").toOption.getD Json.null
      dispatch m op a
    match r with
    | .ok v => v
    | .error e => Json.mkObj [("bad", Json.str e)]

partial def loop (inp out : IO.FS.Stream) : IO Unit := do
  let line ← inp.getLine
  if line.isEmpty then return ()
  out.putStrLn (answer line).compress
  out.flush
  loop inp out

def main : IO Unit := do
  let inp ← IO.getStdin
  let out ← IO.getStdout
  loop inp out
  out.flush
