import RallyModel.JsonFast
import RallyModel.JsonFastMore
import Drivers.Util
open Lean DUtil

namespace Drivers.JsonFast
open _root_.JsonFast

abbrev J := _root_.JsonFast.Json

/-- ASCII-only transport of strings: printable ASCII except `~` as is, everything else `~<hex>;` -/
def encStr (s : Str) : String :=
  String.join (s.map fun c =>
    if 32 ≤ c.toNat ∧ c.toNat ≤ 126 ∧ c ≠ '~' then String.singleton c
    else "~" ++ String.ofList (Nat.toDigits 16 c.toNat) ++ ";")

def enc (s : Str) : Lean.Json := Lean.Json.str (encStr s)

def numOfLit (lit : Str) : Except String _root_.JsonFast.NumLit :=
  match scanNum lit with
  | some (n, []) => if n.valid && n.render == lit then .ok n else .error s!"bad number literal {String.ofList lit}"
  | _ => .error s!"bad number literal {String.ofList lit}"

partial def docOf (j : Lean.Json) : Except String J :=
  match j with
  | .null => .ok .null
  | .bool b => .ok (.bool b)
  | .str s => .ok (.str s.toList)
  | .arr a => do
    let xs ← a.toList.mapM docOf
    return .arr xs
  | .num _ => .error "bare number in document (use {\"n\": literal})"
  | .obj _ =>
    match j.getObjVal? "n" with
    | .ok (.str lit) => do
      let n ← numOfLit lit.toList
      return .num n
    | _ =>
      match j.getObjVal? "o" with
      | .ok (.arr ps) => do
        let kvs ← ps.toList.mapM fun p =>
          match p with
          | .arr #[.str k, v] => do
            let v' ← docOf v
            return (k.toList, v')
          | _ => .error "bad member"
        return .obj kvs
      | _ => .error "bad tagged document"

def numJ (n : _root_.JsonFast.NumLit) : Lean.Json := Lean.Json.mkObj [("n", enc n.render)]

partial def docJ : J → Lean.Json
  | .null => .null
  | .bool b => .bool b
  | .num n => numJ n
  | .str s => enc s
  | .arr xs => arr (xs.map docJ)
  | .obj kvs => Lean.Json.mkObj [("o", arr (kvs.map fun kv => arr [enc kv.1, docJ kv.2]))]

def svalJ : SVal → Lean.Json
  | .none => .null
  | .bool b => .bool b
  | .num n => numJ n
  | .str s => enc s

def pvalJ : PVal → Lean.Json
  | .s v => svalJ v
  | .dict kvs => Lean.Json.mkObj [("d", arr (kvs.map fun kv => arr [enc kv.1, svalJ kv.2]))]

def dictJ (d : List (Option Str × PVal)) : Lean.Json :=
  arr (d.map fun kv => arr [(match kv.1 with | some k => enc k | none => Lean.Json.null), pvalJ kv.2])

def evJ (e : Str × Ev) : Lean.Json :=
  let (n, v) : String × Lean.Json := match e.2 with
    | .startMap => ("start_map", .null)
    | .endMap => ("end_map", .null)
    | .mapKey k => ("map_key", enc k)
    | .startArray => ("start_array", .null)
    | .endArray => ("end_array", .null)
    | .null => ("null", .null)
    | .boolean b => ("boolean", .bool b)
    | .number n => ("number", numJ n)
    | .string s => ("string", enc s)
  arr [enc e.1, Lean.Json.str n, v]

def errName : Err → String
  | .keyError => "KeyError"
  | .typeError => "TypeError"
  | .stopIteration => "StopIteration"
  | .attributeError => "AttributeError"
  | .zeroDivision => "ZeroDivisionError"
  | .decode => "JSONDecodeError"
  | .assertion => "RallyAssertionError"
  | .exhausted => "Exhausted"
  | .unsupported => "Unsupported"

def getWs (j : Lean.Json) (k : String) : Except String Str :=
  match j.getObjVal? k with
  | .ok (.str s) => .ok s.toList
  | .ok _ => .error s!"style field {k}"
  | .error _ => .ok []

def styleOf (a : Lean.Json) : Except String Style := do
  let j ← match a.getObjVal? "style" with
    | .ok j => pure j
    | .error _ => pure (Lean.Json.mkObj [])
  let st : Style := {
    lead := ← getWs j "lead", trail := ← getWs j "trail", afterOpen := ← getWs j "after_open",
    beforeClose := ← getWs j "before_close", inEmpty := ← getWs j "in_empty", afterComma := ← getWs j "after_comma",
    beforeComma := ← getWs j "before_comma", beforeColon := ← getWs j "before_colon", afterColon := ← getWs j "after_colon",
    ascii := (j.getObjValAs? Bool "ascii").toOption.getD false }
  if !st.valid then throw "style: non-whitespace padding"
  return st

def getDoc (a : Lean.Json) (k : String := "doc") : Except String J := do
  let d ← a.getObjVal? k
  docOf d

def getDocs (a : Lean.Json) (k : String) : Except String (List J) := do
  let ds ← getArr a k
  ds.mapM docOf

def pvalOf (j : Lean.Json) : Except String PVal :=
  match j with
  | .null => .ok pyNone
  | .bool b => .ok (.s (.bool b))
  | .str s => .ok (.s (.str s.toList))
  | _ => match j.getObjVal? "n" with
    | .ok (.str lit) => do
      let n ← numOfLit lit.toList
      return .s (.num n)
    | _ => .error "bad pval"

def statsJ (b : BulkStats) : Lean.Json :=
  Lean.Json.mkObj [
    ("took", match b.took with | some v => arr [pvalJ v] | none => .null),
    ("success", .bool b.success),
    ("success_count", match b.successCount with | some i => toJson i | none => .null),
    ("error_count", toJson b.errorCount),
    ("details", arr (b.details.map fun d => arr [toJson d.1, match d.2 with | some r => enc r | none => .null])),
    ("description", match b.description with | some t => enc t | none => .null),
    ("shown", toJson ((descOf b.details).shown.length)),
    ("truncated", .bool (descOf b.details).truncated.isSome)]

def exceptJ {α : Type} (f : α → Lean.Json) : Except Err α → Lean.Json
  | .ok v => Lean.Json.mkObj [("ok", f v)]
  | .error e => Lean.Json.mkObj [("err", Lean.Json.str (errName e))]

def exceptTag {α : Type} : Except Err α → String
  | .ok _ => "ok"
  | .error e => errName e

def optDocJ : Option J → Lean.Json
  | some v => arr [docJ v]
  | none => .null

def accJ (a : PageAcc) : Lean.Json :=
  Lean.Json.mkObj [("pages", toJson a.pages), ("hits", pvalJ a.hits), ("hits_relation", pvalJ a.hitsRel),
    ("took", toJson a.took), ("timed_out", pvalJ a.timedOut), ("cursors", arr (a.cursors.map optDocJ)),
    ("afters", arr (a.afters.map pvalJ)), ("pit_ids", arr (a.pitIds.map pvalJ))]

def scrollJ (a : ScrollAcc) : Lean.Json :=
  Lean.Json.mkObj [("pages", toJson a.pages), ("hits", pvalJ a.hits), ("hits_relation", pvalJ a.hitsRel),
    ("took", pvalJ a.took), ("timed_out", pvalJ a.timedOut), ("scroll_id", pvalJ a.scrollId)]

def rbJ (r : RBRes) : Lean.Json :=
  Lean.Json.mkObj [("hits", pvalJ r.hits), ("hits_relation", pvalJ r.hitsRel), ("timed_out", pvalJ r.timedOut),
    ("took", pvalJ r.took), ("total", pvalJ r.shTotal), ("successful", pvalJ r.shSuccessful),
    ("skipped", pvalJ r.shSkipped), ("failed", pvalJ r.shFailed)]

def lastSortTags (text : Str) : List String :=
  match rfind sortTok text with
  | none => ["notok", "nomatch"]
  | some i => ["tok", if isPrefix sortLit (text.drop (i + 1)) then "match" else "nomatch"]

def boxDocJ : Option (Option J) → Lean.Json
  | none => .null
  | some v => Lean.Json.mkObj [("v", match v with | some d => docJ d | none => .null)]

def boxPvalJ : Option PVal → Lean.Json
  | none => .null
  | some v => Lean.Json.mkObj [("v", pvalJ v)]

def getLeftDoc (a : Lean.Json) : Except String (Option (Option J)) :=
  match a.getObjVal? "left" with
  | .ok .null => .ok none
  | .error _ => .ok none
  | .ok b => match b.getObjVal? "v" with
    | .ok .null => .ok (some none)
    | .ok d => do
      let x ← docOf d
      return some (some x)
    | .error e => .error e

/-- leftover `after` of a composite body: a flat dict `{"d": [[k, sval], ...]}` -/
def flatOf (j : Lean.Json) : Except String PVal := do
  let ps ← getArr j "d"
  let kvs ← ps.mapM fun p =>
    match p with
    | .arr #[.str k, v] => do
      let pv ← pvalOf v
      match pv with
      | .s sv => pure (k.toList, sv)
      | _ => .error "nested dict"
    | _ => .error "bad flat member"
  return .dict kvs

def getLeftAfter (a : Lean.Json) : Except String (Option PVal) :=
  match a.getObjVal? "left" with
  | .ok .null => .ok none
  | .error _ => .ok none
  | .ok b => match b.getObjVal? "v" with
    | .ok d => do
      let x ← flatOf d
      return some x
    | .error e => .error e

def handle (op : String) (a : Lean.Json) : Except String Lean.Json := do
  match op with
  | "cax_session" =>
    let cs ← getArr a "calls"
    let calls ← cs.mapM fun c => do
      let d ← getDoc c
      let pit ← getBool c "pit"
      let path ← getStrList c "path"
      let ht ← pvalOf ((c.getObjVal? "hits_total").toOption.getD .null)
      pure ({ pit := pit, path := path, hitsTotal := ht, resp := d } : CaxCall)
    return ok (arr ((session caxCallOn () calls).map (exceptJ dictJ)))
  | "sax_session" =>
    let cs ← getArr a "calls"
    let st ← styleOf a
    let calls ← cs.mapM fun c => do
      let d ← getDoc c
      let pit ← getBool c "pit"
      let ht ← pvalOf ((c.getObjVal? "hits_total").toOption.getD .null)
      pure ({ pit := pit, hitsTotal := ht, resp := d } : SaxCall)
    return ok (arr ((session (saxCallOn st) () calls).map
      (exceptJ (fun (p : List (Option Str × PVal) × Option J) => arr [dictJ p.1, optDocJ p.2]))))
  | "bulk_session" =>
    let cs ← getArr a "calls"
    let calls ← cs.mapM fun c => do
      let d ← getDoc c
      let det ← getBool c "detailed"
      let bs ← getInt c "bulk_size"
      let ud ← getBool c "unit_docs"
      pure ({ detailed := det, bulkSize := bs, unitDocs := ud, resp := d } : BulkCall)
    return ok (arr ((session bulkCallOn () calls).map (exceptJ statsJ)))
  | "parse_session" =>
    let cs ← getArr a "calls"
    let calls ← cs.mapM fun c => do
      let d ← getDoc c
      let props ← getStrList c "props"
      let lists ← getStrList c "lists"
      let objs ← getStrList c "objs"
      pure ({ props := props, lists := lists, objs := objs, resp := d } : ParseCall)
    return ok (arr ((session parseCallOn () calls).map dictJ))
  | "render" =>
    let d ← getDoc a
    let st ← styleOf a
    return ok (Lean.Json.mkObj [("text", enc (renderDoc st d)), ("events", arr ((events [] d).map evJ))])
  | "parse" =>
    let d ← getDoc a
    let props ← getStrList a "props"
    let lists ← getStrList a "lists"
    let objs ← getStrList a "objs"
    let evs := events [] d
    let fin := run props lists objs {} evs
    return ok (dictJ (parseSel props lists objs evs)) [if done props lists objs fin then "early-exit" else "full-scan"]
  | "bulk" =>
    let d ← getDoc a
    let bs ← getInt a "bulk_size"
    let ud ← getBool a "unit_docs"
    let s := simpleStats bs ud d
    let dt := detailedStats d
    return ok (Lean.Json.mkObj [("simple", exceptJ statsJ s), ("detailed", exceptJ statsJ dt)])
      ["simple:" ++ exceptTag s, "detailed:" ++ exceptTag dt]
  | "error_detail" =>
    let d ← getDoc a
    return ok (exceptJ (fun (p : Int × Option Str) => arr [toJson p.1, match p.2 with | some r => enc r | none => .null]) (errorDetail d))
  | "json_loads" =>
    let t ← getStr a "text"
    let r := jsonLoads t
    return ok (exceptJ docJ r) [exceptTag r]
  | "last_sort_text" =>
    let t ← getStr a "text"
    let r := lastSort t
    return ok (exceptJ optDocJ r) (exceptTag r :: lastSortTags t)
  | "search_after_extract" =>
    let d ← getDoc a
    let st ← styleOf a
    let pit ← getBool a "pit"
    let ht ← pvalOf ((a.getObjVal? "hits_total").toOption.getD .null)
    let r := searchAfterExtract st pit ht d
    return ok (exceptJ (fun (p : List (Option Str × PVal) × Option J) => arr [dictJ p.1, optDocJ p.2]) r)
      (exceptTag r :: lastSortTags (renderDoc st d))
  | "composite_extract" =>
    let d ← getDoc a
    let pit ← getBool a "pit"
    let path ← getStrList a "path"
    let ht ← pvalOf ((a.getObjVal? "hits_total").toOption.getD .null)
    let r := compositeExtract pit path ht d
    return ok (exceptJ dictJ r) [exceptTag r]
  | "sa_query" =>
    let ds ← getDocs a "docs"
    let st ← styleOf a
    let pit ← getBool a "pit"
    let size ← getNat a "size"
    let total ← getNat a "pages"
    let left ← getLeftDoc a
    let r := saQueryOn st left { pit := pit, size := size, total := total, resps := ds }
    return ok (Lean.Json.mkObj [("res", exceptJ accJ r.2.1), ("first", boxDocJ r.2.2), ("left_after", boxDocJ r.1)]) [exceptTag r.2.1]
  | "ca_query" =>
    let ds ← getDocs a "docs"
    let pit ← getBool a "pit"
    let path ← getStrList a "path"
    let total ← getNat a "pages"
    let left ← getLeftAfter a
    let r := caQueryOn left { pit := pit, path := path, total := total, resps := ds }
    return ok (Lean.Json.mkObj [("res", exceptJ accJ r.2.1), ("first", boxPvalJ r.2.2), ("left_after", boxPvalJ r.1)]) [exceptTag r.2.1]
  | "sa_concurrent" =>
    -- searches in flight together on one Query object, run under the schedule the harness observed
    let st ← styleOf a
    let cs ← getArr a "calls"
    let calls ← cs.mapM fun c => do
      let ds ← getDocs c "docs"
      let pit ← getBool c "pit"
      let size ← getNat c "size"
      let total ← getNat c "pages"
      pure ({ pit := pit, size := size, total := total, resps := ds } : SaQCall)
    let sj ← getArr a "sched"
    let sched ← sj.mapM fun x => match x.getNat? with
      | .ok n => pure n
      | .error e => throw e
    let fin := saSchedule st sched (calls.map saStart)
    return ok (arr (fin.map fun v => match v.res with
      | some r => exceptJ accJ r
      | none => Lean.Json.mkObj [("pending", toJson v.page)]))
      (fin.map fun v => match v.res with | some r => exceptTag r | none => "pending")
  | "scroll_query" =>
    let ds ← getDocs a "docs"
    let size ← getOptNat a "size"
    let total ← getNat a "pages"
    let r := scrollQuery size total ds
    return ok (exceptJ scrollJ r) [exceptTag r]
  | "rb_detailed" =>
    let d ← getDoc a
    return ok (rbJ (requestBodyDetailed d))
  | _ => throw s!"unknown op {op}"

end Drivers.JsonFast
