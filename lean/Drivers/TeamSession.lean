import RallyModel.TeamSession
import Drivers.Team
import Drivers.Util
open Lean DUtil

namespace Drivers.TeamSession
open _root_.Team Drivers.Team

/-! wire format (see Drivers/Team.lean for team / vars / node / fs)
  step : {"op": "write", "root": r, "team": team}
       | {"op": "load", "root": r, "names": [...], "params": vars, "node": node|null, "dist": fs|null}
  session → one entry per load step: {"err": e} | {"car": car, "prepared": null | {"fs", "vars", "result"}}
-/

def sErrName : SErr → String
  | .noTeam => "SystemSetupError:no-team"
  | .team e => errName e

def parseStep (j : Json) : Except String Step := do
  let op ← getStr j "op"
  let root ← getStr j "root"
  match String.ofList op with
  | "write" => return .write root (← parseTeam (← j.getObjVal? "team"))
  | "load" =>
    let names ← getStrList j "names"
    let params ← getVars j "params"
    let prov ← match j.getObjVal? "node" with
      | .ok .null => pure none
      | .error _ => pure none
      | .ok nj => do
        let n ← parseNode nj
        let dist ← parseFS (← j.getObjVal? "dist")
        pure (some (⟨n, dist⟩ : Prov))
    return .load root names params prov
  | s => throw s!"bad step {s}"

def preparedJson (p : Prepared) : Json :=
  let res := match p.result with
    | .ok nc => Json.mkObj [("ok", Json.mkObj [("runtime_jdk", valJson nc.runtimeJdk), ("bundled", Json.bool nc.bundledJdk),
        ("ip", str nc.ip), ("node_name", str nc.nodeName), ("node_root", str nc.nodeRoot), ("binary_path", str nc.binaryPath),
        ("data_paths", arr (nc.dataPaths.map str))])]
    | .error e => Json.mkObj [("err", Json.str (errName e))]
  Json.mkObj [("fs", fsJson p.fs), ("vars", varsJson p.vars), ("result", res)]

def answerJson (a : Answer) : Json :=
  match a.car with
  | .error e => Json.mkObj [("err", Json.str (sErrName e))]
  | .ok c => Json.mkObj [("car", carJson c), ("prepared", match a.prepared with | none => Json.null | some p => preparedJson p)]

def handle (op : String) (a : Json) : Except String Json := do
  match op with
  | "session" =>
    let steps ← (← getArr a "steps").mapM parseStep
    let rs := run [] steps
    let writes := (steps.filter Step.isWrite).length
    let roots := (steps.filterMap (fun s => match s with | .write r _ => some r | _ => none)).eraseDups
    let rewrites := writes > roots.length
    let errs := rs.filter (fun r => match r.car with | .error _ => true | .ok _ => false)
    return ok (arr (rs.map answerJson))
      [ if rewrites then "rewrite-in-place" else "no-rewrite",
        if roots.length > 1 then "several-roots" else "one-root",
        if rs.length > 1 then "several-loads" else "one-load",
        if errs.isEmpty then "all-loaded" else if errs.length == rs.length then "none-loaded" else "some-errors",
        if rs.any (fun r => r.prepared.isSome) then "provisioned" else "load-only" ]
  | _ => throw s!"unknown op {op}"

end Drivers.TeamSession
