import RallyModel.TrackSpec
import RallyGen.OpTypes
import Drivers.Util
open Lean DUtil

/-! Line-protocol handler for the C10 model.  The specification travels in the *real* track JSON
format (the dict `json.loads(rendered)` yields); keys the reader interprets must be well typed
(otherwise `out-of-domain`), every other key is kept as opaque JSON text. -/
namespace Drivers.TrackSpec
open _root_.TrackSpec

abbrev D := Except String

def ood {α : Type} (what : String) : D α := throw s!"out-of-domain: {what}"

def field (j : Json) (k : String) : Option Json :=
  match j.getObjVal? k with
  | .ok Json.null => none
  | .ok v => some v
  | .error _ => none

def fStr (j : Json) (k : String) : D (Option Str) :=
  match field j k with
  | none => pure none
  | some (Json.str s) => pure (some s.toList)
  | some _ => ood s!"{k} not a string"

def fNat (j : Json) (k : String) : D (Option Nat) :=
  match field j k with
  | none => pure none
  | some v => match v.getNat? with
    | .ok n => pure (some n)
    | .error _ => ood s!"{k} not a natural number"

def fInt (j : Json) (k : String) : D (Option Int) :=
  match field j k with
  | none => pure none
  | some v => match v.getInt? with
    | .ok n => pure (some n)
    | .error _ => ood s!"{k} not an integer"

def fBool (j : Json) (k : String) : D (Option Bool) :=
  match field j k with
  | none => pure none
  | some (Json.bool b) => pure (some b)
  | some _ => ood s!"{k} not a boolean"

def fArr (j : Json) (k : String) : D (Option (List Json)) :=
  match field j k with
  | none => pure none
  | some (Json.arr a) => pure (some a.toList)
  | some _ => ood s!"{k} not an array"

def kvs (j : Json) : D (List (String × Json)) :=
  match j with
  | Json.obj m => pure (m.foldl (fun acc k v => acc ++ [(k, v)]) [])
  | _ => ood "not an object"

/-- all keys of object `j` except `skip`, values as canonical JSON text -/
def objExcept (j : Json) (skip : List String) : D Obj := do
  let l ← kvs j
  pure ((l.filter (fun kv => !skip.contains kv.1)).map (fun kv => (kv.1.toList, kv.2.compress.toList)))

def fObj (j : Json) (k : String) : D Obj :=
  match field j k with
  | none => pure []
  | some v => objExcept v []

def strList (l : List Json) : D (List Str) :=
  l.mapM (fun v => match v with
    | Json.str s => pure s.toList
    | _ => ood "not a string list")

def opKeys : List String := ["name", "operation-type", "meta", "param-source", "include-in-reporting"]

def decOp (j : Json) : D OpSpec := do
  pure { name := ← fStr j "name", opType := ← fStr j "operation-type", metaData := ← fObj j "meta",
         paramSource := ← fStr j "param-source", includeInReporting := ← fBool j "include-in-reporting",
         params := ← objExcept j opKeys }

def taskKeys : List String :=
  ["operation", "name", "tags", "meta", "warmup-iterations", "iterations", "warmup-time-period", "time-period",
   "ramp-up-time-period", "clients", "schedule"]

def decTask (j : Json) : D TaskSpec := do
  let _ ← kvs j
  let opr : Option OpRef ← (match j.getObjVal? "operation" with
    | .error _ => pure none
    | .ok (Json.str s) => pure (some (OpRef.name s.toList))
    | .ok (Json.obj m) => do
      let o ← decOp (Json.obj m)
      pure (some (OpRef.inline o))
    | .ok _ => ood "operation neither string nor object")
  let tags : TagsSpec ← (match field j "tags" with
    | none => pure TagsSpec.absent
    | some (Json.str s) => pure (TagsSpec.one s.toList)
    | some (Json.arr a) => do
      let l ← strList a.toList
      pure (TagsSpec.many l)
    | some _ => ood "tags")
  pure { operation := opr, name := ← fStr j "name", tags := tags, metaData := ← fObj j "meta",
         warmupIterations := ← fNat j "warmup-iterations", iterations := ← fNat j "iterations",
         warmupTimePeriod := ← fNat j "warmup-time-period", timePeriod := ← fNat j "time-period",
         rampUpTimePeriod := ← fNat j "ramp-up-time-period", clients := ← fNat j "clients",
         schedule := ← fStr j "schedule", params := ← objExcept j taskKeys }

def decParallel (j : Json) : D ParallelSpec := do
  let _ ← kvs j
  let tasks ← (match ← fArr j "tasks" with
    | none => pure none
    | some l => do
      let ts ← l.mapM decTask
      pure (some ts))
  pure { warmupIterations := ← fNat j "warmup-iterations", iterations := ← fNat j "iterations",
         warmupTimePeriod := ← fNat j "warmup-time-period", timePeriod := ← fNat j "time-period",
         rampUpTimePeriod := ← fNat j "ramp-up-time-period", clients := ← fNat j "clients",
         completedBy := ← fStr j "completed-by", tasks := tasks }

def decElem (j : Json) : D ElemSpec := do
  let l ← kvs j
  match j.getObjVal? "parallel" with
  | .ok p =>
    if l.length ≠ 1 then ood "parallel item with other keys" else
    let ps ← decParallel p
    pure (ElemSpec.parallel ps)
  | .error _ =>
    let t ← decTask j
    pure (ElemSpec.task t)

def decSchedule (j : Json) (k : String) : D (Option (List ElemSpec)) := do
  match ← fArr j k with
  | none => pure none
  | some l =>
    let es ← l.mapM decElem
    pure (some es)

def decChallenge (j : Json) : D ChallengeSpec := do
  let _ ← kvs j
  pure { name := ← fStr j "name", description := ← fStr j "description", userInfo := ← fStr j "user-info",
         parameters := ← fObj j "parameters", metaData := ← fObj j "meta", default := ← fBool j "default",
         schedule := ← decSchedule j "schedule" }

def noSlash (o : Option Str) : D Unit :=
  match o with
  | some s => if s.contains '/' then ood "source-file with directory separator" else pure ()
  | none => pure ()

def decDoc (j : Json) : D DocSpec := do
  let _ ← kvs j
  let sf ← fStr j "source-file"
  noSlash sf
  pure { baseUrl := ← fStr j "base-url", sourceFormat := ← fStr j "source-format", sourceFile := sf,
         documentCount := ← fNat j "document-count", compressedBytes := ← fNat j "compressed-bytes",
         uncompressedBytes := ← fNat j "uncompressed-bytes", metaData := ← fObj j "meta",
         includesActionAndMetaData := ← fBool j "includes-action-and-meta-data",
         targetType := ← fStr j "target-type", targetDataStream := ← fStr j "target-data-stream",
         targetIndex := ← fStr j "target-index" }

def decCorpus (j : Json) : D CorpusSpec := do
  let _ ← kvs j
  let docs ← (match ← fArr j "documents" with
    | none => pure none
    | some l => do
      let ds ← l.mapM decDoc
      pure (some ds))
  pure { name := ← fStr j "name", metaData := ← fObj j "meta", baseUrl := ← fStr j "base-url",
         sourceFormat := ← fStr j "source-format",
         includesActionAndMetaData := ← fBool j "includes-action-and-meta-data",
         targetIndex := ← fStr j "target-index", targetDataStream := ← fStr j "target-data-stream",
         targetType := ← fStr j "target-type", documents := docs }

def decIndex (j : Json) : D IndexSpec := do
  let _ ← kvs j
  let types ← (match ← fArr j "types" with
    | none => pure []
    | some l => strList l)
  let body : Option Str := (field j "body").map (fun v => v.compress.toList)
  pure { name := ← fStr j "name", types := types, body := body }

def listOf {α : Type} (j : Json) (k : String) (f : Json → D α) : D (List α) := do
  match ← fArr j k with
  | none => pure []
  | some l => l.mapM f

/-- `int(raw_version)` for a JSON number (truncation), `none` when absent -/
def versionOf (j : Json) : D (Option Int) :=
  match field j "version" with
  | none => pure none
  | some (Json.num n) => pure (some (Int.tdiv n.mantissa ((10 : Int) ^ n.exponent)))
  | some _ => ood "version not a number"

def jtypeOf (s : String) : D JType :=
  match s with
  | "integer" => pure .integer
  | "number" => pure .number
  | "string" => pure .string
  | "boolean" => pure .boolean
  | "object" => pure .object
  | "array" => pure .array
  | "null" => pure .null
  | _ => ood s!"schema type {s}"

def jkindOf (s : String) : D JKind :=
  match s with
  | "null" => pure .null
  | "bool" => pure .bool
  | "int" => pure .int
  | "intFloat" => pure .intFloat
  | "float" => pure .float
  | "str" => pure .str
  | "arr" => pure .arr
  | "obj" => pure .obj
  | _ => ood s!"json kind {s}"

/-- `typed`: [[declared type, kind], …] computed by the harness from the schema file and the raw document -/
def decTyped (a : Json) : D (List (JType × JKind)) := do
  match a.getObjVal? "typed" with
  | .error _ => pure []
  | .ok v =>
    let l ← v.getArr?
    l.toList.mapM (fun p => do
      let t ← p.getArrVal? 0
      let k ← p.getArrVal? 1
      let ts ← t.getStr?
      let ks ← k.getStr?
      pure (← jtypeOf ts, ← jkindOf ks))

def emptySpec (v : Option Int) (typed : List (JType × JKind)) : Spec :=
  { version := v, description := none, metaData := [], indices := [], dataStreams := [], corpora := [],
    operations := [], parameters := [], schedule := none, challenge := none, challenges := none,
    dependencies := [], typed := typed }

def decSpec (j : Json) (typed : List (JType × JKind)) : D Spec := do
  let _ ← kvs j
  let challenge ← (match field j "challenge" with
    | none => pure none
    | some c => do
      let x ← decChallenge c
      pure (some x))
  let challenges ← (match ← fArr j "challenges" with
    | none => pure none
    | some l => do
      let cs ← l.mapM decChallenge
      pure (some cs))
  let deps ← (match ← fArr j "dependencies" with
    | none => pure []
    | some l => strList l)
  pure { typed := typed, version := ← versionOf j, description := ← fStr j "description", metaData := ← fObj j "meta",
         indices := ← listOf j "indices" decIndex,
         dataStreams := ← listOf j "data-streams" (fun d => do let _ ← kvs d; fStr d "name"),
         corpora := ← listOf j "corpora" decCorpus, operations := ← listOf j "operations" decOp,
         parameters := ← fObj j "parameters", schedule := ← decSchedule j "schedule",
         challenge := challenge, challenges := challenges, dependencies := deps }

/-! ### encoding a loaded track -/

def jText (s : Str) : Json :=
  match Json.parse (String.ofList s) with
  | .ok v => v
  | .error _ => Json.str (String.ofList s)

def encObj (o : Obj) : Json := Json.mkObj (o.map (fun kv => (String.ofList kv.1, jText kv.2)))
def optBool : Option Bool → Json
  | none => Json.null
  | some b => Json.bool b
def strs (l : List Str) : Json := arr (l.map str)

def encOp (o : Operation) : Json :=
  Json.mkObj [("name", str o.name), ("type", str o.type), ("meta", encObj o.metaData),
    ("param_source", optStr o.paramSource), ("include_in_reporting", optBool o.includeInReporting),
    ("params", encObj o.params)]

def encTask (t : Task) : Json :=
  Json.mkObj [("name", str t.name), ("operation", encOp t.operation), ("tags", strs t.tags), ("meta", encObj t.metaData),
    ("warmup_iterations", optNat t.warmupIterations), ("iterations", optNat t.iterations),
    ("warmup_time_period", optNat t.warmupTimePeriod), ("time_period", optNat t.timePeriod),
    ("ramp_up_time_period", optNat t.rampUpTimePeriod), ("clients", toJson t.clients),
    ("completes_parent", Json.bool t.completesParent), ("any_completes_parent", Json.bool t.anyCompletesParent),
    ("schedule", optStr t.schedule), ("params", encObj t.params)]

def encElem (e : Elem) : Json :=
  match e with
  | .task t => Json.mkObj [("task", encTask t)]
  | .parallel ts c => Json.mkObj [("parallel", Json.mkObj [("clients", toJson (Elem.parallel ts c).clients),
                                                           ("tasks", arr (ts.map encTask))])]

def encChallenge (c : Challenge) : Json :=
  Json.mkObj [("name", str c.name), ("description", optStr c.description), ("user_info", optStr c.userInfo),
    ("parameters", encObj c.parameters), ("meta", encObj c.metaData), ("default", Json.bool c.default),
    ("selected", Json.bool c.selected), ("auto_generated", Json.bool c.autoGenerated),
    ("schedule", arr (c.schedule.map encElem))]

def encDocs (d : Documents) : Json :=
  Json.mkObj [("source_format", str d.sourceFormat), ("document_file", str d.documentFile),
    ("document_archive", optStr d.documentArchive), ("base_url", optStr d.baseUrl),
    ("includes_action_and_meta_data", Json.bool d.includesActionAndMetaData),
    ("number_of_documents", toJson d.numberOfDocuments), ("compressed_size_in_bytes", optNat d.compressedBytes),
    ("uncompressed_size_in_bytes", optNat d.uncompressedBytes), ("target_index", optStr d.targetIndex),
    ("target_type", optStr d.targetType), ("target_data_stream", optStr d.targetDataStream), ("meta", encObj d.metaData)]

def encCorpus (c : Corpus) : Json :=
  Json.mkObj [("name", str c.name), ("meta", encObj c.metaData), ("documents", arr (c.documents.map encDocs))]

def encIndex (i : Index) : Json :=
  Json.mkObj [("name", str i.name), ("types", strs i.types),
    ("body", match i.body with | none => Json.mkObj [] | some b => jText b)]  -- Index.__init__: body=None → {}

def encTrack (t : Track) : Json :=
  Json.mkObj [("description", str t.description), ("meta", encObj t.metaData),
    ("indices", arr (t.indices.map encIndex)), ("data_streams", strs t.dataStreams),
    ("corpora", arr (t.corpora.map encCorpus)), ("challenges", arr (t.challenges.map encChallenge)),
    ("dependencies", strs t.dependencies)]

def ruleName (r : Rule) : String := (reprStr r).replace "TrackSpec.Rule." ""
def schemaRuleName (r : SchemaRule) : String := (reprStr r).replace "TrackSpec.SchemaRule." ""

def errJson (e : Err) : Json :=
  match e with
  | .version => err "RallyError" ["version"]
  | .schema r => err "TrackSyntaxError" ["schema:" ++ schemaRuleName r]
  | .syntax r => err "TrackSyntaxError" [ruleName r]
  | .reservedParams => err "TrackConfigError" ["reservedParams"]
  | .unusedParams => err "TrackConfigError" ["unusedParams"]

def handle (op : String) (a : Json) : Except String Json := do
  match op with
  | "load" =>
    let typed ← decTyped a
    let sj ← a.getObjVal? "spec"
    -- a document that violates a declared type cannot be viewed as a typed `Spec`: only the version and the
    -- (type, kind) pairs matter for the outcome (`load_rejects_schema_type`)
    let spec ← (if typed.any (fun p => !typeOk p.1 p.2) then do
        let v ← versionOf sj
        pure (emptySpec v typed)
      else decSpec sj typed)
    let sel ← getOptStr a "sel"
    let user ← getStrList a "user"
    let used ← getStrList a "used"
    match load RallyGen.OpTypes.table sel user used spec with
    | .ok t => return ok (encTrack t) ["ok"]
    | .error e => return errJson e
  | "denote" =>
    let spec ← decSpec (← a.getObjVal? "spec") []
    let sel ← getOptStr a "sel"
    return ok (encTrack (denote RallyGen.OpTypes.table sel spec))
  | "from_hyphenated" =>
    let s ← getStr a "s"
    match fromHyphenated RallyGen.OpTypes.table s with
    | some r => return ok (arr [str r.member, Json.bool r.admin])
    | none => return err "KeyError"
  | "to_hyphenated" =>
    let s ← getStr a "s"
    return ok (str (toHyphenated s))
  | "splitext" =>
    let s ← getStr a "s"
    if s.contains '/' then throw "out-of-domain" else
    return ok (arr [str (splitext s).1, str (splitext s).2, Json.bool (isArchive s)])
  | _ => throw s!"unknown op {op}"

end Drivers.TrackSpec
