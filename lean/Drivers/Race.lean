import RallyModel.Race
import RallyModel.RaceOfAlloc
import Drivers.Util
import Drivers.Alloc
open Lean DUtil

namespace Drivers.Race
open _root_.Race

inductive Col
  | join (id : Nat) (completing : List Nat) (anyC : List Nat)
  | tasks (ts : List TaskA)
  | empty

def parseTask (j : Json) : Except String TaskA := do
  return ⟨← getNat j "client", ← getNat j "tid", ← getBool j "finite", ← getBool j "cp", ← getBool j "acp"⟩

def natList (j : Json) (k : String) : Except String (List Nat) := do
  let a ← j.getObjValAs? (Array Nat) k
  return a.toList

def parseCol (j : Json) : Except String Col := do
  match j with
  | Json.null => return .empty
  | _ =>
    match j.getObjVal? "join" with
    | .ok v => return .join (← v.getNat?) (← natList j "completing") (← natList j "any")
    | .error _ =>
      let ts ← (← getArr j "tasks").mapM parseTask
      return .tasks ts

def getAt {α : Type} (l : List α) (d : α) (i : Nat) : α := (l[i]?).getD d

/-- group a worker's flat column list (as `ClientAllocations` holds it) by schedule element -/
def groupCols (cols : List Col) : List (List (List TaskA)) × List (Nat × JoinInfo) :=
  let r := cols.foldl (fun (acc : List (List (List TaskA)) × List (List TaskA) × List (Nat × JoinInfo) × Bool) c =>
    let (els, cur, js, seenFirst) := acc
    match c with
    | .join id comp anyc =>
      if seenFirst then (els ++ [cur], [], js ++ [(id, ⟨comp, anyc⟩)], true) else (els, [], js ++ [(id, ⟨comp, anyc⟩)], true)
    | .tasks ts => (els, cur ++ [ts], js, seenFirst)
    | .empty => (els, cur, js, seenFirst)) ([], [], [], false)
  (r.1, r.2.2.1)

def parseCfg (j : Json) : Except String Cfg := do
  let W ← getNat j "W"
  let S ← getNat j "S"
  let cols ← (← getArr j "cols").mapM fun r => do
    let a ← r.getArr?
    a.toList.mapM parseCol
  let wo ← natList j "workerOf"
  let co ← (← getArr j "clientsOf").mapM fun r => do
    let a ← (fromJson? r : Except String (Array Nat))
    return a.toList
  let grouped := cols.map groupCols
  let els := grouped.map (·.1)
  let js := (grouped.head?.map (·.2)).getD []
  -- the join ids must be 0,1,2,… on every worker (C02: join points aligned)
  for g in grouped do
    if g.2.map (·.1) != List.range (S + 1) then throw "join ids are not 0..S on some worker"
    if g.1.length != S then throw "number of elements differs from S"
  return { W := W, S := S, elems := fun w e => getAt (getAt els [] w) [] e,
           joins := fun k => (getAt (js.map (·.2)) ⟨[], []⟩ k), workerOf := getAt wo 0, clientsOf := getAt co [] }

def parseEvent (j : Json) : Except String Event := do
  let e ← j.getObjValAs? String "e"
  let w ← getNat j "w"
  match e with
  | "deliverDW" => return .deliverDW w
  | "deliverWD" => return .deliverWD w
  | "wakeW" => return .wakeW w
  | "taskDone" => return .taskDone w (← getNat j "i")
  | "execFinish" => return .execFinish w
  | _ => throw s!"unknown event {e}"

def msgDW : MsgDW → String
  | .startWorker => "StartWorker" | .drive => "Drive" | .cct => "CompleteCurrentTask"

def msgDR : MsgDR → String
  | .taskFinished => "TaskFinished" | .benchComplete => "BenchmarkComplete"

/-- canonical observable outputs of one step: what the handler sent / armed / submitted -/
def outputs (cfg : Cfg) (s s' : State) (ev : Event) : Json :=
  let dwOld (w : Nat) : Nat := match ev with
    | .deliverDW v => if v = w then (s.d2w w).length - 1 else (s.d2w w).length
    | _ => (s.d2w w).length
  let toW := (List.range cfg.W).flatMap fun w => ((s'.d2w w).drop (dwOld w)).map fun m => arr [toJson w, Json.str (msgDW m)]
  let wdOld (w : Nat) : Nat := match ev with
    | .deliverWD v => if v = w then (s.w2d w).length - 1 else (s.w2d w).length
    | _ => (s.w2d w).length
  let toD := (List.range cfg.W).flatMap fun w => ((s'.w2d w).drop (wdOld w)).map fun m =>
    match m with | .jpr c => arr [toJson w, toJson c]
  let toR := (s'.d2r.drop s.d2r.length).map fun m => Json.str (msgDR m)
  let armed := (List.range cfg.W).foldl (fun acc w =>
    let before := match ev with
      | .wakeW v => if v = w then (s.ws w).wake - 1 else (s.ws w).wake
      | _ => (s.ws w).wake
    acc + ((s'.ws w).wake - before)) 0
  let sub := (s'.entered.drop s.entered.length).flatMap fun (w, e, c) =>
    (getAt (cfg.elems w e) [] c).map fun t => arr [toJson t.client, toJson t.tid]
  Json.mkObj [("toW", arr toW), ("toD", arr toD), ("toR", arr toR), ("armed", toJson armed), ("submitted", arr sub)]

def isParked (s : State) (w : Nat) : Bool := parked (s.ws w)

def tagsOf (cfg : Cfg) (s s' : State) (ev : Event) : List String :=
  match ev with
  | .deliverDW w =>
    match s.d2w w with
    | .cct :: _ =>
      if isParked s w then
        (if (s.ws w).startDriving then ["cct-while-armed"] else ["cct-ignored-at-join"])
      else ["cct-honoured"]
    | .drive :: _ => ["drive"]
    | .startWorker :: _ => ["start-worker"]
    | [] => []
  | .wakeW w =>
    if (s.ws w).startDriving then
      (if (s.ws w).complete then ["wake-drive-complete-set"] else ["wake-drive"]) ++
      (if isParked s' w then ["element-without-own-tasks-or-skipped"] else [])
    else match (s.ws w).exec with
      | .finished => ["wake-next"] ++
          (match (s.ws w).pos with
           | .inCol e c => if (s.ws w).complete && ((cfg.elems w e)[c + 1]?).isSome then ["skip-branch"] else []
           | _ => [])
      | .running _ => ["wake-idle"]
      | .none => ["wake-no-executor"]
  | .taskDone w i =>
    match (s.ws w).exec with
    | .running ts => match ts[i]? with
      | some (t, _) => (if t.cp then ["done-cp"] else if t.acp then ["done-acp"] else ["done"]) ++
          (if !t.finite then ["eternal-ended"] else []) ++ (if (s.ws w).complete && !t.cp then ["ended-by-complete"] else [])
      | none => []
    | _ => []
  | .execFinish _ => ["exec-finish"]
  | .deliverWD _ =>
    (if s'.d.stepP1 > s.d.stepP1 then ["barrier-open"] else ["barrier-wait"]) ++
    (if s'.d.cctSent && !s.d.cctSent then ["cct-broadcast"] else [])

def handle (op : String) (a : Json) : Except String Json := do
  match op with
  | "replay" =>
    let cfg ← parseCfg (← a.getObjVal? "cfg")
    let evs ← getArr a "events"
    let mut s := init cfg
    let mut n := 0
    let mut tags : List String := []
    for ej in evs do
      let ev ← parseEvent ej
      match step cfg s ev with
      | none =>
        return Json.mkObj [("diff", Json.mkObj [("at", toJson n), ("why", Json.str "event not enabled in the model"), ("event", ej)]),
          ("tags", arr (tags.eraseDups.map Json.str))]
      | some s' =>
        let o := outputs cfg s s' ev
        tags := tagsOf cfg s s' ev ++ tags
        match ej.getObjVal? "out" with
        | .ok obs =>
          if obs != o then
            return Json.mkObj [("diff", Json.mkObj [("at", toJson n), ("why", Json.str "outputs differ"), ("event", ej), ("model", o), ("impl", obs)]),
              ("tags", arr (tags.eraseDups.map Json.str))]
        | .error _ => pure ()
        s := s'
        n := n + 1
    let quiescent := (List.range cfg.W).all fun w => (s.d2w w).isEmpty && (s.w2d w).isEmpty && (s.ws w).wake = 0
    return ok (Json.mkObj [("events", toJson n), ("stepP1", toJson s.d.stepP1),
      ("d2r", arr (s.d2r.map fun m => Json.str (msgDR m))),
      ("entered", toJson s.entered.length),
      ("quiescent", toJson quiescent)]) tags.eraseDups
  | "cfgof" =>
    -- the race configuration derived from the allocator model (RaceOfAlloc.cfgOf), in the canonical form the harness
    -- also brings the real ClientAllocations into
    let sched ← (← getArr a "schedule").mapM Drivers.Alloc.parseElement
    let hosts ← (← getArr a "hosts").mapM fun h => do
      return (⟨← getNat h "name", ← getNat h "cores"⟩ : _root_.Alloc.Host)
    let fin ← natList a "finite"          -- ids of the tasks that end by themselves
    let m := _root_.Alloc.maxClients sched
    let workers := RaceOfAlloc.workersOf hosts m
    let cfg := RaceOfAlloc.cfgOf (fun tid => fin.contains tid) sched workers
    let taskJ (t : TaskA) : Json := Json.mkObj [("client", toJson t.client), ("tid", toJson t.tid), ("finite", toJson t.finite),
      ("cp", toJson t.cp), ("acp", toJson t.acp)]
    return ok (Json.mkObj [
      ("W", toJson cfg.W), ("S", toJson cfg.S),
      ("elems", arr ((List.range cfg.W).map fun w => arr ((List.range cfg.S).map fun e =>
        arr ((cfg.elems w e).map fun col => arr (col.map taskJ))))),
      ("joins", arr ((List.range (cfg.S + 1)).map fun j =>
        arr [arr ((cfg.joins j).completing.map toJson), arr ((cfg.joins j).anyC.map toJson)])),
      ("workerOf", arr ((List.range m).map fun c => toJson (cfg.workerOf c))),
      ("clientsOf", arr ((List.range cfg.W).map fun w => arr ((cfg.clientsOf w).map toJson)))]) []
  | _ => throw s!"unknown op {op}"

end Drivers.Race
