import RallyModel.TrackTemplate
import Drivers.Util
open Lean DUtil

/-! Line-protocol handler for the template layer of C10 (model key `tracktemplate`). -/
namespace Drivers.TrackTemplate
open _root_.TrackTemplate

abbrev D := Except String

def decPiece (j : Json) : D Piece := do
  let k ← (← j.getArrVal? 0).getStr?
  let v ← (← j.getArrVal? 1).getStr?
  match k with
  | "t" => pure (Piece.text v.toList)
  | "c" =>
    -- domain of the glob model: literal directory components, `*` as the only wildcard of the file component
    let comps := splitSlash v.toList
    let dirs := comps.dropLast
    let bad (c : Str) : Bool := c.isEmpty || c == ".".toList || c == "..".toList
    if comps.any bad || dirs.any (fun c => c.any (fun ch => ch == '*' || ch == '?' || ch == '['))
        || (fileGlobOf v.toList).any (fun ch => ch == '?' || ch == '[') then
      throw s!"out-of-domain: pattern {v}"
    else pure (Piece.collect v.toList)
  | _ => throw "bad piece"

def decFragment (j : Json) : D Fragment := do
  let a ← j.getArr?
  a.toList.mapM decPiece

def decFile (j : Json) : D File := do
  let dir ← getStrList j "dir"
  let name ← getStr j "name"
  let content ← decFragment (← j.getObjVal? "pieces")
  pure { dir := dir, name := name, content := content }

def decVars (a : Json) (k : String) : D Vars := do
  let l ← getArr a k
  l.mapM (fun p => do
    let x ← (← p.getArrVal? 0).getStr?
    let y ← (← p.getArrVal? 1).getStr?
    pure (x.toList, y.toList))

def decScope (s : String) : D Scope :=
  match s with
  | "main" => pure .main
  | "included" => pure .included
  | "importedWithContext" => pure .importedWithContext
  | "importedPlain" => pure .importedPlain
  | "collectedWithContext" => pure .collectedWithContext
  | "collectedPlain" => pure .collectedPlain
  | "body" => pure .body
  | _ => throw s!"unknown scope {s}"

def strsOf (j : Json) : D (List Str) := do
  let a ← j.getArr?
  a.toList.mapM (fun x => do
    let s ← x.getStr?
    pure s.toList)

partial def decStmt (j : Json) : D Stmt := do
  let k ← (← j.getArrVal? 0).getStr?
  let name ← (← j.getArrVal? 1).getStr?
  match k with
  | "read" => pure (Stmt.read name.toList)
  | "import" => pure (Stmt.importAs name.toList)
  | "set" => pure (Stmt.set name.toList (← strsOf (← j.getArrVal? 2)))
  | "for" | "macro" | "with" =>
    let l ← strsOf (← j.getArrVal? 2)
    let body ← (← (← j.getArrVal? 3).getArr?).toList.mapM decStmt
    pure (if k == "for" then Stmt.forLoop name.toList l body
          else if k == "macro" then Stmt.macro name.toList l body
          else Stmt.withBlock name.toList l body)
  | _ => throw s!"unknown statement {k}"

def decStmts (j : Json) : D (List Stmt) := do
  (← j.getArr?).toList.mapM decStmt

def handle (op : String) (a : Json) : Except String Json := do
  match op with
  | "assemble" | "expand" =>
    let files ← (← getArr a "files").mapM decFile
    let main ← decFragment (← a.getObjVal? "main")
    let fuel ← getNat a "fuel"
    let r := if op == "assemble" then assemble files fuel main else expand files fuel [] main
    match r with
    | some s => return ok (str s)
    | none => return err "RecursionTooDeep"
  | "render_ref" =>
    let user ← decVars a "user"
    let internal ← decVars a "internal"
    let builtins ← decVars a "builtins"
    let sc ← decScope (← a.getObjValAs? String "scope")
    let n ← getStr a "n"
    let d ← getStr a "d"
    return ok (str (renderRef user internal builtins sc n d)) [if (lookupVar internal n).isSome then "internal" else if (lookupVar user n).isSome then "user" else "default"]
  | "registered" =>
    let tpl ← decStmts (← a.getObjVal? "template")
    let g ← getStrList a "env_globals"
    return ok (arr ((registeredParams g tpl).map str))
  | "unused" =>
    let ts ← (← getArr a "templates").mapM decStmts
    let g ← getStrList a "env_globals"
    let user ← getStrList a "user"
    return ok (arr ((unusedParams g ts user).map str)) [if (unusedParams g ts user).isEmpty then "all-read" else "some-unused"]
  | _ => throw s!"unknown op {op}"

end Drivers.TrackTemplate
