import RallyModel.TrackFilter
import Drivers.Util
open Lean DUtil

namespace Drivers.TrackFilter
open _root_.TrackFilter

def parseTask (j : Json) : Except String Task := do
  return ⟨← getNat j "id", ← getStr j "name", ← getStr j "type", ← getStrList j "tags"⟩

def parseElem (j : Json) : Except String Elem := do
  match j.getObjVal? "par" with
  | .ok v =>
    let ts ← (← v.getArr?).toList.mapM parseTask
    return .par ts (← getNat j "payload")
  | .error _ => return .leaf (← parseTask (← j.getObjVal? "leaf"))

def elemJson : Elem → Json
  | .leaf t => Json.mkObj [("leaf", toJson t.id)]
  | .par ts p => Json.mkObj [("par", arr (ts.map fun t => toJson t.id)), ("payload", toJson p)]

def parseOpRef (j : Json) : Except String OpRef := do
  match j.getObjVal? "plain" with
  | .ok (Json.str s) => return .plain s.toList
  | _ => return .inline (← getOptStr j "name") (← getStr j "type")

def parseTagsSpec (j : Json) : Except String TagsSpec :=
  match j.getObjVal? "tags" with
  | .ok (Json.str s) => .ok (.one s.toList)
  | .ok (Json.arr a) => do
    let l ← a.toList.mapM (fun x => x.getStr?)
    return .many (l.map String.toList)
  | _ => .ok .absent

def parseTaskSpec (j : Json) : Except String TaskSpec := do
  return ⟨← getNat j "id", ← getOptStr j "name", ← parseOpRef (← j.getObjVal? "op"), ← parseTagsSpec j⟩

def parseElemSpec (j : Json) : Except String ElemSpec := do
  match j.getObjVal? "par" with
  | .ok v =>
    let ts ← (← v.getArr?).toList.mapM parseTaskSpec
    return .par ts (← getNat j "payload")
  | .error _ => return .leaf (← parseTaskSpec (← j.getObjVal? "leaf"))

def taskJson (t : Task) : Json := arr [toJson t.id, str t.name, str t.opType]

def handle (op : String) (a : Json) : Except String Json := do
  match op with
  | "filter" =>
    let sched ← (← getArr a "schedule").mapM parseElem
    let exclude ← getBool a "exclude"
    let specs ← getStrList a "filters"
    match parseFilters specs with
    | .error _ => return err "SystemSetupError" ["bad-filter"]
    | .ok fs =>
      let out := applyFilters exclude fs sched
      let pinned := applyFiltersPinned exclude fs sched
      let tags := [if exclude then "exclude" else "include",
        if fs.isEmpty then "no-filters" else "filters",
        if pinned.any (fun e => match e with | .par [] _ => true | _ => false) then "emptied-parallel" else "no-emptied-parallel",
        if out.length < sched.length then "removed-elements" else "kept-all-elements",
        if (leaves out).length < (leaves sched).length then "removed-leaves" else "kept-all-leaves"]
      return ok (arr (out.map elemJson)) tags
  | "read_filter" =>
    -- a raw specification (operations block + challenges) read and filtered: reader model + filter model
    let block ← (← getArr a "operations").mapM parseOpRef
    let chs ← (← getArr a "challenges").mapM (fun c => do (← c.getArr?).toList.mapM parseElemSpec)
    let exclude ← getBool a "exclude"
    let specs ← getStrList a "filters"
    match readTrack block chs with
    | .error _ => return err "TrackSyntaxError" ["unreadable-specification"]
    | .ok read =>
      match parseFilters specs with
      | .error _ => return err "SystemSetupError" ["bad-filter"]
      | .ok fs =>
        let out := match readAndFilter block chs exclude fs with
          | .ok o => o
          | .error _ => []
        let ops := match parseOperations block with
          | .ok o => o
          | .error _ => []
        let allSpecs := chs.flatMap specLeaves
        let plainRefs := allSpecs.filterMap (fun s => match s.op with | .plain n => some n | _ => none)
        let inlineNames := allSpecs.filterMap (fun s => match s.op with | .inline n ty => some (n.getD ty, ty) | _ => none)
        let tags := [if exclude then "exclude" else "include",
          if fs.isEmpty then "no-filters" else "filters",
          if fs.any (fun f => match f with | .opType _ => true | _ => false) then "type-filter" else "no-type-filter",
          if plainRefs.any (fun n => (lookupOp ops n).isSome) then "ref-to-block" else "no-ref-to-block",
          if plainRefs.any (fun n => (lookupOp ops n).isNone) then "ref-to-builtin" else "no-ref-to-builtin",
          if inlineNames.any (fun (n, ty) => n != ty && plainRefs.contains n) then "inline-named-like-a-reference" else "no-inline-name-clash",
          if (out.map (fun s => (leaves s).length)).sum < (read.map (fun s => (leaves s).length)).sum then "removed-leaves" else "kept-all-leaves"]
        return Json.mkObj [("r", arr (out.map fun s => arr (s.map elemJson))),
          ("read", arr (read.map fun s => arr ((leaves s).map taskJson))),
          ("tags", arr (tags.map Json.str))]
  | _ => throw s!"unknown op {op}"

end Drivers.TrackFilter
