import RallyModel.TrackFilter
import Drivers.Util
open Lean DUtil

namespace Drivers.TrackFilter
open _root_.TrackFilter

def parseTask (j : Json) : Except String Task := do
  return ⟨← getNat j "id", ← getStr j "name", ← getStr j "type", ← getStrList j "tags"⟩

def parseElem (j : Json) : Except String Elem := do
  match j.getObjVal? "par" with
  | .ok v =>
    let ts ← (← v.getArr?).toList.mapM parseTask
    return .par ts (← getNat j "payload")
  | .error _ => return .leaf (← parseTask (← j.getObjVal? "leaf"))

def elemJson : Elem → Json
  | .leaf t => Json.mkObj [("leaf", toJson t.id)]
  | .par ts p => Json.mkObj [("par", arr (ts.map fun t => toJson t.id)), ("payload", toJson p)]

def handle (op : String) (a : Json) : Except String Json := do
  match op with
  | "filter" =>
    let sched ← (← getArr a "schedule").mapM parseElem
    let exclude ← getBool a "exclude"
    let specs ← getStrList a "filters"
    match parseFilters specs with
    | .error _ => return err "SystemSetupError" ["bad-filter"]
    | .ok fs =>
      let out := applyFilters exclude fs sched
      let pinned := applyFiltersPinned exclude fs sched
      let tags := [if exclude then "exclude" else "include",
        if fs.isEmpty then "no-filters" else "filters",
        if pinned.any (fun e => match e with | .par [] _ => true | _ => false) then "emptied-parallel" else "no-emptied-parallel",
        if out.length < sched.length then "removed-elements" else "kept-all-elements",
        if (leaves out).length < (leaves sched).length then "removed-leaves" else "kept-all-leaves"]
      return ok (arr (out.map elemJson)) tags
  | _ => throw s!"unknown op {op}"

end Drivers.TrackFilter
