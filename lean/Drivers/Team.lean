import RallyModel.Team
import Drivers.Util
open Lean DUtil

namespace Drivers.Team
open _root_.Team

/-! wire format
  val      : "text" | ["a","b"] | 12 | true | null | {} / {"plugin.mandatory": [...]} (output only)
  vars     : [[key, val], ...]                      (ordered)
  seg      : "text" | {"v": name, "p": pad}
  file     : {"name": n, "tmpl": [seg...]} | {"name": n, "blob": [byte...]}
  walk     : [{"rel": [comp...], "files": [file...]}, ...]
  team     : {"cars": [[name, {"base": str|null, "vars": vars}]...],
              "bases": [[name, {"vars": vars, "hook": bool, "walk": walk}]...]}
  fs       : {"files": [[[comp...], [byte...]]...], "dirs": [[comp...]...]}
  node     : {"node_name","cluster_name","node_root","all_ips","all_names","ip","http_port","dist_name"}
-/

def safeChar (c : Char) : Bool := c.toNat ≥ 32 && c.toNat < 127 && c != '\'' && c != '\\'

def parseVal (j : Json) : Except String Val :=
  match j with
  | .str s => .ok (.str s.toList)
  | .null => .ok .null
  | .bool b => .ok (.bool b)
  | .arr a => do
    let l ← a.toList.mapM (fun x => match x with
      | .str s => if s.toList.all safeChar then Except.ok s.toList else .error "out-of-domain: list item needs repr escaping"
      | _ => .error "out-of-domain: list of non-strings")
    return .strs l
  | .num _ => match j.getInt? with
    | .ok i => .ok (.int i)
    | .error _ => .error "out-of-domain: non-integer number"
  | .obj _ =>
    match j.getObjVal? "plugin.mandatory" with
    | .ok (.arr a) => do
      let l ← a.toList.mapM (fun x => match x with
        | .str s => Except.ok s.toList
        | _ => .error "out-of-domain: plugin.mandatory item")
      return .settings l
    | _ => if j == Json.mkObj [] then .ok (.settings []) else .error "out-of-domain: object value"

def parseVars (j : Json) : Except String Vars := do
  let a ← j.getArr?
  a.toList.mapM (fun kv => do
    let k ← (← kv.getArrVal? 0).getStr?
    let v ← parseVal (← kv.getArrVal? 1)
    return (k.toList, v))

def getVars (j : Json) (k : String) : Except String Vars := do parseVars (← j.getObjVal? k)

def identChar (c : Char) : Bool := c.isAlphanum || c == '_'

def parseSeg (j : Json) : Except String Seg :=
  match j with
  | .str s =>
    if s.toList.any (fun c => c == '{' || c == '\r') then .error "out-of-domain: template text with '{' or CR"
    else .ok (.text s.toList)
  | _ => do
    let n ← j.getObjValAs? String "v"
    let p ← j.getObjValAs? Nat "p"
    if n.isEmpty || !(n.toList.all identChar) || (n.toList.head?.map Char.isDigit).getD true then
      throw "out-of-domain: template variable is not an identifier"
    return .var n.toList p

def parseBytes (j : Json) : Except String Bytes := do
  let a ← j.getArr?
  a.toList.mapM (fun x => do
    let n ← x.getNat?
    if n ≥ 256 then throw "byte out of range"
    return n.toUInt8)

def parseFile (j : Json) : Except String SrcFile := do
  let name ← getStr j "name"
  match j.getObjVal? "tmpl" with
  | .ok t => do
    let segs ← (← t.getArr?).toList.mapM parseSeg
    return ⟨name, .tmpl segs⟩
  | .error _ => do
    let bs ← parseBytes (← j.getObjVal? "blob")
    if plainText name then throw "out-of-domain: plain-text file name with binary body"
    return ⟨name, .blob bs⟩

def parsePath (j : Json) : Except String Path := do
  let a ← j.getArr?
  a.toList.mapM (fun x => do return (← x.getStr?).toList)

def parseWalk (j : Json) : Except String (List WalkDir) := do
  let a ← j.getArr?
  a.toList.mapM (fun wd => do
    let rel ← parsePath (← wd.getObjVal? "rel")
    let files ← (← getArr wd "files").mapM parseFile
    return ⟨rel, files⟩)

def parseTeam (j : Json) : Except String TeamDir := do
  let cars ← (← getArr j "cars").mapM (fun c => do
    let n ← (← c.getArrVal? 0).getStr?
    let o ← c.getArrVal? 1
    let base ← getOptStr o "base"
    let vars ← getVars o "vars"
    return (n.toList, (⟨base, vars⟩ : CarIni)))
  let bases ← (← getArr j "bases").mapM (fun c => do
    let n ← (← c.getArrVal? 0).getStr?
    let o ← c.getArrVal? 1
    let vars ← getVars o "vars"
    let hook ← getBool o "hook"
    let walk ← parseWalk (← o.getObjVal? "walk")
    return (n.toList, (⟨vars, hook, walk⟩ : Base)))
  return ⟨cars, bases⟩

def parseFS (j : Json) : Except String FS := do
  let files ← (← getArr j "files").mapM (fun e => do
    let p ← parsePath (← e.getArrVal? 0)
    let b ← parseBytes (← e.getArrVal? 1)
    return (p, b))
  let dirs ← (← getArr j "dirs").mapM parsePath
  return ⟨files, dirs⟩

def parseNode (j : Json) : Except String Node := do
  return ⟨← getStr j "node_name", ← getStr j "cluster_name", ← getStr j "node_root", ← getStrList j "all_ips",
    ← getStrList j "all_names", ← getStr j "ip", ← getNat j "http_port", ← getStr j "dist_name"⟩

def valJson : Val → Json
  | .str s => str s
  | .strs l => arr (l.map str)
  | .int n => toJson n
  | .bool b => Json.bool b
  | .null => Json.null
  | .settings [] => Json.mkObj []
  | .settings l => Json.mkObj [("plugin.mandatory", arr (l.map str))]

def varsJson (d : Vars) : Json := arr (d.map (fun kv => arr [str kv.1, valJson kv.2]))
def pathJson (p : Path) : Json := arr (p.map str)
def bytesJson (b : Bytes) : Json := arr (b.map (fun x => toJson x.toNat))
def fsJson (fs : FS) : Json :=
  Json.mkObj [("files", arr (fs.files.map (fun e => arr [pathJson e.1, bytesJson e.2]))), ("dirs", arr (fs.dirs.map pathJson))]

def errName : Err → String
  | .unknownCar => "SystemSetupError:unknown-car"
  | .noConfigBase => "SystemSetupError:no-config-base"
  | .dataPathsType => "SystemSetupError:data-paths-type"
  | .noBundledConfig => "OSError:no-bundled-config"
  | .missingVar => "SystemSetupError:missing-var"
  | .notABool => "ValueError:not-a-bool"

def carJson (c : Car) : Json :=
  Json.mkObj [("names", arr (c.names.map str)), ("root_paths", arr (c.rootPaths.map str)),
    ("config_paths", arr (c.configPaths.map str)), ("vars", varsJson c.vars)]

def kindOfStr : String → Except String Kind
  | "dir" => .ok .dir
  | "file" => .ok .file
  | "link" => .ok .link
  | s => .error s!"bad kind {s}"

def kindStr : Kind → String
  | .dir => "dir"
  | .file => "file"
  | .link => "link"

def inisOf (t : TeamDir) (names : List Str) : List CarIni := names.filterMap (findCar t)

def carTags (t : TeamDir) (names : List Str) (params : Vars) (c : Car) : List String :=
  let all := (inisOf t names).flatMap basesOf
  [ if names.length > 1 then "multi-car" else "single-car",
    if all.length > c.configPaths.length then "dup-base" else "no-dup-base",
    if all.any (fun b => (assoc t.bases b).isNone) then "missing-base" else "bases-exist",
    if params.isEmpty then "no-params" else "params",
    if (inisOf t names).any (fun i => params.any (fun kv => (dget i.vars kv.1).isSome)) then "param-overrides-car" else "param-fresh",
    if c.rootPaths.isEmpty then "no-hook" else "hook" ]

def handle (op : String) (a : Json) : Except String Json := do
  match op with
  | "load_car" =>
    let t ← parseTeam (← a.getObjVal? "team")
    let names ← getStrList a "names"
    let params ← getVars a "params"
    match loadCar t names params with
    | .ok c => return ok (carJson c) (carTags t names params c)
    | .error e => return err (errName e) [errName e]
  | "prepare" =>
    let t ← parseTeam (← a.getObjVal? "team")
    let names ← getStrList a "names"
    let params ← getVars a "params"
    let n ← parseNode (← a.getObjVal? "node")
    let dist ← parseFS (← a.getObjVal? "dist")
    match loadCar t names params with
    | .error e => return err (errName e) [errName e]
    | .ok c =>
      let p := prepare t c n dist
      let res := match p.result with
        | .ok nc => Json.mkObj [("ok", Json.mkObj [("runtime_jdk", valJson nc.runtimeJdk), ("bundled", Json.bool nc.bundledJdk),
            ("ip", str nc.ip), ("node_name", str nc.nodeName), ("node_root", str nc.nodeRoot), ("binary_path", str nc.binaryPath),
            ("data_paths", arr (nc.dataPaths.map str))])]
        | .error e => Json.mkObj [("err", Json.str (errName e))]
      let provided := (c.configPaths.map (fun b => (baseOf t b).walk))
      let ops := provided.flatMap walkOps'
      let multi := ops.any (fun o => (ops.filter (fun o' => o'.1 == o.1)).length > 1)
      let tags := carTags t names params c ++
        [ match p.result with | .ok _ => "prepared" | .error e => errName e,
          if multi then "overlap" else "no-overlap",
          if ops.any (fun o => plainText o.2.name) then "has-plain" else "no-plain",
          if ops.any (fun o => !plainText o.2.name) then "has-binary" else "no-binary",
          if ops.any (fun o => plainText o.2.name && (getF dist.files o.1).isSome && o.1.head? != some kConfig) then "append-to-dist-file" else "fresh-files",
          if (dget c.vars kDataPaths).isSome then "data-paths-from-car" else "data-paths-default" ]
      return ok (Json.mkObj [("car", carJson c), ("fs", fsJson p.fs), ("vars", varsJson p.vars), ("result", res)]) tags
  | "prov_vars" =>
    let cv ← getVars a "car_vars"
    let n ← parseNode (← a.getObjVal? "node")
    let plugins ← (← getArr a "plugins").mapM (fun p => do
      let name ← getStr p "name"
      if !(name.all safeChar) then throw "out-of-domain: plugin name needs repr escaping"
      return (⟨name, movedToModule name (← getBool p "core"), ← getVars p "vars"⟩ : Plugin))
    match dataPaths cv n.esHome with
    | .error e => return err (errName e) [errName e]
    | .ok dp =>
      let d := defaults n dp
      let shadow := plugins.any (fun p => p.vars.any (fun kv => (dget d kv.1).isSome))
      return ok (varsJson (provisionerVars (installerVars cv n dp) plugins))
        [if shadow then "plugin-shadows-internal" else "plugin-clean", if plugins.isEmpty then "no-plugins" else "plugins"]
  | "render" =>
    let vars ← getVars a "vars"
    let segs ← (← getArr a "tmpl").mapM parseSeg
    return ok (arr [str (segs.flatMap segSource), str (renderTemplate vars segs)])
  | "plain_text" =>
    let n ← getStr a "name"
    return ok (arr [Json.bool (plainText n), str (extOf n)]) [if plainText n then "plain" else "binary"]
  | "cleanup" =>
    let preserve ← getBool a "preserve"
    let inst ← parsePath (← a.getObjVal? "install")
    let dps ← (← getArr a "data_paths").mapM parsePath
    let l ← (← getArr a "listing").mapM (fun e => do
      let p ← parsePath (← e.getArrVal? 0)
      let k ← kindOfStr (← (← e.getArrVal? 1).getStr?)
      return (p, k))
    let r := cleanup preserve inst dps l
    let nondir := (inst :: dps).any (fun d => match kindOf l d with | some .dir => false | some _ => true | none => false)
    return ok (arr (r.map (fun e => arr [pathJson e.1, Json.str (kindStr e.2)])))
      [if preserve then "preserve" else "wipe", if nondir then "non-directory-root" else "directory-roots",
       if r.length < l.length then "removed" else "unchanged"]
  | _ => throw s!"unknown op {op}"
where
  walkOps' (walk : List WalkDir) : List (Path × SrcFile) :=
    walk.flatMap (fun wd => wd.files.map (fun f => (wd.rel ++ [f.name], f)))

end Drivers.Team
