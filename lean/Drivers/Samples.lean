import RallyModel.Samples
import Drivers.Util
open Lean DUtil

namespace Drivers.Samples
open _root_.Samples

def natArr (xs : List Nat) : Json := arr (xs.map fun n => toJson n)

def parseEvent (j : Json) : Except String Event := do
  let e ← j.getObjValAs? String "e"
  match e with
  | "request" => return .request (← getNat j "w") (← getNat j "sid")
  | "ship" => return .ship (← getNat j "w")
  | "deliverU" => return .deliverU (← getNat j "w")
  | "postprocess" => return .postprocess
  | "handover" => return .handover
  | "deliverR" => return .deliverR
  | _ => throw s!"unknown event {e}"

def eventJson : Event → Json
  | .request w sid => Json.mkObj [("e", "request"), ("w", toJson w), ("sid", toJson sid)]
  | .ship w => Json.mkObj [("e", "ship"), ("w", toJson w)]
  | .deliverU w => Json.mkObj [("e", "deliverU"), ("w", toJson w)]
  | .postprocess => Json.mkObj [("e", "postprocess")]
  | .handover => Json.mkObj [("e", "handover")]
  | .deliverR => Json.mkObj [("e", "deliverR")]

def parseInfo (j : Json) : Except String (Sid × Info) := do
  let deps ← (← getArr j "deps").mapM fun d => do
    match d with
    | .arr #[.str a, .str b] => pure (a, b)
    | _ => throw "dep: [operation, operation-type] expected"
  return (← getNat j "sid", ⟨← getNat j "client", ← j.getObjValAs? String "task", ← j.getObjValAs? String "op",
    ← j.getObjValAs? String "opType", ← j.getObjValAs? Bool "normal", deps⟩)

def metricName : Metric → String
  | .latency => "latency"
  | .serviceTime => "service_time"
  | .processingTime => "processing_time"

def recordJson (r : Record) : Json :=
  arr [Json.str (metricName r.name), toJson r.client, Json.str r.task, Json.str r.op, Json.str r.opType, toJson r.normal]

/-- observable effect of one event: the ids that moved -/
def effect (s s' : State) (ev : Event) : Json :=
  match ev with
  | .request _ sid => Json.mkObj [("accepted", toJson (decide (s'.accepted.length > s.accepted.length))), ("sid", toJson sid)]
  | .ship _ => Json.mkObj [("shipped", match (s'.w2d.drop s.w2d.length) with | [(_, q)] => natArr q | _ => Json.null)]
  | .deliverU _ => Json.mkObj [("received", natArr (s'.raw.drop s.raw.length))]
  | .postprocess => Json.mkObj [("stored", natArr (s'.dstore.drop s.dstore.length)), ("fed", natArr (s'.fed.drop s.fed.length))]
  | .handover => Json.mkObj [("handed", match (s'.d2r.drop s.d2r.length) with | [m] => natArr m | _ => Json.null)]
  | .deliverR => Json.mkObj [("added", natArr (s'.rstore.drop s.rstore.length))]

def handle (op : String) (a : Json) : Except String Json := do
  match op with
  | "replay" =>
    let cfg : Cfg := ⟨← getNat a "cap", ← getNat a "factor"⟩
    let evs ← getArr a "events"
    let mut s := init
    let mut n := 0
    let mut tags : List String := []
    for ej in evs do
      let ev ← parseEvent ej
      match step cfg s ev with
      | none => return Json.mkObj [("diff", Json.mkObj [("at", toJson n), ("why", Json.str "event not enabled in the model"), ("event", ej)])]
      | some s' =>
        let eff := effect s s' ev
        tags := (match ev with
          | .request .. => if s'.accepted.length > s.accepted.length then "accepted" else "queue-full"
          | .ship _ => if s'.w2d.length > s.w2d.length then "ship" else "ship-empty"
          | .deliverU _ => "deliverU"
          | .postprocess => if s.raw.isEmpty then "postprocess-empty" else if (lose cfg.factor s.raw).isEmpty then "postprocess" else "postprocess-downsampling"
          | .handover => if s.dstore.isEmpty then "handover-empty" else "handover"
          | .deliverR => "deliverR") :: tags
        match ej.getObjVal? "obs" with
        | .ok obs =>
          if obs != eff then
            return Json.mkObj [("diff", Json.mkObj [("at", toJson n), ("why", Json.str "effects differ"), ("event", ej), ("model", eff), ("impl", obs)])]
        | .error _ => pure ()
        s := s'
        n := n + 1
    -- the records behind race control's store, when the caller says what each sample is
    let recs ← match a.getObjVal? "infos" with
      | .ok (.arr infos) => do
        let tbl ← infos.toList.mapM parseInfo
        let missing := s.rstore.filter fun a => !(tbl.any fun p => p.1 == a)
        if !missing.isEmpty then throw s!"no info for samples {missing}"
        let info : Sid → Info := fun a => ((tbl.find? fun p => p.1 == a).map (·.2)).getD ⟨0, "", "", "", true, []⟩
        pure (arr ((records info s.rstore).map recordJson))
      | _ => pure Json.null
    return ok (Json.mkObj [("events", toJson n), ("records", recs), ("flush", arr ((flush s).map eventJson)), ("rstore", natArr s.rstore), ("accepted", natArr s.accepted), ("dropped", natArr s.dropped),
      ("downsampled", natArr s.downsampled), ("fed", natArr s.fed),
      ("in_flight", toJson (s.samplers.length + (s.w2d.flatMap (·.2)).length + s.raw.length + s.dstore.length + s.d2r.flatten.length))]) tags.eraseDups
  | "dreplay" =>
    -- the driver layer: pipeline events plus join point messages (`Samples.dstep`); observable effect of a join point message =
    -- the hand-over it put in flight (null when it is not the last worker's) and whether the store has been closed
    let c : DCfg := ⟨⟨← getNat a "cap", ← getNat a "factor"⟩, ← getNat a "workers", ← getNat a "steps"⟩
    let evs ← getArr a "events"
    let mut d := dinit
    let mut n := 0
    let mut tags : List String := []
    for ej in evs do
      let e ← ej.getObjValAs? String "e"
      let dev ← (if e == "joinpoint" then pure DEvent.joinpoint else do pure (DEvent.pipe (← parseEvent ej)))
      match dstep c d dev with
      | none => return Json.mkObj [("diff", Json.mkObj [("at", toJson n), ("why", Json.str "event not enabled in the model"), ("event", ej)])]
      | some d' =>
        let eff := match dev with
          | .joinpoint => Json.mkObj [("handed", match (d'.s.d2r.drop d.s.d2r.length) with | [m] => natArr m | _ => Json.null), ("closed", toJson d'.closed)]
          | .pipe pe => effect d.s d'.s pe
        tags := (match dev with
          | .joinpoint =>
            if d'.stepNo == d.stepNo then "joinpoint-waiting"
            else (if d'.closed then "last-joinpoint" else "joinpoint") ++ (if d.s.raw.isEmpty then (if d.s.dstore.isEmpty then "-nothing" else "-store-only") else (if d.s.dstore.isEmpty then "-raw-only" else "-raw-and-store"))
          | .pipe .postprocess => if c.finished d then "tick-after-finish" else if d.s.raw.isEmpty then "tick-empty" else "tick"
          | .pipe .deliverR => "deliverR"
          | .pipe (.deliverU _) => "deliverU"
          | .pipe (.ship _) => "ship"
          | .pipe (.request ..) => if d'.s.accepted.length > d.s.accepted.length then "accepted" else "queue-full"
          | .pipe .handover => "handover") :: tags
        match ej.getObjVal? "obs" with
        | .ok obs =>
          if obs != eff then
            return Json.mkObj [("diff", Json.mkObj [("at", toJson n), ("why", Json.str "effects differ"), ("event", ej), ("model", eff), ("impl", obs)])]
        | .error _ => pure ()
        d := d'
        n := n + 1
    let s := d.s
    return ok (Json.mkObj [("events", toJson n), ("rstore", natArr s.rstore), ("accepted", natArr s.accepted), ("lost", natArr d.lost),
      ("closed", toJson d.closed), ("step", toJson d.stepNo), ("downsampled", natArr s.downsampled),
      ("in_flight", toJson (s.samplers.length + (s.w2d.flatMap (·.2)).length + s.raw.length + s.dstore.length + s.d2r.flatten.length))]) tags.eraseDups
  | "ticks" =>
    -- the firing pattern of n wake-ups from timer t: list of booleans (post-processing called at that wake-up) and the final timer
    let w ← getNat a "w"
    let p ← getNat a "p"
    let n ← getNat a "n"
    let t0 ← getNat a "t"
    let mut t := t0
    let mut fired : List Bool := []
    for _ in [0:n] do
      let r := wake w p t
      t := r.1
      fired := r.2 :: fired
    let total := (wakes w p n t0).2
    return ok (Json.mkObj [("fired", arr (fired.reverse.map fun b => toJson b)), ("timer", toJson t), ("count", toJson total)])
      [if total == 0 then "never-fired" else if total == 1 then "fired-once" else "fired-repeatedly"]
  | _ => throw s!"unknown op {op}"

end Drivers.Samples
