import RallyModel.Versions
import Drivers.Util
open Lean DUtil

namespace Drivers.Versions
open _root_.Versions

def errName : Err → String
  | .invalidSyntax => "InvalidSyntax"
  | .typeError => "TypeError"

def inDomain (s : List Char) : Bool := s.all (fun c => c.toNat < 128 && c != '\n' && c != '\r')

def compJson (c : Comp) : Json :=
  arr [toJson c.major, optNat c.minor, optNat c.patch, optStr c.suffix]

def handle (op : String) (a : Json) : Except String Json := do
  match op with
  | "components" =>
    let s ← getStr a "v"
    let strict ← getBool a "strict"
    if !inDomain s then throw "out-of-domain"
    match components s strict with
    | .ok c => return ok (compJson c)
    | .error e => return err (errName e)
  | "best_match" =>
    let alts ← getStrList a "alts"
    let v ← getOptStr a "v"
    if !(alts.all inDomain) || !((v.map inDomain).getD true) then throw "out-of-domain"
    let tag := match v with
      | none => "none"
      | some s => match variantsOf s with
        | none => "nonversion"
        | some vv =>
          if (match vv.withSuffix with | some w => alts.contains w | none => false) then "suffix"
          else if alts.contains vv.withPatch then "patch"
          else if alts.contains vv.withMinor then "minor"
          else match latestBoundedMinor alts vv with
            | .error _ => "lbm-error"
            | .ok (some m) => if m == 0 then "prior-minor-zero" else "prior-minor"
            | .ok none => if alts.contains vv.withMajor then "major" else "master-or-none"
    match bestMatch alts v with
    | .ok r => return ok (optStr r) [tag, if r.isSome then "some" else "none"]
    | .error e => return err (errName e) [tag]
  | "repo_update" =>
    let remote ← getBool a "remote"
    let rb ← getStrList a "remote_branches"
    let lb ← getStrList a "local_branches"
    let tags ← getStrList a "tags"
    let v ← getOptStr a "v"
    match repoUpdate remote rb lb tags v with
    | .ok (.remoteBranch b) => return ok (arr [Json.str "remote", str b]) ["remote"]
    | .ok (.localBranch b) => return ok (arr [Json.str "local", str b]) ["local"]
    | .ok (.tag t) => return ok (arr [Json.str "tag", str t]) ["tag"]
    | .error (.versions e) => return err (errName e) ["verr"]
    | .error .notFound => return err "SystemSetupError" ["notfound"]
  | _ => throw s!"unknown op {op}"

end Drivers.Versions
