import Lean.Data.Json
import Drivers.Util
import Drivers.Alloc
import Drivers.Ctx
import Drivers.Dbl
import Drivers.Retry
import Drivers.Stats
import Drivers.Throughput
import Drivers.Versions
open Lean

def dispatch (m op : String) (a : Json) : Except String Json :=
  match m with
  | "alloc" => Drivers.Alloc.handle op a
  | "ctx" => Drivers.Ctx.handle op a
  | "dbl" => Drivers.Dbl.handle op a
  | "retry" => Drivers.Retry.handle op a
  | "stats" => Drivers.Stats.handle op a
  | "throughput" => Drivers.Throughput.handle op a
  | "versions" => Drivers.Versions.handle op a
  | "ping" => .ok (DUtil.ok (Json.str "pong"))
  | _ => .error s!"unknown model {m}"
