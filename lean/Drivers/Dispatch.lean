import Lean.Data.Json
import Drivers.Util
import Drivers.Dbl
import Drivers.Versions
open Lean

def dispatch (m op : String) (a : Json) : Except String Json :=
  match m with
  | "dbl" => Drivers.Dbl.handle op a
  | "versions" => Drivers.Versions.handle op a
  | "ping" => .ok (DUtil.ok (Json.str "pong"))
  | _ => .error s!"unknown model {m}"
