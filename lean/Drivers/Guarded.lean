import RallyModel.Guarded
import Drivers.Util
open Lean DUtil

namespace Drivers.Guarded
open _root_.Guarded

def optNatOf (j : Json) : Except String (Option Nat) :=
  match j with
  | Json.null => .ok none
  | v => (v.getNat?).map some

def valueName : Value → String
  | .object => "object" | .headTrue => "headTrue" | .headFalse => "headFalse" | .emptyBody => "emptyBody" | .body => "body"
  | .bulkTuple => "bulkTuple" | .pyNone => "pyNone" | .pyFalse => "pyFalse" | .pyZero => "pyZero" | .emptyDict => "emptyDict"
  | .emptyList => "emptyList" | .emptyStr => "emptyStr"

def allValues : List Value :=
  [.object, .headTrue, .headFalse, .emptyBody, .body, .bulkTuple, .pyNone, .pyFalse, .pyZero, .emptyDict, .emptyList, .emptyStr]

def valueOf (s : String) : Option Value := allValues.find? (fun v => valueName v == s)

/-- outcomes travel as arrays: ["success"], ["connTimeout"], ["bulk",[429,null]], ["api",404], … ; tag = script index -/
def outcomeOf (idx : Nat) (j : Json) : Except String Outcome := do
  let a ← j.getArr?
  let k ← (a[0]?.getD Json.null).getStr?
  match k with
  | "success" =>
    -- ["success"] or ["success", "<kind of the returned object>"]
    match a[1]? with
    | none => return succeeds idx .object
    | some vj =>
      let vs ← vj.getStr?
      match valueOf vs with
      | some v => return succeeds idx v
      | none => throw s!"unknown result kind {vs}"
  | "connTimeout" => return .connTimeout
  | "connError" => return .connError
  | "authn" => return .authn
  | "authz" => return .authz
  | "bulk" =>
    let items ← (a[1]?.getD Json.null).getArr?
    let sts ← items.toList.mapM optNatOf
    return .bulk sts
  | "api" =>
    let s ← (a[1]?.getD Json.null).getNat?
    return .api s
  | "transportOther" => return .transportOther
  | "otherExc" => return .otherExc idx
  | s => throw s!"unknown outcome {s}"

def kindName : Outcome → String
  | .success _ => "success"
  | .connTimeout => "connTimeout"
  | .connError => "connError"
  | .authn => "authn"
  | .authz => "authz"
  | .bulk _ => "bulk"
  | .api _ => "api"
  | .transportOther => "transportOther"
  | .otherExc _ => "otherExc"

def causeJson : Cause → List Json
  | .timeoutExhausted => [Json.str "timeoutExhausted"]
  | .connExhausted => [Json.str "connExhausted"]
  | .authn => [Json.str "authn"]
  | .authz => [Json.str "authz"]
  | .bulkUnretryable i => [Json.str "bulkUnretryable", toJson i]
  | .bulkExhausted => [Json.str "bulkExhausted"]
  | .apiError s => [Json.str "apiError", toJson s]
  | .transportError => [Json.str "transportError"]

def resJson : Res → Json
  | .returned t => arr [Json.str "returned", toJson (tagAttempt t), Json.str (valueName (tagValue t)), toJson (tagValue t).truthy]
  | .rallyError c => arr (Json.str "RallyError" :: causeJson c)
  | .systemSetupError c => arr (Json.str "SystemSetupError" :: causeJson c)
  | .propagated t => arr [Json.str "propagated", toJson t]
  | .loopExit => arr [Json.str "loopExit"]
  | .pending => arr [Json.str "pending"]

def evJson : Ev → Json
  | .call => Json.str "c"
  | .sleep d => ratStr d

def stepTag (count : Nat) (o : Outcome) : String :=
  match handle count o with
  | .done (.returned t) => if (tagValue t).truthy then "success:done" else "success:falsy-result"
  | .sleepRetry => s!"{kindName o}:retry"
  | .done (.rallyError (.bulkUnretryable _)) => "bulk:unretryable"
  | .done (.rallyError (.apiError _)) => if count ≤ maxExecutionCount then "api:fatal" else "api:fatal-or-exhausted"
  | .done _ => s!"{kindName o}:done"

def handle (op : String) (a : Json) : Except String Json := do
  match op with
  | "run" =>
    let rs ← getArr a "rnd"
    let rnds ← rs.mapM (fun j => do let s ← j.getStr?; parseRat s)
    let os ← getArr a "outs"
    let outs ← os.zipIdx.mapM (fun (j, i) => outcomeOf i j)
    let rnd : Nat → Rat := fun k => rnds.getD k 0
    let r := guarded rnd outs
    let used := outs.take r.calls
    let tags := (used.zipIdx.map (fun (o, i) => stepTag (i + 1) o)).eraseDups
    let tags := tags ++ (if r.calls == maxExecutionCount + 1 then ["budget-exhausted"] else [])
    return ok (Json.mkObj [("res", resJson r.res), ("trace", arr (r.trace.map evJson)), ("calls", toJson r.calls)]) tags
  | "store" =>
    let rs ← getArr a "rnd"
    let rnds ← rs.mapM (fun j => do let s ← j.getStr?; parseRat s)
    let rnd : Nat → Rat := fun k => rnds.getD k 0
    let stepsJ ← getArr a "steps"
    let steps ← stepsJ.mapM (fun sj => do
      let k ← sj.getObjValAs? String "k"
      match k with
      | "put" =>
        let n ← getNat sj "n"
        pure (StoreStep.put n)
      | "flush" =>
        let refresh ← getBool sj "refresh"
        let bj ← getArr sj "bulk"
        let rj ← getArr sj "refr"
        let bulk ← bj.zipIdx.mapM (fun (j, i) => outcomeOf i j)
        let refr ← rj.zipIdx.mapM (fun (j, i) => outcomeOf i j)
        pure (StoreStep.flush refresh bulk refr)
      | s => throw s!"unknown store step {s}")
    let (st, results) := runStore rnd emptyStore steps
    let resJ := results.map (fun r => Json.mkObj [
      ("err", match r.err with | none => Json.null | some e => resJson e),
      ("runs", arr (r.runs.map (fun run => arr (run.trace.map evJson))))])
    return ok (Json.mkObj [("acked", toJson st.acked), ("buffer", toJson st.buffer), ("results", arr resJ)])
  | "client_call" =>
    let verified ← getBool a "verified"
    let head ← getBool a "head"
    let ign ← a.getObjValAs? (Array Nat) "ignore"
    let rep (k : String) : Except String Reply := do
      let v ← a.getObjVal? k
      match v with
      | Json.str "connError" => pure Reply.connError
      | Json.str "connTimeout" => pure Reply.connTimeout
      | v => do let n ← v.getNat?; pure (Reply.status n)
    let info ← rep "info"
    let target ← rep "target"
    let (ex, out) := clientCall verified head ign.toList info target
    let exJ := ex.map (fun e => match e with | .info => Json.str "info" | .target => Json.str "target")
    let outJ := match out with
      | .response s => arr [Json.str "response", toJson s]
      | .raisedStatus s => arr [Json.str "status", toJson s]
      | .raisedConnError => arr [Json.str "connError"]
      | .raisedConnTimeout => arr [Json.str "connTimeout"]
    return ok (Json.mkObj [("exchanges", arr exJ), ("outcome", outJ)])
  | "open" =>
    let rs ← getArr a "rnd"
    let rnds ← rs.mapM (fun j => do let s ← j.getStr?; parseRat s)
    let rnd : Nat → Rat := fun k => rnds.getD k 0
    let create ← getBool a "create"
    let overwrite ← getBool a "overwrite"
    let index ← getBool a "index"
    let tj ← a.getObjValAs? String "template"
    let template ← match tj with
      | "none" => pure (none : Option (Option Bool))
      | "empty" => pure (some none)
      | "same" => pure (some (some true))
      | "differs" => pure (some (some false))
      | s => throw s!"unknown template state {s}"
    let sj ← getArr a "scripts"
    let scripts ← sj.mapM (fun x => do
      let xs ← x.getArr?
      xs.toList.zipIdx.mapM (fun (j, i) => outcomeOf i j))
    let (runs, err) := openStore rnd create ⟨template, overwrite, index⟩ scripts
    let opName : StoreOp → String
      | .templateExists => "template_exists"
      | .getTemplate => "get_template"
      | .putTemplate => "put_template"
      | .existsIndex m => if m then "exists:new" else "exists"
      | .createIndex => "create_index"
      | .refresh m => if m then "refresh:new" else "refresh"
    let runsJ := runs.map (fun (o, r) => arr [Json.str (opName o), arr (r.trace.map evJson)])
    let tags := (openPlan create ⟨template, overwrite, index⟩).map opName
    return ok (Json.mkObj [("ops", arr runsJ), ("err", match err with | none => Json.null | some e => resJson e),
      ("plan", arr ((openPlan create ⟨template, overwrite, index⟩).map (fun o => Json.str (opName o))))]) tags
  | "pause" =>
    let k ← getNat a "k"
    let r ← getRat a "r"
    return ok (ratStr (pause k r))
  | _ => throw s!"unknown op {op}"

end Drivers.Guarded
