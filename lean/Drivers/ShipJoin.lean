import RallyModel.ShipJoin
import Drivers.Util
open Lean DUtil

namespace Drivers.ShipJoin
open _root_.ShipJoin

def natArr (xs : List Nat) : Json := arr (xs.map fun n => toJson n)

def parseEv (s : String) : Except String Ev :=
  match s with
  | "add" => .ok .add
  | "finish" => .ok .finish
  | "wakeDrain" => .ok .wakeDrain
  | "checkDone" => .ok .checkDone
  | "driveWait" => .ok .driveWait
  | "driveDrain" => .ok .driveDrain
  | "driveDrop" => .ok .driveDrop
  | "sendJoin" => .ok .sendJoin
  | _ => .error s!"unknown event {s}"

def msgJson : Msg → Json
  | .update ids => natArr ids
  | .joinPoint => Json.str "join"

def pcName : Pc → String
  | .idle => "idle" | .drained => "drained" | .cleared => "cleared" | .waited => "waited"
  | .shipped => "shipped" | .dropped => "dropped" | .joined => "joined"

def handle (op : String) (a : Json) : Except String Json := do
  match op with
  | "run" =>
    -- replays a projected execution of the real wake-up handler / drive() / load generator thread
    let jd ← getBool a "jd"
    let todo := (← getArr a "todo")
    let todo ← todo.mapM fun j => j.getNat?
    let evs ← (← a.getObjValAs? (Array String) "events").toList.mapM parseEv
    let mut s := init todo
    let mut n := 0
    let mut tags : List String := []
    for e in evs do
      match step jd e s with
      | none => return err "Disabled" [s!"disabled-{pcName s.pc}"]
      | some s' =>
        tags := (match e with
          | .wakeDrain => if s.q.isEmpty then "wake-empty" else "wake-ships"
          | .checkDone => if s'.pc == .idle then "not-done" else "done"
          | .driveDrain => if s.q.isEmpty then "join-drain-empty" else "join-drain-ships"
          | .add => if s.pc == .drained then "add-in-window" else "add"
          | .finish => if s.pc == .drained then "finish-in-window" else "finish"
          | _ => "step") :: tags
        s := s'
        n := n + 1
    return ok (Json.mkObj [("events", toJson n), ("sent", arr (s.sent.map msgJson)), ("q", natArr s.q), ("added", natArr s.added),
      ("lost", natArr s.lost), ("finished", toJson s.finished), ("pc", Json.str (pcName s.pc)),
      ("shippedBefore", natArr (shippedBefore s.sent))]) tags.eraseDups
  | _ => throw s!"unknown op {op}"

end Drivers.ShipJoin
