import RallyModel.Compare
import RallyGen.CompareRows
import Drivers.Util
open Lean DUtil

namespace Drivers.Compare
open _root_.Compare

/-- generator domain: zero or 2^-300 ≤ |x| ≤ 2^300, so that no intermediate leaves the normal range -/
def magOk (q : Rat) : Bool := q = 0 || (decide (Dbl.pow2 (-300) ≤ q) && decide (q ≤ Dbl.pow2 300))

def getVal (j : Json) : Except String (Option Val) := do
  match j.getObjVal? "i" with
  | .ok (Json.str s) =>
    match s.toInt? with
    | some i => if i.natAbs ≤ 2 ^ 300 then return some (.int i) else return none
    | none => throw s!"bad int {s}"
  | _ =>
    let q ← getRat j "f"
    let n ← getBool j "n"
    if q < 0 || !magOk q || Dbl.fl q != q then return none
    return some (.flt ⟨n, q⟩)

def valJson : Val → Json
  | .int i => Json.mkObj [("i", Json.str (toString i))]
  | .flt x => Json.mkObj [("f", ratStr x.mag), ("n", Json.bool x.neg)]

/-- `none` inside = out of the modelled domain -/
def getPairs {α : Type} (j : Json) (k : String) (f : Json → Except String (Option α)) :
    Except String (Option (List (Str × α))) := do
  let xs ← getArr j k
  let mut out : List (Str × α) := []
  for x in xs do
    let a ← x.getArr?
    match a.toList with
    | [Json.str key, v] =>
      match (← f v) with
      | some r => out := (key.toList, r) :: out
      | none => return none
    | _ => throw "bad pair"
  return some out.reverse

def getScope (j : Json) : Except String (Option Scope) := do
  let vals ← getPairs j "vals" getVal
  let units ← getPairs j "units" (fun v => match v with
    | Json.str s => .ok (some s.toList)
    | _ => .error "bad unit")
  match vals, units with
  | some v, some u => return some ⟨v, u⟩
  | _, _ => return none

def getEntries (j : Json) : Except String (Option (Option (List Entry))) := do
  match j with
  | Json.null => return some none
  | _ =>
    let a ← j.getArr?
    let mut out : List Entry := []
    for e in a.toList do
      let id ← getStr e "id"
      match (← getScope e) with
      | some sc => out := ⟨id, sc⟩ :: out
      | none => return none
    return some (some out.reverse)

def getStats (j : Json) : Except String (Option Stats) := do
  let g ← j.getObjVal? "glob"
  let some glob ← getScope g | return none
  let ts ← getArr j "tasks"
  let mut tasks : List TaskM := []
  for t in ts do
    let task ← getOptStr t "task"
    let operation ← getStr t "operation"
    match (← getScope t) with
    | some sc => tasks := ⟨task, operation, sc⟩ :: tasks
    | none => return none
  let some lists ← getPairs j "lists" getEntries | return none
  return some ⟨glob, tasks.reverse, lists⟩

def colourTag : Colour → String
  | .none => "plain" | .green => "green" | .red => "red" | .neutral => "neutral"

def rowJson (r : Row) : Json :=
  arr [str r.label, str r.task, valJson r.base, valJson r.cont, str r.diff.render, optStr r.unit, str r.pct.render]

def handle (op : String) (a : Json) : Except String Json := do
  match op with
  | "table" =>
    let plain ← getBool a "plain"
    let proc ← getBool a "proc"
    let bj ← a.getObjVal? "b"
    let cj ← a.getObjVal? "c"
    match (← getStats bj), (← getStats cj) with
    | some b, some c =>
      match metricsTable CompareRows.blocks plain proc b c with
      | .ok rows =>
        let tags := (rows.map (fun r => colourTag r.diff.colour ++ "/" ++ colourTag r.pct.colour)).eraseDups
        return ok (arr (rows.map rowJson)) tags
      | .error .typeError => return err "TypeError"
      | .error .notFound => return err "NotFound"
    | _, _ => return err "OutOfDomain"
  | "op_record" =>
    -- the record `GlobalStatsCalculator` stores for one task: summary_stats + add_op_metrics
    let task ← getStr a "task"
    let operation ← getStr a "operation"
    let unit ← getOptStr a "unit"
    let optVal (k : String) : Except String (Option (Option Val)) := do
      match a.getObjVal? k with
      | .ok Json.null => return some none
      | .ok v => match (← getVal v) with
        | some x => return some (some x)
        | none => return none
      | .error _ => return some none
    let some mean ← optVal "mean" | return err "OutOfDomain"
    let some median ← optVal "median" | return err "OutOfDomain"
    let some mn ← optVal "min" | return err "OutOfDomain"
    let some mx ← optVal "max" | return err "OutOfDomain"
    let some e ← optVal "error_rate" | return err "OutOfDomain"
    let some timings ← getPairs a "timings" getVal | return err "OutOfDomain"
    let stats := match mn, mx with
      | some x, some y => some (x, y)
      | _, _ => none
    match e with
    | none => throw "error_rate missing"
    | some ev =>
      let r := opRecord task operation (summaryStats mean median stats unit) timings ev
      return ok (Json.mkObj [("task", optStr r.task), ("operation", str r.operation),
        ("vals", arr (r.sc.vals.map (fun kv => arr [str kv.1, valJson kv.2]))),
        ("units", arr (r.sc.units.map (fun kv => arr [str kv.1, str kv.2])))])
        [if (summaryStats mean median stats unit).vals.isEmpty then "no-throughput" else "throughput"]
  | "disk_row" =>
    let plain ← getBool a "plain"
    let inc := CompareRows.diskIncGood
    let pa := CompareRows.diskPctAbs
    let label ← getStr a "label"
    match (← getVal (← a.getObjVal? "b")), (← getVal (← a.getObjVal? "c")) with
    | some b, some c =>
      let r := diskRow plain inc pa label b c
      return ok (rowJson r) [String.ofList (humanUnit (pymin b c)).str]
    | _, _ => return err "OutOfDomain"
  | "human_unit" =>
    match (← getVal (← a.getObjVal? "v")) with
    | some v =>
      let u := humanUnit v
      return ok (arr [str u.str, valJson (u.fmt.apply v)]) [String.ofList u.str]
    | none => return err "OutOfDomain"
  | "compare_store" =>
    let plain ← getBool a "plain"
    let proc ← getBool a "proc"
    let bid ← getStr a "bid"
    let cid ← getStr a "cid"
    let rs ← getArr a "races"
    let mut store : List (Str × Stats) := []
    for r in rs do
      let id ← getStr r "id"
      match (← getStats (← r.getObjVal? "stats")) with
      | some st => store := (id, st) :: store
      | none => return err "OutOfDomain"
    match compareById CompareRows.blocks plain proc store.reverse bid cid with
    | .ok rows => return ok (arr (rows.map rowJson))
    | .error .typeError => return err "TypeError"
    | .error .notFound => return err "NotFound"
  | "session" =>
    let proc ← getBool a "proc"
    let rs ← getArr a "races"
    let mut races : Array Stats := #[]
    for r in rs do
      match (← getStats r) with
      | some st => races := races.push st
      | none => return err "OutOfDomain"
    let cs ← getArr a "calls"
    let mut calls : List Call := []
    for c in cs do
      let kind ← c.getObjValAs? String "kind"
      let i ← getNat c "b"
      let j ← getNat c "c"
      match races[i]?, races[j]? with
      | some b, some cc =>
        if kind == "report" then calls := Call.report b cc :: calls
        else calls := Call.table (kind == "plain") b cc :: calls
      | _, _ => throw "bad race index"
    let init ← getBool a "init_plain"
    let out := runSession CompareRows.blocks proc ⟨init⟩ calls.reverse
    let resJson (r : Except Err (List Row)) : Json := match r with
      | .ok rows => Json.mkObj [("r", arr (rows.map rowJson))]
      | .error .typeError => Json.mkObj [("err", Json.str "TypeError")]
      | .error .notFound => Json.mkObj [("err", Json.str "NotFound")]
    return ok (arr (out.map (fun l => arr (l.map resJson))))
  | "thr" =>
    return ok (arr [ratStr (thr 5), ratStr (thr 2)])
  | "strip" =>
    let s ← getStr a "s"
    return ok (str (stripAnsi s))
  | "specs" =>
    return ok (toJson (allSpecs CompareRows.blocks).length)
  | _ => throw s!"unknown op {op}"

end Drivers.Compare
