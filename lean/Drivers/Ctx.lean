import RallyModel.Ctx
import RallyModel.Dbl
import RallyGen.TraceHooks
import Drivers.Util
open Lean DUtil

namespace Drivers.Ctx
open _root_.Ctx

def parseEv (j : Json) : Except String CEv := do
  let k ← j.getObjValAs? String "k"
  let τ ← getNat j "task"
  match k with
  | "client" => return .client τ
  | "spawn" => return .spawn τ (← getNat j "child")
  | "open" => return .open_ τ (← getNat j "ctx")
  | "ws" => return .wireStart τ (← getRat j "t")
  | "we" => return .wireEnd τ (← getRat j "t")
  | "close" => return .close τ ((j.getObjValAs? Bool "exc").toOption.getD false)
  | _ => throw s!"unknown event kind {k}"

/-- `[{"op": id} | {"stream": [...]}]` -/
partial def parseItems (js : List Json) : Except String Items :=
  match js with
  | [] => .ok .nil
  | j :: rest =>
    match j.getObjVal? "stream" with
    | .ok sub => do
      let a ← sub.getArr?
      return .stream (← parseItems a.toList) (← parseItems rest)
    | .error _ => do
      return .op (← getNat j "op") (← parseItems rest)

def errName : Err → String
  | .lookupError => "LookupError"
  | .noTask => "noTask"
  | .nameReuse => "nameReuse"
  | .noOpen => "noOpen"
  | .dangling => "dangling"
  | .clock => "clock"

/-- `end - start` as CPython computes it on two floats -/
def svc (a b : PyVal) : Json :=
  match a, b with
  | some s, some e => ratStr (Dbl.fsub e s)
  | _, _ => Json.null

def readJson (c : Nat) (r : Rec) : Json :=
  Json.mkObj [("ctx", toJson c), ("start", optRat r.getStart), ("end", optRat r.getStop),
              ("svc", svc r.getStart r.getStop)]

/-- run the events one by one; before every `close` record what the manager's properties return -/
def runRec (fx : Bool) : St → List CEv → List Json → Except Err (St × List Json)
  | s, [], acc => .ok (s, acc.reverse)
  | s, e :: es, acc =>
    let acc' := match e with
      | .close τ _ =>
        match s.tasks τ with
        | some tk =>
          match tk.chain with
          | c :: _ =>
            match s.ctxs c with
            | some r => if tk.depth = 0 then acc else readJson c r :: acc
            | none => acc
          | [] => acc
        | none => acc
      | _ => acc
    match step fx s e with
    | .ok s' => runRec fx s' es acc'
    | .error err => .error err

def ctxJson (s : St) (c : Nat) : Json :=
  match s.ctxs c with
  | none => Json.null
  | some r =>
    Json.mkObj [("id", toJson c), ("parent", optNat r.parent), ("opener", toJson r.opener),
                ("has_start", toJson r.start.isSome), ("start", optRat r.getStart),
                ("has_end", toJson r.stop.isSome), ("end", optRat r.getStop),
                ("closed", toJson r.closed),
                ("spec_start", optRat (specStart s c)), ("spec_end", optRat (specStop s c)),
                ("direct_start", optRat (minOpt (directTimes s.log true c))),
                ("direct_end", optRat (maxOpt (directTimes s.log false c))),
                ("settled", toJson (settled s c)), ("leaf", toJson (isLeaf s c))]

def taskJson (s : St) (τ : Nat) : Json :=
  match s.tasks τ with
  | none => Json.null
  | some tk => Json.mkObj [("id", toJson τ), ("cur", optNat tk.chain.head?), ("depth", toJson tk.depth)]

def spanOk (s : St) (c : Nat) : Bool :=
  match s.ctxs c with
  | none => true
  | some r => r.getStart == specStart s c && r.getStop == specStop s c

def handle (op : String) (a : Json) : Except String Json := do
  match op with
  | "run" =>
    let fx ← getBool a "fx"
    let evs ← (← getArr a "evs").mapM parseEv
    match runRec fx init evs [] with
    | .error .lookupError => return err "LookupError"
    | .error e => throw s!"inadmissible trace: {errName e}"
    | .ok (s, reads) =>
      let cs := s.names.reverse
      let settledCs := cs.filter (settled s)
      let tags :=
        (if evs.any CEv.isSpawn then ["spawn"] else ["nospawn"]) ++
        (if s.late then ["late"] else []) ++
        (if s.emptyClose then ["empty-close"] else []) ++
        (if settledCs.all (spanOk s) then ["span-ok"] else ["span-bad"]) ++
        (if cs.any (fun c => match s.ctxs c with | some r => r.anc.length ≥ 3 | none => false) then ["deep"] else [])
      return ok (Json.mkObj [("reads", arr reads), ("ctxs", arr (cs.map (ctxJson s))),
                             ("tasks", arr (s.tnames.reverse.map (taskJson s))),
                             ("late", toJson s.late), ("empty_close", toJson s.emptyClose)]) tags
  | "hooks" =>
    let o ← match (← a.getObjValAs? String "outcome") with
      | "complete" => pure Outcome.complete
      | "failBeforeHeaders" => pure Outcome.failBeforeHeaders
      | "failAfterHeaders" => pure Outcome.failAfterHeaders
      | x => throw s!"unknown outcome {x}"
    let last := (a.getObjValAs? Bool "last").toOption.getD true
    let acts := hookActs (decodeReg Gen.TraceHooks.registered) Gen.TraceHooks.endOnFailure o last
    let name : HookAct → String
      | .start => "start" | .stop => "end" | .other => "other"
    return ok (toJson (acts.map name)) [if startsAndEnds acts then "starts-and-ends" else "incomplete"]
  | "collect" =>
    let items ← parseItems (← getArr a "items")
    return ok (Json.mkObj [("order", toJson (collect items)), ("all", toJson (allOps items))])
  | _ => throw s!"unknown op {op}"

end Drivers.Ctx
