import RallyModel.Stats
import RallyGen.Percentiles
import RallyGen.StatsKeys
import Drivers.Util
open Lean DUtil

namespace Drivers.Stats
open _root_.Stats

def errName : Err → String
  | .keyError => "KeyError"
  | .indexError => "IndexError"
  | .assertionError => "AssertionError"

/-- inputs must be finite doubles in the normal range (or 0) -/
def isDouble (q : Rat) : Bool := Dbl.inRange q && Dbl.fl q == q

def getDouble (j : Json) (k : String) : Except String Rat := do
  let q ← getRat j k
  if !isDouble q then throw s!"out-of-domain: {k} is not a double"
  return q

def parseStype (j : Json) (k : String) : Except String (Option SType) := do
  match ← getOptStr j k with
  | none => return none
  | some s =>
    if s == "warmup".toList then return some .warmup
    else if s == "normal".toList then return some .normal
    else throw "bad sample type"

def parseRec (j : Json) : Except String Rec := do
  let name ← getStr j "n"
  let task ← getOptStr j "t"
  let op ← getOptStr j "o"
  let w ← getBool j "w"
  let v ← getDouble j "v"
  let u ← getOptStr j "u"
  let s : Option Bool ← match j.getObjVal? "s" with
    | .ok (Json.bool b) => pure (some b)
    | .ok Json.null => pure none
    | .error _ => pure none
    | .ok _ => throw "bad success flag"
  let r ← getDouble j "r"
  return ⟨name, task, op, if w then .warmup else .normal, v, u, s, secondsToMs r⟩

def parseRecs (a : Json) : Except String (List Rec) := do
  (← getArr a "recs").mapM parseRec

def parseRats (a : Json) (k : String) : Except String (List Rat) := do
  (← getArr a k).mapM (fun j => match j with
    | Json.str s => do
      let q ← parseRat s
      if !isDouble q then throw "out-of-domain: not a double"
      return q
    | _ => throw "expected rational string")

def parseTask (j : Json) : Except String Task := do
  return ⟨← getStr j "name", ← getStr j "op", ← getStr j "type", ← getBool j "report"⟩

def optRatJ (o : Option Rat) : Json := optRat o

def summaryJ (s : Summary) : Json :=
  Json.mkObj [("min", optRatJ s.min), ("mean", optRatJ s.mean), ("median", optRatJ s.median), ("max", optRatJ s.max), ("unit", optStr s.unit)]

def latencyJ : Option Latency → Json
  | none => Json.null
  | some l => Json.mkObj [("pcts", arr (l.pcts.map (fun kv => arr [str kv.1, ratStr kv.2]))), ("mean", optRatJ l.mean), ("unit", optStr l.unit)]

def opJ (m : OpMetrics) : Json :=
  Json.mkObj [("task", str m.task), ("operation", str m.operation), ("throughput", summaryJ m.throughput),
    ("latency", latencyJ m.latency), ("service_time", latencyJ m.serviceTime), ("processing_time", latencyJ m.processingTime),
    ("error_rate", ratStr m.errorRate), ("duration", optRatJ m.duration)]

def bucket (n : Nat) : String :=
  if n = 0 then "0" else if n = 1 then "1" else if n < 10 then "2-9" else if n < 100 then "10-99"
  else if n < 1000 then "100-999" else if n < 10000 then "1000-9999" else "10000+"

def latTag : Option Latency → String
  | none => "none"
  | some l => toString l.pcts.length

def opTags (m : OpMetrics) : List String :=
  [ (if m.throughput.min.isSome then "thr:values" else "thr:none"),
    "lat:" ++ latTag m.latency, "svc:" ++ latTag m.serviceTime, "proc:" ++ latTag m.processingTime,
    (if m.errorRate = 0 then "er:0" else if m.errorRate = 1 then "er:1" else "er:mid"),
    (if m.duration.isSome then "dur:some" else "dur:none") ]

/-! tagged JSON values for the `GlobalStats` dict model -/
partial def toJVal : Json → Except String JVal
  | Json.null => .ok .null
  | Json.bool b => .ok (.bool b)
  | Json.arr xs => do
    let l ← xs.toList.mapM toJVal
    return .arr l
  | j@(Json.obj _) => do
    match j.getObjVal? "i" with
    | .ok (Json.str s) => match s.toInt? with
      | some i => return .int i
      | none => throw "bad int"
    | _ =>
    match j.getObjVal? "f" with
    | .ok (Json.str s) => return .flt (← parseRat s)
    | _ =>
    match j.getObjVal? "s" with
    | .ok (Json.str s) => return .str s.toList
    | _ =>
    match j.getObjVal? "o" with
    | .ok (Json.arr kvs) => do
      let l ← kvs.toList.mapM (fun kv => match kv with
        | Json.arr #[Json.str k, v] => do
          let v' ← toJVal v
          pure (k.toList, v')
        | _ => throw "bad object entry")
      return .obj l
    | _ => throw "bad tagged value"
  | _ => throw "bad tagged value"

partial def ofJVal : JVal → Json
  | .null => Json.null
  | .bool b => Json.bool b
  | .int i => Json.mkObj [("i", Json.str (toString i))]
  | .flt q => Json.mkObj [("f", ratStr q)]
  | .str s => Json.mkObj [("s", str s)]
  | .arr xs => arr (xs.map ofJVal)
  | .obj kvs => Json.mkObj [("o", arr (kvs.map (fun kv => arr [str kv.1, ofJVal kv.2])))]

def optDict (a : Json) (k : String) : Except String (Option Dict) := do
  match a.getObjVal? k with
  | .ok Json.null => return none
  | .error _ => return none
  | .ok j =>
    match ← toJVal j with
    | .obj kvs => return some kvs
    | _ => throw "expected a dict"

/-- a query description `{kind, name, task, optype, stype, ps?, sched?}` -/
def parseQKind (a : Json) : Except String QKind := do
  let kind ← a.getObjValAs? String "kind"
  if kind == "calc" then
    let sched ← (← getArr a "sched").mapM parseTask
    return .results sched
  let q : Query := ⟨← getStr a "name", ← getOptStr a "task", ← getOptStr a "optype", ← parseStype a "stype"⟩
  match kind with
  | "get" => return .get q
  | "stats" => return .stats q
  | "mean" => return .mean q
  | "median" => return .median q
  | "percentiles" => return .pcts q (← parseRats a "ps")
  | "unit" => return .unit q.name q.task q.opType
  | "error_rate" => match q.task with
    | some t => return .errRate t q.opType q.stype
    | none => throw "error_rate needs a task"
  | "duration" => match q.task with
    | some t => return .duration t
    | none => throw "duration needs a task"
  | _ => throw s!"unknown query kind {kind}"

def ansJ : Ans → Json
  | .vals vs => arr (vs.map ratStr)
  | .stats none => Json.null
  | .stats (some st) => Json.mkObj [("count", toJson st.count), ("min", ratStr st.min), ("max", ratStr st.max), ("avg", ratStr st.avg)]
  | .num o => optRatJ o
  | .pcts r => arr (r.map (fun pv => arr [ratStr pv.1, ratStr pv.2]))
  | .unit u => optStr u
  | .rate q => ratStr q
  | .ops r => arr (r.map opJ)

def resJ : Except Err Ans → Json
  | .ok a => Json.mkObj [("r", ansJ a)]
  | .error e => Json.mkObj [("err", Json.str (errName e))]

def parseEv (j : Json) : Except String SEv := do
  let e ← j.getObjValAs? String "e"
  match e with
  | "put" => return .put (← parseRec (← j.getObjVal? "rec"))
  | "bulk" => return .bulk (← (← getArr j "recs").mapM parseRec)
  | "query" => return .query (← parseQKind (← j.getObjVal? "q"))
  | "handover" => return .handover (← getBool j "clear") (← parseQKind (← j.getObjVal? "q"))
  | _ => throw s!"unknown event {e}"

def handle (op : String) (a : Json) : Except String Json := do
  match op with
  | "percentile" =>
    let s ← parseRats a "s"
    let p ← getDouble a "p"
    let rank := rankD s.length p
    let tag := if rank = ((Dbl.ftrunc rank : Int) : Rat) then "int-rank" else "interp"
    match percentileD s p with
    | .ok v =>
      return ok (Json.mkObj [("d", ratStr v), ("i", ratStr (percentileI s p)), ("rank", ratStr rank), ("median", ratStr (medianS s))]) [tag]
    | .error e => return err (errName e) [tag]
  | "pcts_for" =>
    let n ← getInt a "n"
    match pctsFor RallyGen.Percentiles.table n.toNat with
    | .ok r => if n < 0 then return err "AssertionError" else return ok (arr (r.map (fun pk => arr [ratStr pk.1, str pk.2])))
    | .error e => return err (errName e)
  | "query" =>
    let recs ← parseRecs a
    let kind ← a.getObjValAs? String "kind"
    let q : Query := ⟨← getStr a "name", ← getOptStr a "task", ← getOptStr a "optype", ← parseStype a "stype"⟩
    let fin {α} (r : Except Err α) (f : α → Json) : Json := match r with
      | .ok x => ok (f x)
      | .error e => err (errName e)
    match kind with
    | "get" => return fin (valuesE recs q) (fun vs => arr (vs.map ratStr))
    | "stats" => return fin (valuesE recs q) (fun vs => match statsOf vs with
        | none => Json.null
        | some st => Json.mkObj [("count", toJson st.count), ("min", ratStr st.min), ("max", ratStr st.max), ("avg", ratStr st.avg)])
    | "mean" => return fin (valuesE recs q) (fun vs => optRatJ (meanOf vs))
    | "median" => return fin ((valuesE recs q).bind medianOf) optRatJ
    | "percentiles" =>
      let ps ← parseRats a "ps"
      return fin ((valuesE recs q).bind (fun vs => percentilesOf vs ps)) (fun r => arr (r.map (fun pv => arr [ratStr pv.1, ratStr pv.2])))
    | "unit" => return fin (unitE recs q.name q.task q.opType) optStr
    | "error_rate" =>
      match q.task with
      | none => throw "error_rate needs a task"
      | some t => return fin (errorRateE recs t q.opType q.stype) ratStr
    | "duration" =>
      match q.task with
      | none => throw "duration needs a task"
      | some t => return fin (durationE recs t) optRatJ
    | _ => throw s!"unknown query kind {kind}"
  | "calc" =>
    let recs ← parseRecs a
    let sched ← (← getArr a "sched").mapM parseTask
    match calcE RallyGen.Percentiles.table recs sched with
    | .ok r => return ok (arr (r.map opJ)) ((r.map opTags).flatten.eraseDups ++ [s!"reported:{r.length}/{sched.length}"])
    | .error e => return err (errName e)
  | "gs_init" =>
    let d ← optDict a "d"
    return ok (ofJVal (.obj (gsInit RallyGen.StatsKeys.table d)))
  | "readback" =>
    let d ← optDict a "results"
    return ok (ofJVal (.obj (readBack RallyGen.StatsKeys.table d)))
  | "history" =>
    -- one store object: deliveries, hand-overs and queries in order; answers in order
    let evs ← (← getArr a "events").mapM parseEv
    let answers := runHist RallyGen.Percentiles.table [] evs
    let nclear := (evs.filter SEv.clears).length
    return ok (arr (answers.map resJ)) [s!"clears:{nclear}", s!"final-docs:{bucket (stateAfter [] evs).length}"]
  | "race_history" =>
    -- one race store directory: store(id, doc#, ts) / find(id) / list(max); answers in order
    let evs ← (← getArr a "events").mapM (fun j => do
      let e ← j.getObjValAs? String "e"
      match e with
      | "store" => return REv.store (← getStr j "id") ⟨← getNat j "ts", ← getNat j "doc"⟩
      | "find" => return REv.find (← getStr j "id")
      | "list" => return REv.list (← getNat j "max")
      | _ => throw s!"unknown event {e}")
    let docJ (d : RaceDoc) : Json := toJson d.doc
    let ansJ' : RAns → Json
      | .found d => Json.mkObj [("found", docJ d)]
      | .notFound => Json.str "NotFound"
      | .listed l => Json.mkObj [("listed", arr (l.map (fun e => arr [str e.1, docJ e.2])))]
    let restores := (evs.filter (fun e => match e with | .store _ _ => true | _ => false)).length - (dirAfter [] evs).length
    return ok (arr ((raceRun [] evs).map ansJ')) [s!"ids:{(dirAfter [] evs).length}", s!"re-stores:{if restores > 3 then 3 else restores}"]
  | "lookup" =>
    -- GlobalStats({"op_metrics": ops}).tasks() / .metrics(task)
    let ops ← match ← toJVal ((a.getObjVal? "ops").toOption.getD Json.null) with
      | .arr xs => match recsOfJ xs with
        | some rs => pure rs
        | none => throw "out-of-domain: op_metrics entries must be dicts"
      | _ => throw "out-of-domain: op_metrics must be a list"
    let t ← getStr a "task"
    let wrap {α} (r : Except Err α) (f : α → Json) : Json := match r with
      | .ok x => Json.mkObj [("r", f x)]
      | .error e => Json.mkObj [("err", Json.str (errName e))]
    let mres := metricsE ops t
    let tag := match mres with
      | .ok (some r) => if (dictGet r sTask).isSome then "hit:task" else "hit:operation-fallback"
      | .ok none => "miss"
      | .error _ => "keyerror"
    return ok (Json.mkObj [("tasks", wrap (tasksE ops) (fun ks => arr (ks.map ofJVal))),
      ("metrics", wrap mres (fun o => match o with | some r => ofJVal (.obj r) | none => Json.null))]) [tag]
  | _ => throw s!"unknown op {op}"

end Drivers.Stats
