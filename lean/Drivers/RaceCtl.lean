import RallyModel.RaceCtl
import Drivers.Util
import Drivers.Retry
open Lean DUtil

namespace Drivers.RaceCtl
open _root_.RaceCtl

def parseMsg (s : String) : Except String Msg :=
  match s with
  | "EngineStarted" => .ok .engineStarted
  | "PreparationComplete" => .ok .preparationComplete
  | "TaskFinished" => .ok .taskFinished
  | "BenchmarkComplete" => .ok .benchComplete
  | "BenchmarkFailure" => .ok .failure
  | "PoisonMessage" => .ok .poison
  | "BenchmarkCancelled" => .ok .cancelled
  | "EngineStopped" => .ok .engineStopped
  | _ => .error s!"unknown message {s}"

def replyName : Reply → String
  | .success => "Success" | .failure => "BenchmarkFailure" | .cancelled => "BenchmarkCancelled" | .poison => "PoisonMessage"

def outcomeName : Outcome → String
  | .success => "success" | .failed => "failed" | .cancelled => "cancelled" | .pending => "pending"

def handle (op : String) (a : Json) : Except String Json := do
  match op with
  | "run" =>
    let names ← a.getObjValAs? (Array String) "msgs"
    let ms ← names.toList.mapM parseMsg
    let s := run {} ms
    let firstFault := ms.findIdx? isFault
    let tags := [outcomeName (outcome s), if s.resultsStored then "results" else "no-results"] ++
      (match firstFault with
       | some i => [if (ms.take i).contains .benchComplete then "fault-after-complete" else "fault-before-complete"]
       | none => ["fault-free"])
    return ok (Json.mkObj [("replies", arr (s.replies.map fun r => Json.str (replyName r))), ("resultsStored", toJson s.resultsStored),
      ("stopSent", toJson s.stopSent), ("outcome", Json.str (outcomeName (outcome s)))]) tags
  | "poll" | "poll-task-executor" =>
    let f ← match (← a.getObjValAs? String "future") with
      | "none" => pure Fut.none | "running" => pure Fut.running | "done-ok" => pure Fut.doneOk | "done-exc" => pure Fut.doneExc
      | x => throw s!"unknown future state {x}"
    let name : PollAct → String
      | .clearStartDriving => "clear-start-driving" | .drive => "drive" | .shipSamples => "ship-samples" | .sendCancelled => "send-cancelled"
      | .sendFailure => "send-failure" | .clearFuture => "clear-future" | .rearm => "rearm" | .sendReady => "send-ready"
    let acts ← if op == "poll" then do
        let sd ← a.getObjValAs? Bool "start_driving"
        let c ← a.getObjValAs? Bool "cancel"
        pure (poll sd c f)
      else pure (pollTaskExecutor f)
    return ok (arr (acts.map fun x => Json.str (name x))) (acts.filter (·.isOutcome) |>.map name)
  | "prep-run" =>
    let ps ← a.getObjValAs? (Array Json) "procs"
    let procs ← ps.toList.mapM fun j => do
      let sr ← j.getObjValAs? Bool "seed_raises"
      let tf ← j.getObjValAs? (Array Bool) "task_fails"
      pure ({ seedRaises := sr, taskFails := tf.toList } : Proc)
    match prepRun true procs with
    | .prepared => return ok (Json.mkObj [("outcome", Json.str "prepared"), ("hops", toJson (0 : Nat))]) ["prep:prepared"]
    | .failed h => return ok (Json.mkObj [("outcome", Json.str "failed"), ("hops", toJson h)]) [s!"prep:failed-{h}-hops"]
  | "prep-handle" =>
    let st ← match (← a.getObjValAs? String "status") with
      | "none" => pure PrepStatus.none | "initializing" => pure PrepStatus.initializing | "running" => pure PrepStatus.running
      | "complete" => pure PrepStatus.complete
      | x => throw s!"unknown status {x}"
    let stName : PrepStatus → String
      | .none => "none" | .initializing => "initializing" | .running => "running" | .complete => "complete"
    let ev ← match (← a.getObjValAs? String "event") with
      | "failure" => pure PrepEv.benchmarkFailure
      | "poison" => pure PrepEv.poison
      | "ready" => do pure (PrepEv.readyForWork (← a.getObjValAs? Bool "tasks_left"))
      | "idle" => do
        let last ← a.getObjValAs? Bool "last"
        let next ← match (← a.getObjValAs? String "next") with
          | "none-left" => pure NextProc.noneLeft | "seeds" => pure NextProc.seeds | "raises" => pure NextProc.raises
          | x => throw s!"unknown next {x}"
        pure (PrepEv.workerIdle last next)
      | x => throw s!"unknown event {x}"
    let sendName : PrepSend → String
      | .forwardToDriver => "forward-to-driver" | .failureToDriver => "failure-to-driver" | .failureToSender => "failure-to-sender"
      | .doTask => "do-task" | .doNothing => "do-nothing" | .startTaskLoop => "start-task-loop" | .trackPrepared => "track-prepared"
    let (sends, st') := prepHandle st ev
    return ok (Json.mkObj [("sends", arr (sends.map fun x => Json.str (sendName x))), ("status", Json.str (stName st'))]) (sends.map sendName)
  | "exec-single" | "retried-request" =>
    let abort ← a.getObjValAs? Bool "abort"
    let resName : ExecRes → String
      | .sample true => "sample-ok" | .sample false => "sample-failed" | .assertionError => "assertion-error" | .setupError => "setup-error"
      | .propagates => "propagates"
    if op == "exec-single" then
      let o ← match (← a.getObjValAs? String "out") with
        | "tuple2" => pure RunOut.tuple2 | "dict-success" => pure RunOut.dictSuccess | "dict-no-key" => pure RunOut.dictNoKey
        | "dict-fail" => pure RunOut.dictFail | "other-value" => pure RunOut.otherValue | "conn-error-exact" => pure RunOut.connErrorExact
        | "conn-error-sub" => pure RunOut.connErrorSub | "conn-timeout" => pure RunOut.connTimeout | "transport-other" => pure RunOut.transportOther
        | "api-error" => pure RunOut.apiError | "key-error" => pure RunOut.keyError | "other-exc" => pure RunOut.otherExc
        | x => throw s!"unknown runner outcome {x}"
      let r := execSingle abort o
      return ok (Json.str (resName r)) [resName r]
    else
      let p ← Drivers.Retry.getParams a
      let outs ← Drivers.Retry.getOuts a
      let calls := (_root_.Retry.retry p outs).calls
      match retriedRequest abort p outs with
      | some r => return ok (Json.mkObj [("result", Json.str (resName r)), ("calls", toJson calls)]) [s!"retried:{resName r}", s!"attempts:{min calls 4}"]
      | none => return ok (Json.mkObj [("result", Json.str "pending"), ("calls", toJson calls)]) ["retried:pending"]
  | _ => throw s!"unknown op {op}"

end Drivers.RaceCtl
