import RallyModel.RaceCtl
import Drivers.Util
open Lean DUtil

namespace Drivers.RaceCtl
open _root_.RaceCtl

def parseMsg (s : String) : Except String Msg :=
  match s with
  | "EngineStarted" => .ok .engineStarted
  | "PreparationComplete" => .ok .preparationComplete
  | "TaskFinished" => .ok .taskFinished
  | "BenchmarkComplete" => .ok .benchComplete
  | "BenchmarkFailure" => .ok .failure
  | "PoisonMessage" => .ok .poison
  | "BenchmarkCancelled" => .ok .cancelled
  | "EngineStopped" => .ok .engineStopped
  | _ => .error s!"unknown message {s}"

def replyName : Reply → String
  | .success => "Success" | .failure => "BenchmarkFailure" | .cancelled => "BenchmarkCancelled" | .poison => "PoisonMessage"

def outcomeName : Outcome → String
  | .success => "success" | .failed => "failed" | .cancelled => "cancelled" | .pending => "pending"

def handle (op : String) (a : Json) : Except String Json := do
  match op with
  | "run" =>
    let names ← a.getObjValAs? (Array String) "msgs"
    let ms ← names.toList.mapM parseMsg
    let s := run {} ms
    let firstFault := ms.findIdx? isFault
    let tags := [outcomeName (outcome s), if s.resultsStored then "results" else "no-results"] ++
      (match firstFault with
       | some i => [if (ms.take i).contains .benchComplete then "fault-after-complete" else "fault-before-complete"]
       | none => ["fault-free"])
    return ok (Json.mkObj [("replies", arr (s.replies.map fun r => Json.str (replyName r))), ("resultsStored", toJson s.resultsStored),
      ("stopSent", toJson s.stopSent), ("outcome", Json.str (outcomeName (outcome s)))]) tags
  | _ => throw s!"unknown op {op}"

end Drivers.RaceCtl
