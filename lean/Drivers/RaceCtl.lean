import RallyModel.RaceCtl
import Drivers.Util
open Lean DUtil

namespace Drivers.RaceCtl
open _root_.RaceCtl

def parseMsg (s : String) : Except String Msg :=
  match s with
  | "EngineStarted" => .ok .engineStarted
  | "PreparationComplete" => .ok .preparationComplete
  | "TaskFinished" => .ok .taskFinished
  | "BenchmarkComplete" => .ok .benchComplete
  | "BenchmarkFailure" => .ok .failure
  | "PoisonMessage" => .ok .poison
  | "BenchmarkCancelled" => .ok .cancelled
  | "EngineStopped" => .ok .engineStopped
  | _ => .error s!"unknown message {s}"

def replyName : Reply → String
  | .success => "Success" | .failure => "BenchmarkFailure" | .cancelled => "BenchmarkCancelled" | .poison => "PoisonMessage"

def outcomeName : Outcome → String
  | .success => "success" | .failed => "failed" | .cancelled => "cancelled" | .pending => "pending"

def handle (op : String) (a : Json) : Except String Json := do
  match op with
  | "run" =>
    let names ← a.getObjValAs? (Array String) "msgs"
    let ms ← names.toList.mapM parseMsg
    let s := run {} ms
    let firstFault := ms.findIdx? isFault
    let tags := [outcomeName (outcome s), if s.resultsStored then "results" else "no-results"] ++
      (match firstFault with
       | some i => [if (ms.take i).contains .benchComplete then "fault-after-complete" else "fault-before-complete"]
       | none => ["fault-free"])
    return ok (Json.mkObj [("replies", arr (s.replies.map fun r => Json.str (replyName r))), ("resultsStored", toJson s.resultsStored),
      ("stopSent", toJson s.stopSent), ("outcome", Json.str (outcomeName (outcome s)))]) tags
  | "poll" | "poll-task-executor" =>
    let f ← match (← a.getObjValAs? String "future") with
      | "none" => pure Fut.none | "running" => pure Fut.running | "done-ok" => pure Fut.doneOk | "done-exc" => pure Fut.doneExc
      | x => throw s!"unknown future state {x}"
    let name : PollAct → String
      | .clearStartDriving => "clear-start-driving" | .drive => "drive" | .shipSamples => "ship-samples" | .sendCancelled => "send-cancelled"
      | .sendFailure => "send-failure" | .clearFuture => "clear-future" | .rearm => "rearm" | .sendReady => "send-ready"
    let acts ← if op == "poll" then do
        let sd ← a.getObjValAs? Bool "start_driving"
        let c ← a.getObjValAs? Bool "cancel"
        pure (poll sd c f)
      else pure (pollTaskExecutor f)
    return ok (arr (acts.map fun x => Json.str (name x))) (acts.filter (·.isOutcome) |>.map name)
  | _ => throw s!"unknown op {op}"

end Drivers.RaceCtl
