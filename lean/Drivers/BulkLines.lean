import RallyModel.BulkLines
import Drivers.Util
import Drivers.Bulk
open Lean DUtil

namespace Drivers.BulkLines
open _root_.Bulk
open Drivers.Bulk (getBytes toHex pairJson)

def handle (op : String) (a : Json) : Except String Json := do
  match op with
  | "texttable" =>
    -- prepare_file_offset_table as the code runs it (text mode, universal newlines)
    let bs ← getBytes a "bytes"; let every ← getNat a "every"
    let r := prepareOffsetTableText every bs
    return ok (Json.mkObj [("table", arr (r.1.map pairJson)), ("lines", toJson r.2), ("nobarecr", toJson (noBareCR bs)),
                           ("nl_lines", toJson (splitLines bs).length)])
      [if noBareCR bs then "no-bare-cr" else "bare-cr"]
  | "lines" =>
    -- the `\n` lines of a file; `readlines(k)` after `skip` lines: elements, position
    let bs ← getBytes a "bytes"; let skip ← getNat a "skip"; let k ← getNat a "read"
    let src := skipLines none bs skip
    let r := src.readlines k
    return ok (Json.mkObj [("count", toJson (splitLines bs).length), ("nl", toJson (countNL bs)), ("ends_nl", toJson (endsNL bs)),
                           ("text_count", toJson (textLines bs).length),
                           ("pos", toJson src.pos), ("got", arr (r.1.map fun l => Json.str (toHex l))), ("pos_after", toJson r.2.pos)])
      [if noBareCR bs then "no-bare-cr" else "bare-cr", if endsNL bs then "terminated" else "unterminated"]
  | _ => throw s!"unknown op {op}"

end Drivers.BulkLines
