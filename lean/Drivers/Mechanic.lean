import RallyModel.Mechanic
import RallyModel.MechanicStop
import Drivers.Util
open Lean DUtil

namespace Drivers.Mechanic
open _root_.Mechanic

def aidStr : Aid → String
  | .rc => "rc" | .mech => "mech" | .disp => "disp" | .sys => "sys"
  | .node h => s!"n{h}"

def parseAid (s : String) : Except String Aid :=
  match s with
  | "rc" => .ok .rc | "mech" => .ok .mech | "disp" => .ok .disp | "sys" => .ok .sys
  | _ =>
    if s.startsWith "n" then
      match (s.drop 1).toNat? with
      | some h => .ok (.node h)
      | none => .error s!"bad actor id {s}"
    else .error s!"bad actor id {s}"

def jAid (a : Aid) : Json := Json.str (aidStr a)
def jS (s : String) : Json := Json.str s
def jN (n : Nat) : Json := toJson n
def jB (b : Bool) : Json := Json.bool b

def fkindJson : FKind → List Json
  | .start h => [jS "start", jN h]
  | .guard => [jS "guard"]
  | .hostError => [jS "hostError"]
  | .poisoned => [jS "poisoned"]
  | .startPoison => [jS "startPoison"]
  | .childExited => [jS "childExited"]
  | .daemonLeft ip => [jS "daemonLeft", jN ip]

def msgJson : Msg → Json
  | .startEngine => arr [jS "startEngine"]
  | .stopEngine => arr [jS "stopEngine"]
  | .engineStarted => arr [jS "engineStarted"]
  | .engineStopped => arr [jS "engineStopped"]
  | .startNodes h r => arr [jS "startNodes", jN h, jAid r]
  | .nodesStarted => arr [jS "nodesStarted"]
  | .stopNodes => arr [jS "stopNodes"]
  | .nodesStopped => arr [jS "nodesStopped"]
  | .failure k => arr (jS "failure" :: fkindJson k)
  | .exitReq => arr [jS "exitReq"]
  | .childExited h => arr [jS "childExited", jN h]
  | .conv a ip => arr [jS "conv", jB a, jN ip]
  | .poison m => arr [jS "poison", msgJson m]
  | .wakeup => arr [jS "wakeup"]

def asStr (j : Json) : Except String String := j.getStr?
def asNat (j : Json) : Except String Nat := j.getNat?
def asBool (j : Json) : Except String Bool := j.getBool?
def asList (j : Json) : Except String (List Json) := do let a ← j.getArr?; return a.toList

def parseFKind : List Json → Except String FKind
  | [k] => do
    match (← asStr k) with
    | "guard" => return .guard
    | "hostError" => return .hostError
    | "poisoned" => return .poisoned
    | "startPoison" => return .startPoison
    | "childExited" => return .childExited
    | s => throw s!"bad failure kind {s}"
  | [k, n] => do
    match (← asStr k) with
    | "start" => return .start (← asNat n)
    | "daemonLeft" => return .daemonLeft (← asNat n)
    | s => throw s!"bad failure kind {s}"
  | _ => throw "bad failure kind"

partial def parseMsg (j : Json) : Except String Msg := do
  let l ← asList j
  match l with
  | [] => throw "empty msg"
  | t :: args =>
    match (← asStr t), args with
    | "startEngine", [] => return .startEngine
    | "stopEngine", [] => return .stopEngine
    | "engineStarted", [] => return .engineStarted
    | "engineStopped", [] => return .engineStopped
    | "startNodes", [h, r] => return .startNodes (← asNat h) (← parseAid (← asStr r))
    | "nodesStarted", [] => return .nodesStarted
    | "stopNodes", [] => return .stopNodes
    | "nodesStopped", [] => return .nodesStopped
    | "failure", ks => return .failure (← parseFKind ks)
    | "exitReq", [] => return .exitReq
    | "childExited", [h] => return .childExited (← asNat h)
    | "conv", [a, ip] => return .conv (← asBool a) (← asNat ip)
    | "poison", [m] => return .poison (← parseMsg m)
    | "wakeup", [] => return .wakeup
    | s, _ => throw s!"bad msg {s}"

def callJson : Call → List Json
  | .mopen => [jS "mopen"]
  | .supply => [jS "supply"]
  | .prepare id => [jS "prepare", jN id]
  | .launch ids ok => [jS "launch", arr (ids.map jN), jB ok]
  | .lstop ids => [jS "lstop", arr (ids.map jN)]
  | .flush r => [jS "flush", jB r]
  | .store id => [jS "store", jN id]
  | .close => [jS "close"]
  | .cleanup id p => [jS "cleanup", jN id, jB p]

def outJson : Out → Json
  | .send a b m => arr [jS "send", jAid a, jAid b, msgJson m]
  | .recv a b m => arr [jS "recv", jAid a, jAid b, msgJson m]
  | .dead a b m => arr [jS "dead", jAid a, jAid b, msgJson m]
  | .call h c => arr (jS "call" :: jN h :: callJson c)
  | .createNode _ => arr [jS "createNode"]     -- anonymous on the wire: the address→group pairing is only observable at the first send
  | .createDisp => arr [jS "createDisp"]
  | .notify b => arr [jS "notify", jB b]
  | .wake a => arr [jS "wake", jAid a]
  | .exited a => arr [jS "exited", jAid a]

def parsePlan (j : Json) : Except String Plan :=
  match j with
  | Json.str "ok" => .ok .ok
  | Json.str "failEarly" => .ok .failEarly
  | Json.str "failSupply" => .ok .failSupply
  | Json.str "failLaunch" => .ok .failLaunch
  | _ => do
    let l ← asList j
    match l with
    | [t, n] => if (← asStr t) = "failPrepare" then return .failPrepare (← asNat n) else throw "bad plan"
    | _ => throw "bad plan"

def parseCfg (j : Json) : Except String Config := do
  let hs ← getArr j "hosts"
  let hosts ← hs.mapM (fun x => do
    let l ← asList x
    match l with
    | [a, b] => return ((← asNat a), (← asNat b))
    | _ => throw "bad host")
  let plans ← (← getArr j "plans").mapM parsePlan
  return { hosts := hosts, external := (← getBool j "external"), preserve := (← getBool j "preserve"),
           raceFound := (← getBool j "raceFound"), plans := plans, patched := (← getBool j "patched") }

inductive Ev where
  | ev (e : Event)
  | inject (src dst : Aid) (m : Msg)

def parseEv (j : Json) : Except String Ev := do
  let l ← asList j
  match l with
  | [] => throw "empty event"
  | t :: args =>
    match (← asStr t), args with
    | "rcStart", [] => return .ev .rcStart
    | "rcStop", [] => return .ev .rcStop
    | "conv", [a, ip] => return .ev (.sysConv (← asBool a) (← asNat ip))
    | "deliver", [a, b] => return .ev (.deliver (← parseAid (← asStr a)) (← parseAid (← asStr b)))
    | "timer", [h] =>
      match (← parseAid (← asStr h)) with
      | .node k => return .ev (.timer k)
      | _ => throw "timer: not a node actor"
    | "inject", [a, b, m] => return .inject (← parseAid (← asStr a)) (← parseAid (← asStr b)) (← parseMsg m)
    | s, _ => throw s!"bad event {s}"

def statusStr : Status → String
  | .none => "none" | .starting => "starting" | .clusterStarted => "cluster_started"
  | .clusterStopping => "cluster_stopping" | .clusterStopped => "cluster_stopped"

/-- the driver-only pseudo event `inject` puts a message into a channel (correspondence of
handler branches that the protocol never reaches; not part of `Mechanic.step`) -/
def stepEv (cfg : Config) (s : State) : Ev → Option (State × List Out)
  | .ev e => step cfg s e
  | .inject a b m => some ({ s with chan := push s.chan a b m }, [Out.send a b m])

def summary (cfg : Config) (s : State) (i : Nat) : List (String × Json) :=
  [("steps", jN i), ("status", jS (statusStr s.m.status)), ("received", jN s.m.received),
   ("children", arr (s.m.children.map (fun c => match c with | none => Json.null | some a => jAid a))),
   ("rc", arr [jN s.r.started, jN s.r.stopped, jN s.r.failures]),
   ("registered", jB s.d.registered),
   ("nodes", arr ((List.range (nHosts cfg)).map (fun h =>
      arr [jB (s.n h).created, jB (s.n h).alive, jB (s.n h).mech.isSome, jN (s.n h).timers])))]

/-- replay: compare the model's outputs with the observed ones event by event -/
def replay (cfg : Config) : State → Nat → List (Ev × Json) → Json
  | s, i, [] => Json.mkObj (("diverge", Json.null) :: summary cfg s i)
  | s, i, (e, obs) :: rest =>
    match stepEv cfg s e with
    | none => Json.mkObj (("diverge", Json.mkObj [("i", jN i), ("why", jS "event-not-enabled-in-model"), ("model", Json.null)]) :: summary cfg s i)
    | some (s1, outs) =>
      let mj := arr (outs.map outJson)
      if mj.compress == obs.compress then replay cfg s1 (i + 1) rest
      else Json.mkObj (("diverge", Json.mkObj [("i", jN i), ("why", jS "outputs-differ"), ("model", mj)]) :: summary cfg s i)

def groupsJson (cfg : Config) : Json :=
  arr ((groups cfg).map (fun g => arr [jN g.1.1, jN g.1.2, arr (g.2.map jN)]))

def handle (op : String) (a : Json) : Except String Json := do
  match op with
  | "groups" =>
    let cfg ← parseCfg (← a.getObjVal? "cfg")
    return ok (groupsJson cfg)
  | "replay" =>
    let cfg ← parseCfg (← a.getObjVal? "cfg")
    let hist ← getArr a "hist"
    let evs ← hist.mapM (fun x => do
      let e ← parseEv (← x.getObjVal? "e")
      let o ← x.getObjVal? "o"
      return (e, o))
    let r := replay cfg State.init 0 evs
    let tag := match r.getObjVal? "diverge" with
      | .ok Json.null => "agree"
      | _ => "diverge"
    return ok r [tag]
  | "run" =>
    -- model outputs for a list of events (no comparison); used by the exhaustive explorer of the harness
    let cfg ← parseCfg (← a.getObjVal? "cfg")
    let evs ← (← getArr a "events").mapM parseEv
    let rec go (s : State) (acc : List Json) : List Ev → Json
      | [] => Json.mkObj [("outs", arr acc.reverse), ("enabled", jB true)]
      | e :: es =>
        match stepEv cfg s e with
        | none => Json.mkObj [("outs", arr acc.reverse), ("enabled", jB false)]
        | some (s1, outs) => go s1 (arr (outs.map outJson) :: acc) es
    return ok (go State.init [] evs)
  | "launcher" =>
    -- ProcessLauncher model: n nodes of one host in installation directories 1..n; which node's own daemon does each
    -- returned node track, how many SIGTERM did each daemon get, which daemons still run after stop
    let n ← getNat a "n"
    let dirs := (List.range n).map (· + 1)
    let w0 : Launcher.World := ⟨0, fun _ => none, 100, [], []⟩
    let r := Launcher.startAll w0 dirs
    let w2 := Launcher.stopAll r.1 r.2
    let own : List Nat := dirs.map (fun d => (r.1.pidFile d).getD 0)
    let owners := r.2.map (fun nd => match own.idxOf? nd.2 with | some i => toJson i | none => Json.null)
    return ok (Json.mkObj [("owners", arr owners), ("terms", arr (own.map (fun p => jN (w2.terms.count p)))),
      ("running", arr (own.map (fun p => jB (w2.running.contains p))))])
  | "launcherStop" =>
    -- ProcessLauncher.start, then the daemons of the nodes listed in `dead` (0-based positions) disappear on their own,
    -- then ProcessLauncher.stop with a metrics store: per node how often meta data / system metrics were stored, which
    -- nodes are returned as stopped, SIGTERMs per daemon, daemons still running
    let n ← getNat a "n"
    let dead ← (← getArr a "dead").mapM asNat
    let dirs := (List.range n).map (· + 1)
    let w0 : Launcher.World := ⟨0, fun _ => none, 100, [], []⟩
    let r := Launcher.startAll w0 dirs
    let own : List Nat := dirs.map (fun d => (r.1.pidFile d).getD 0)
    let w1 := (dead.map (fun i => own.getD i 0)).foldl Launcher.die r.1
    let x := Launcher.stopAllT (w1, Launcher.Tele.empty) r.2
    return ok (Json.mkObj [("stored", arr (dirs.map (fun d => jN (x.2.stored.count d)))),
      ("meta", arr (dirs.map (fun d => jN (x.2.metaInfo.count d)))),
      ("stopped", arr (x.2.stopped.map (fun d => jN (d - 1)))),
      ("detached", arr (dirs.map (fun d => arr [jN (x.2.detachedRunning.count d), jN (x.2.detachedStopped.count d)]))),
      ("terms", arr (own.map (fun p => jN (x.1.terms.count p)))),
      ("running", arr (own.map (fun p => jB (x.1.running.contains p))))])
  | "dataPaths" =>
    -- ElasticsearchInstaller._data_paths: the car variable (form absent / str / list / other) -> data paths or SystemSetupError
    let path (j : Json) : Except String (List Nat) := do (← asList j).mapM asNat
    let home ← path (← a.getObjVal? "home")
    let form ← a.getObjValAs? String "form"
    let v : Cleanup.CarVar ← match form with
      | "absent" => pure Cleanup.CarVar.absent
      | "str" => do pure (Cleanup.CarVar.str (← path (← a.getObjVal? "value")))
      | "list" => do pure (Cleanup.CarVar.list (← (← getArr a "value").mapM path))
      | "other" => pure Cleanup.CarVar.other
      | f => throw s!"bad form {f}"
    match Cleanup.dataPathsOf home v with
    | some ds => return ok (arr (ds.map (fun p => arr (p.map jN)))) [form]
    | none => return err "SystemSetupError" [form]
  | "cleanup" =>
    -- provisioner.cleanup on a directory tree (paths = lists of component ids): what is left
    let preserve ← getBool a "preserve"
    let path (j : Json) : Except String (List Nat) := do (← asList j).mapM asNat
    let install ← path (← a.getObjVal? "install")
    let data ← (← getArr a "data").mapM path
    let fs ← (← getArr a "fs").mapM path
    let left := Cleanup.cleanup preserve install data fs
    return ok (arr (left.map (fun p => arr (p.map jN)))) [if preserve then "preserve" else "wipe"]
  | _ => throw s!"unknown op {op}"

end Drivers.Mechanic
