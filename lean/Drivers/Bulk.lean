import RallyModel.Bulk
import Drivers.Util
open Lean DUtil

namespace Drivers.Bulk
open _root_.Bulk

def errName : Err → String
  | .zeroDivision => "ZeroDivisionError"
  | .rallyError => "RallyError"
  | .indexError => "IndexError"
  | .assertion => "RallyAssertionError"
  | .noPartition => "IndexError"
  | .percentCompletedZeroDivision => "ZeroDivisionError:percent_completed"

def getRatList (j : Json) (k : String) : Except String (List Rat) := do
  let a ← j.getObjValAs? (Array String) k
  a.toList.mapM parseRat

def getNatList (j : Json) (k : String) : Except String (List Nat) := do
  let a ← j.getObjValAs? (Array Nat) k
  return a.toList

def getIntList (j : Json) : Except String (List Int) := do
  let a ← j.getArr?
  a.toList.mapM fun x => x.getInt?

/-- oracle from recorded draws; beyond the recording: rand → 2 (no conflict), randint → 0, randexp → 0,
    shuffle → identity -/
def getOracle (a : Json) : Except String Oracle := do
  match a.getObjVal? "oracle" with
  | .error _ => return ⟨fun _ => 2, fun _ _ => 0, fun _ => 0, fun _ l => l⟩
  | .ok o =>
    let rs ← getRatList o "rand"
    let is ← getNatList o "randint"
    let es ← getRatList o "randexp"
    let ss ← getArr o "shuffle"
    let ss ← ss.mapM getIntList
    let ra := rs.toArray
    let ia := is.toArray
    let ea := es.toArray
    let sa := ss.toArray
    return ⟨fun k => ra.getD k 2, fun k _ => ia.getD k 0, fun k => ea.getD k 0,
            fun k l => match sa[k]? with | some p => p | none => l⟩

def getConflicts (a : Json) : Except String Conflicts := do
  let s ← a.getObjValAs? String "conflicts"
  match s with
  | "none" => return .none
  | "sequential" => return .sequential
  | "random" => return .random
  | _ => throw s!"bad conflicts {s}"

def getCfg (a : Json) : Except String Cfg := do
  let batch ← getNat a "batch"
  let bulk ← getNat a "bulk"
  let c ← getConflicts a
  let prob ← getOptRat a "prob"
  let upd ← getBool a "on_update"
  let rec ← getOptRat a "recency"
  let pct ← getRat a "pct"
  let looped ← getBool a "looped"
  return ⟨batch, bulk, c, prob, upd, rec, pct, looped⟩

/-- file `k` has the line ids `k * 10^7 + i` -/
def base : Nat := 10000000

def getCorpora (a : Json) : Except String (List (Corpus Nat)) := do
  let cs ← getArr a "corpora"
  let mut out : List (Corpus Nat) := []
  let mut k := 0
  for c in cs do
    let ds ← c.getArr?
    let mut corpus : Corpus Nat := []
    for d in ds.toList do
      let nl ← getNat d "lines"
      let nd ← getNat d "docs"
      let m ← getBool d "meta"
      let s ← getBool d "ds"
      corpus := corpus ++ [⟨List.range' (k * base) nl, nd, m, s⟩]
      k := k + 1
    out := out ++ [corpus]
  return out

def actJson : Action → Json
  | .index => Json.str "index"
  | .update => Json.str "update"
  | .create => Json.str "create"

def optInt : Option Int → Json
  | none => Json.null
  | some i => toJson i

def itemJson : Item Nat → Json
  | .src a => toJson a
  | .am act id => arr [Json.str "m", actJson act, optInt id]
  | .upd a => arr [Json.str "u", toJson a]

def bulkJson (b : Bulk Nat) : Json := arr [toJson b.docs, arr (b.body.map itemJson)]

def cntJson (c : Cnt) : Json := arr [toJson c.r, toJson c.i, toJson c.e, toJson c.s]

def hexVal (c : Char) : Nat :=
  if '0' ≤ c ∧ c ≤ '9' then c.toNat - 48 else if 'a' ≤ c ∧ c ≤ 'f' then c.toNat - 87 else 0

def hexBytes : List Char → List Nat
  | a :: b :: rest => (hexVal a * 16 + hexVal b) :: hexBytes rest
  | _ => []

def getBytes (a : Json) (k : String) : Except String (List Nat) := do
  let s ← a.getObjValAs? String k
  return hexBytes s.toList

def hexDigit (n : Nat) : Char := if n < 10 then Char.ofNat (48 + n) else Char.ofNat (87 + n)
def toHex (bs : List Nat) : String := String.ofList (bs.flatMap fun b => [hexDigit (b / 16), hexDigit (b % 16)])

def pairJson (p : Nat × Nat) : Json := arr [toJson p.1, toJson p.2]

def kindOf (s : String) : Except String Kind :=
  match s with
  | "source_only" => .ok .sourceOnly
  | "fast_index" => .ok (.fast .index)
  | "fast_create" => .ok (.fast .create)
  | "regular" => .ok .regular
  | _ => .error s!"bad kind {s}"

def getGen (a : Json) : Except String Gen := do
  let ids ← match a.getObjVal? "ids" with
    | .ok Json.null => pure none
    | .ok v => (getIntList v).map some
    | .error _ => pure none
  let prob ← getOptRat a "prob"
  let upd ← getBool a "on_update"
  let rec ← getOptRat a "recency"
  let uc ← getBool a "use_create"
  return mkGen ids prob upd rec uc

/-- `steps` calls of `next()` on a GenerateActionMetaData -/
def genSteps (o : Oracle) : Nat → Gen → Cnt → List Json
  | 0, _, _ => []
  | k + 1, g, c =>
    match g.next o c with
    | .stop _ => [Json.str "StopIteration"]
    | .indexError _ => [Json.str "IndexError"]
    | .item act id conf g1 c1 => arr [actJson act, optInt id, toJson conf] :: genSteps o k g1 c1

def getOptBool (j : Json) (k : String) : Except String (Option Bool) :=
  match j.getObjVal? k with
  | .ok Json.null => .ok none
  | .ok (Json.bool b) => .ok (some b)
  | .ok _ => .error s!"field {k}: expected bool or null"
  | .error _ => .ok none

/-- the corpora of a track specification: per corpus {"meta", "idx", "ds", "docs": [{"lines", "docs", "meta", "idx", "ds"}]};
    a setting is null when its key is absent; index / data-stream names travel as positions in the declared lists -/
def getSpecs (a : Json) : Except String (List (CorpusSpec Nat)) := do
  let cs ← getArr a "specs"
  let mut out : List (CorpusSpec Nat) := []
  let mut k := 0
  for c in cs do
    let ds ← getArr c "docs"
    let mut docs : List (DocSpec Nat) := []
    for d in ds do
      let nl ← getNat d "lines"
      let nd ← getNat d "docs"
      let m ← getOptBool d "meta"
      let i ← getOptNat d "idx"
      let s ← getOptNat d "ds"
      docs := docs ++ [⟨List.range' (k * base) nl, nd, m, i, s⟩]
      k := k + 1
    let m ← getOptBool c "meta"
    let i ← getOptNat c "idx"
    let s ← getOptNat c "ds"
    out := out ++ [⟨m, i, s, docs⟩]
  return out

def handle (op : String) (a : Json) : Except String Json := do
  match op with
  | "bounds" =>
    let total ← getNat a "total"; let s ← getNat a "s"; let e ← getNat a "e"; let n ← getNat a "n"
    let m ← getBool a "meta"
    if n = 0 then return err "ZeroDivisionError"
    let b := bounds total s e n m
    return ok (arr [toJson b.1, toJson b.2.1, toJson b.2.2]) [if b.2.1 = 0 then "empty" else if b.2.1 < 0 then "negative" else "some"]
  | "number_of_bulks" =>
    let s ← getNat a "s"; let e ← getNat a "e"; let n ← getNat a "n"; let bulk ← getNat a "bulk"
    let pct ← getRat a "pct"
    let ds ← getArr a "docsets"
    let corpus ← ds.mapM fun d => do
      let nd ← getNat d "docs"; let m ← getBool d "meta"
      return (⟨[], nd, m, false⟩ : DocSet Nat)
    if n = 0 then return err "ZeroDivisionError"
    if bulk = 0 then return err "ZeroDivisionError"
    let all := numberOfBulks [corpus] s e n bulk
    return ok (arr [toJson all, toJson (totalBulksOf all pct)])
  | "total_bulks" =>
    let all ← getInt a "all"; let pct ← getRat a "pct"
    return ok (toJson (totalBulksOf all pct))
  | "gen" =>
    let g ← getGen a
    let o ← getOracle a
    let steps ← getNat a "steps"
    return ok (arr (genSteps o steps g ⟨0, 0, 0, 0⟩))
  | "ids" =>
    let c ← getConflicts a
    let n ← getInt a "docs"; let off ← getInt a "offset"
    let o ← getOracle a
    match buildConflictingIds c n off (o.shuffle 0) with
    | none => return ok Json.null
    | some l => return ok (arr (l.map toJson))
  | "reader" =>
    -- a single reader on a file of `lines` lines: Slice(offset, number_of_lines) + one of the readers
    let nl ← getNat a "lines"; let off ← getNat a "offset"; let cnt ← getNat a "count"
    let bulk ← getNat a "bulk"; let batch ← getNat a "batch"
    let ks ← a.getObjValAs? String "kind"
    let k ← kindOf ks
    let g ← getGen a
    let o ← getOracle a
    let lineBulk := if k = .sourceOnly then bulk * 2 else bulk
    let sl : Slice Nat := ⟨(List.range nl).drop off, cnt, 0, lineBulk⟩
    let r := readerBulks o k batch (cnt + 1) ⟨sl, g, ⟨0, 0, 0, 0⟩, false⟩
    if r.2.crashed then return err "IndexError"
    return ok (Json.mkObj [("bulks", arr (r.1.map bulkJson)), ("cnt", cntJson r.2.cnt)])
      [ks, if r.1.isEmpty then "no-bulks" else if r.1.length = 1 then "one-bulk" else "many-bulks"]
  | "worker" =>
    let cfg ← getCfg a
    let corpora ← getCorpora a
    let o ← getOracle a
    let n ← getNat a "n"
    let parts ← getNatList a "partitions"
    let calls ← getNatList a "calls"
    match partitionAll n parts (PState.init : PState Nat) with
    | .error e => return err (errName e)
    | .ok p0 =>
      match runCalls o cfg corpora calls p0 [] with
      | .error e => return err (errName e)
      | .ok (out, stopped, p) =>
        let tags := [if out.isEmpty then "no-bulks" else "bulks",
                     if p.internal.isEmpty then "drained" else "left-over",
                     if (p.currentBulk : Int) = p.totalBulks then "at-total" else "below-total"]
        return ok (Json.mkObj [("out", arr (out.map fun cb => arr [toJson cb.1, bulkJson cb.2])),
                               ("stopped", arr (stopped.map toJson)),
                               ("total_bulks", toJson p.totalBulks),
                               ("current_bulk", toJson p.currentBulk),
                               ("cnt", cntJson p.cnt)]) tags
  | "group" =>
    -- the co-located clients of one task as TaskAllocations [client_index_in_task, task.clients, total_clients, global index]
    let cfg ← getCfg a
    let corpora ← getCorpora a
    let o ← getOracle a
    let rows ← getArr a "entries"
    let entries ← rows.mapM fun r => do
      let xs ← r.getArr?
      match xs.toList with
      | [i, c, t, g] => do
        let i ← i.getNat?; let c ← c.getNat?; let t ← t.getNat?; let g ← g.getNat?
        pure (Alloc.Entry.task ⟨0, c, false, false⟩ i g t)
      | _ => throw "bad entry"
    let calls ← getNatList a "calls"
    match partitionEntries entries (PState.init : PState Nat) with
    | .error e => return err (errName e)
    | .ok p0 =>
      match runCalls o cfg corpora calls p0 [] with
      | .error e => return err (errName e)
      | .ok (out, stopped, p) =>
        return ok (Json.mkObj [("out", arr (out.map fun cb => arr [toJson cb.1, bulkJson cb.2])),
                               ("stopped", arr (stopped.map toJson)),
                               ("total_bulks", toJson p.totalBulks),
                               ("current_bulk", toJson p.currentBulk)])
          [if out.isEmpty then "no-bulks" else "bulks",
           if entries.any (fun en => match en with | .task s _ _ t => s.clients != t | _ => false) then "inside-parallel" else "own-element"]
  | "columns" =>
    -- Worker.drive + AsyncIoAdapter.run for the leaf task `task`: the columns of a worker's allocation, each with ALL its
    -- allocations of tasks that use the same bulk operation ([task id, client_index_in_task, task.clients, total_clients, global])
    let cfg ← getCfg a
    let corpora ← getCorpora a
    let o ← getOracle a
    let t ← getNat a "task"
    let cs ← getArr a "columns"
    let cols ← cs.mapM fun col => do
      let rows ← getArr col "entries"
      let entries ← rows.mapM fun r => do
        let xs ← r.getArr?
        match xs.toList with
        | [tid, i, c, tot, g] => do
          let tid ← tid.getNat?; let i ← i.getNat?; let c ← c.getNat?; let tot ← tot.getNat?; let g ← g.getNat?
          pure (Alloc.Entry.task ⟨tid, c, false, false⟩ i g tot)
        | _ => throw "bad entry"
      let calls ← getNatList col "calls"
      pure (entries, fun (_ : Nat) => calls)
    match runTaskColumns o cfg corpora t cols with
    | .error e => return err (errName e)
    | .ok outs =>
      return ok (arr (outs.map fun res => Json.mkObj [("out", arr (res.1.map fun cb => arr [toJson cb.1, bulkJson cb.2])),
                                                       ("stopped", arr (res.2.map toJson))]))
        [if cols.length > 1 then "several-columns" else "one-column",
         if cols.any (fun col => col.1.any (fun en => match en with | .task s _ _ _ => s.id != t | _ => false)) then "operation-shared-in-column" else "operation-not-shared",
         if cols.any (fun col => col.1.any (fun en => match en with | .task s _ _ tot => s.clients != tot | _ => false)) then "inside-parallel" else "own-element"]
  | "spec" =>
    -- TrackSpecificationReader._create_corpora: what the document sets of a track specification are loaded as
    let specs ← getSpecs a
    let indices ← getNatList a "indices"
    let streams ← getNatList a "streams"
    match resolveCorpora indices streams specs with
    | none => return err "TrackSyntaxError"
    | some corpora =>
      let overridden := specs.any fun c => c.documents.any fun d => d.withMeta.isSome && c.withMeta.isSome && d.withMeta != c.withMeta
      let falseUnderTrue := specs.any fun c => c.documents.any fun d => d.withMeta == some false && c.withMeta == some true
      let inherited := specs.any fun c => c.documents.any fun d => d.withMeta.isNone && c.withMeta.isSome
      return ok (arr (corpora.map fun c => arr (c.map fun d => Json.mkObj [("meta", toJson d.withMeta), ("ds", toJson d.dataStream),
                                                                            ("docs", toJson d.numDocs), ("lines", toJson d.lines.length)])))
        [if falseUnderTrue then "doc-false-under-corpus-true" else if overridden then "doc-true-under-corpus-false" else "no-override",
         if inherited then "inherits-corpus-level" else "nothing-inherited",
         if streams.isEmpty then (if indices.length = 1 then "one-index" else if indices.isEmpty then "no-targets" else "several-indices")
         else (if streams.length = 1 then "one-data-stream" else "several-data-streams")]
  | "table" =>
    let bs ← getBytes a "bytes"; let every ← getNat a "every"
    let r := prepareOffsetTable every bs
    return ok (Json.mkObj [("table", arr (r.1.map pairJson)), ("lines", toJson r.2)])
  | "skip" =>
    let bs ← getBytes a "bytes"; let n ← getNat a "n"
    let tbl ← match a.getObjVal? "table" with
      | .ok Json.null => pure none
      | .error _ => pure none
      | .ok v => do
        let rows ← v.getArr?
        let rows ← rows.toList.mapM fun r => do
          let xs ← r.getArr?
          match xs.toList with
          | [x, y] => do let x ← x.getNat?; let y ← y.getNat?; pure (x, y)
          | _ => throw "bad table row"
        pure (some rows)
    let src := skipLines tbl bs n
    let k ← getNat a "read"
    let r := src.readlines k
    return ok (Json.mkObj [("pos", toJson src.pos), ("lines", arr (r.1.map fun l => Json.str (toHex l))), ("pos_after", toJson r.2.pos)])
      [if tbl.isSome then "table" else "linear"]
  | "split" =>
    let bs ← getBytes a "bytes"
    return ok (arr ((splitLines bs).map fun l => Json.str (toHex l)))
  | _ => throw s!"unknown op {op}"

end Drivers.Bulk
