import RallyModel.SubTimings
import Drivers.Util
open Lean DUtil

namespace Drivers.SubTimings
open _root_.SubTimings

/-- `{"name": str|null, "type": str|null, "abs": q, "start": q|null, "end": q|null}`: what RequestTiming sees -/
def parseRec (j : Json) : Except String (Except Err TimingRec) := do
  return mkRec (← getOptStr j "name") (← getOptStr j "type") (← getRat j "abs") (← getOptRat j "start") (← getOptRat j "end")

def parseSmp (j : Json) : Except String (Except Err Smp) := do
  let deps ← match j.getObjVal? "deps" with
    | .ok Json.null => pure (Except.ok none)
    | .ok v => do
      let a ← v.getArr?
      let rs ← a.toList.mapM parseRec
      pure ((rs.mapM id).map some)
    | .error _ => pure (Except.ok none)
  let client ← getNat j "client"
  let taskStart ← getRat j "task_start"
  let taskOp ← getStr j "task_op"
  let taskType ← getStr j "task_type"
  let absT ← getRat j "abs"
  let start ← getRat j "start"
  let svc ← getRat j "svc"
  return deps.map (fun d => ⟨client, taskStart, taskOp, taskType, absT, start, svc, d⟩)

def errName : Err → String
  | .typeError => "TypeError"
  | .zeroDivision => "ZeroDivisionError"

def docJson (d : Doc) : Json :=
  Json.mkObj [("client", toJson d.client), ("sub", toJson d.sub), ("operation", str d.operation), ("type", str d.opType),
              ("value", ratStr d.valueMs), ("abs", ratStr d.absTime), ("rel", ratStr d.relTime)]

def handle (op : String) (a : Json) : Except String Json := do
  match op with
  | "store" =>
    let factor ← getNat a "factor"
    let ss ← (← getArr a "samples").mapM parseSmp
    match ss.mapM id with
    | .error e => return err (errName e) ["record"]
    | .ok smps =>
      match postprocess factor smps with
      | .error e => return err (errName e) ["store"]
      | .ok docs =>
        let nsub := (docs.filter (·.sub)).length
        let fb := smps.any (fun s => match s.deps with
          | some l => l.any (fun r => orElse r.operation [] == [] || orElse r.opType [] == [])
          | none => false)
        return ok (arr (docs.map docJson))
          [if factor == 1 then "all-kept" else "downsampled", if nsub == 0 then "no-sub" else "sub",
           if fb then "fallback-name" else "own-names",
           if (kept factor smps).length == smps.length then "kept-all" else "dropped-some"]
  | "record" =>
    match ← parseRec a with
    | .error e => return err (errName e) ["record"]
    | .ok r => return ok (Json.mkObj [("svc", ratStr r.svc)]) ["record"]
  | _ => throw s!"unknown op {op}"

end Drivers.SubTimings
