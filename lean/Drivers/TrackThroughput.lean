import RallyModel.TrackThroughput
import Drivers.Util
open Lean DUtil

/-! Line-protocol handler for `Task.target_throughput` (model key `trackthroughput`). -/
namespace Drivers.TrackThroughput
open _root_.TrackThroughput

abbrev D := Except String

def ascii (s : Str) : Bool := s.all (fun c => c.toNat < 128)

def decJV (j : Json) : D JV := do
  let k ← j.getObjValAs? String "k"
  match k with
  | "null" => pure JV.null
  | "bool" => pure (JV.bool (← getBool j "v"))
  | "int" =>
    let s ← j.getObjValAs? String "v"
    match s.toInt? with
    | some i => pure (JV.int i)
    | none => throw "bad int"
  | "float" => pure (JV.float (← getRat j "v"))
  | "str" =>
    let s ← getStr j "v"
    if ascii s then pure (JV.str s) else throw "out-of-domain: non-ASCII"
  | "other" => pure (JV.other (← getBool j "v"))
  | _ => throw s!"bad kind {k}"

def handle (op : String) (a : Json) : Except String Json := do
  match op with
  | "match" =>
    let s ← getStr a "s"
    if !ascii s then throw "out-of-domain: non-ASCII"
    match matchThroughput s with
    | some m =>
      let tag := if m.intPart.isEmpty then "no-int-part" else if m.fracPart.isSome then "fraction" else "integer"
      return ok (arr [str m.intPart, optStr m.fracPart, str m.unit, ratStr m.decimal]) [tag]
    | none => return err "NoMatch"
  | "target" =>
    let tt ← decJV (← a.getObjVal? "tt")
    let ti ← decJV (← a.getObjVal? "ti")
    match targetThroughput tt ti with
    | .error _ => return err "InvalidSyntax"
    | .ok none => return ok Json.null ["unthrottled"]
    | .ok (some (v, u)) =>
      if !Dbl.inRange v then throw "out-of-range" else
      return ok (arr [ratStr v, str u]) ["throttled"]
  | _ => throw s!"unknown op {op}"

end Drivers.TrackThroughput
