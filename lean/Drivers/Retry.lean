import RallyModel.Retry
import Drivers.Util
open Lean DUtil

namespace Drivers.Retry
open _root_.Retry

def kindOf : String → Except String Kind
  | "dictOk" => .ok .dictOk
  | "dictFail" => .ok .dictFail
  | "nonDict" => .ok .nonDict
  | "sockTimeout" => .ok .sockTimeout
  | "connError" => .ok .connError
  | "connTimeout" => .ok .connTimeout
  | "api408" => .ok .api408
  | "apiOther" => .ok .apiOther
  | "transportOther" => .ok .transportOther
  | "otherExc" => .ok .otherExc
  | s => .error s!"unknown outcome kind {s}"

def kindName : Kind → String
  | .dictOk => "dictOk"
  | .dictFail => "dictFail"
  | .nonDict => "nonDict"
  | .sockTimeout => "sockTimeout"
  | .connError => "connError"
  | .connTimeout => "connTimeout"
  | .api408 => "api408"
  | .apiOther => "apiOther"
  | .transportOther => "transportOther"
  | .otherExc => "otherExc"

def stepName : Step → String
  | .ret => "ret"
  | .raise => "raise"
  | .retrySleep => "retrySleep"

def getOptBool (j : Json) (k : String) : Except String (Option Bool) :=
  match j.getObjVal? k with
  | .ok Json.null => .ok none
  | .ok (Json.bool b) => .ok (some b)
  | .ok _ => .error s!"field {k}: expected bool or null"
  | .error _ => .ok none

def getOptInt (j : Json) (k : String) : Except String (Option Int) :=
  match j.getObjVal? k with
  | .ok Json.null => .ok none
  | .ok v => (v.getInt?).map some
  | .error _ => .ok none

def getParams (a : Json) : Except String Params := do
  let ctor ← getBool a "ctor"
  let us ← getOptBool a "until"
  let retries ← getOptInt a "retries"
  let onErr ← getOptBool a "on_error"
  let wait ← getOptRat a "wait"
  let onTo ← getOptBool a "on_timeout"
  return { ctorUntilSuccess := ctor, untilSuccess := us, retries := retries, retryOnError := onErr,
           wait := wait, retryOnTimeout := onTo }

def getOuts (a : Json) : Except String (List Outcome) := do
  let ks ← a.getObjValAs? (Array String) "outs"
  let kinds ← ks.toList.mapM kindOf
  return kinds.zipIdx.map (fun (k, i) => ⟨k, i⟩)

def resJson : Res → Json
  | .returned o => arr [Json.str "returned", toJson o.tag]
  | .raised o => arr [Json.str "raised", toJson o.tag]
  | .fellThrough => arr [Json.str "fell"]
  | .pending => arr [Json.str "pending"]

def evJson : Ev → Json
  | .call => Json.str "c"
  | .sleep d => ratStr d

/-- branch tags: which (outcome class, step) pairs the run went through, and last-attempt / exhausted flags -/
def stepTags (c : Cfg) (outs : List Outcome) (calls : Nat) : List String :=
  let used := outs.take calls
  let ts := used.zipIdx.map (fun (o, i) => s!"{kindName o.kind}:{stepName (classify c (i + 1 == c.maxAttempts) o.kind)}")
  ts.eraseDups

def runJson (c : Cfg) (outs : List Outcome) (r : Run) : Json :=
  let tags := stepTags c outs r.calls ++ (if r.calls == c.maxAttempts then ["at-last-attempt"] else [])
  ok (Json.mkObj [("res", resJson r.res), ("trace", arr (r.trace.map evJson)),
                  ("calls", toJson r.calls), ("max", toJson c.maxAttempts)]) tags

/-- a key of an observed update: absent = untouched, null = deleted, value = set -/
def updField {α} (j : Json) (k : String) (conv : Json → Except String α) : Except String (Option (Option α)) :=
  match j.getObjVal? k with
  | .error _ => .ok none
  | .ok Json.null => .ok (some none)
  | .ok v => (conv v).map (fun x => some (some x))

def getUpdate (j : Json) : Except String Update := do
  let us ← updField j "until" (fun v => v.getBool?)
  let retries ← updField j "retries" (fun v => v.getInt?)
  let onErr ← updField j "on_error" (fun v => v.getBool?)
  let wait ← updField j "wait" (fun v => do let s ← v.getStr?; parseRat s)
  let onTo ← updField j "on_timeout" (fun v => v.getBool?)
  return ⟨us, retries, onErr, wait, onTo⟩

def getAttempt (idx : Nat) (j : Json) : Except String Attempt := do
  let k ← j.getObjValAs? String "k"
  let kind ← kindOf k
  let u ← match j.getObjVal? "upd" with
    | .ok Json.null => pure (Update.mk none none none none none)
    | .ok v => getUpdate v
    | .error _ => pure (Update.mk none none none none none)
  return ⟨⟨kind, idx⟩, u.apply⟩

/-- a raw product on the wire: `{"t":"value","dict":b,"success":null|b,"what":n}` or
    `{"t":"exc","sock":b,"conn":b,"api":b,"cto":b,"transport":b,"status":n,"what":n}` -/
def getRaw (j : Json) : Except String Raw := do
  let t ← j.getObjValAs? String "t"
  let what ← j.getObjValAs? Nat "what"
  match t with
  | "value" =>
    let d ← getBool j "dict"
    let s ← getOptBool j "success"
    return .value d s what
  | "exc" =>
    let f : Facts := ⟨← getBool j "sock", ← getBool j "conn", ← getBool j "api", ← getBool j "cto", ← getBool j "transport"⟩
    let st ← j.getObjValAs? Nat "status"
    return .exc f st what
  | _ => throw s!"unknown raw product {t}"

def handle (op : String) (a : Json) : Except String Json := do
  match op with
  | "run_raw" =>
    let p ← getParams a
    let rj ← getArr a "raws"
    let raws ← rj.mapM getRaw
    let rs := raws.zipIdx
    let outs := rawOutcomes rs
    let r := retryRaw p rs
    let tags := stepTags (cfg p) outs r.calls ++ (if r.calls == (cfg p).maxAttempts then ["at-last-attempt"] else [])
    return ok (Json.mkObj [("res", resJson r.res), ("trace", arr (r.trace.map evJson)), ("calls", toJson r.calls),
                           ("kinds", arr (outs.map (fun o => Json.str (kindName o.kind))))]) tags
  | "run" =>
    let p ← getParams a
    let outs ← getOuts a
    return runJson (cfg p) outs (retry p outs)
  | "registered" =>
    let p ← getParams a
    let outs ← getOuts a
    let wrapped ← getBool a "wrapped"
    let us ← getBool a "reg_until"
    let r := runRegistered wrapped us p outs
    return runJson (cfg { p with ctorUntilSuccess := us }) outs r
  | "task" =>
    let p ← getParams a
    let wrapped ← getBool a "wrapped"
    let us ← getBool a "reg_until"
    let shared ← getBool a "shared"
    let invsJ ← getArr a "invocations"
    let invs ← invsJ.mapM (fun ij => do
      let atts ← ij.getArr?
      atts.toList.zipIdx.mapM (fun (aj, i) => getAttempt i aj))
    let runs := runTask wrapped us shared p invs
    return ok (arr (runs.map (fun r => Json.mkObj [("res", resJson r.res), ("trace", arr (r.trace.map evJson)), ("calls", toJson r.calls)])))
  | _ => throw s!"unknown op {op}"

end Drivers.Retry
