import RallyModel.Alloc
import Drivers.Util
open Lean DUtil

namespace Drivers.Alloc
open _root_.Alloc

def parseSub (j : Json) : Except String Sub := do
  return ⟨← getNat j "id", ← getNat j "clients", ← getBool j "cp", ← getBool j "acp"⟩

def parseElement (j : Json) : Except String Element := do
  let ov ← getOptNat j "clients"
  let ts ← (← getArr j "tasks").mapM parseSub
  return ⟨ov, ts⟩

def natArr (xs : List Nat) : Json := arr (xs.map (fun n => toJson n))

def entryJson : Entry → Json
  | .join id c a => arr [Json.str "J", toJson id, natArr c, natArr a]
  | .task s i g t => arr [Json.str "T", toJson s.id, toJson i, toJson g, toJson t]
  | .none => Json.null

def handle (op : String) (a : Json) : Except String Json := do
  match op with
  | "allocate" =>
    let sched ← (← getArr a "schedule").mapM parseElement
    let m := maxClients sched
    let rows := allocations sched
    let tags := (if sched.any (fun e => e.total = 0) then ["empty-element"] else []) ++
      (if sched.any (fun e => e.total > m) then ["overcommit"] else []) ++
      (if sched.any (fun e => e.total % m > 0) then ["padding"] else []) ++
      (if sched.any (fun e => e.clientsOverride.isSome) then ["override"] else []) ++
      (if sched.any (fun e => e.tasks.any (·.completesParent)) then ["completed-by"] else []) ++
      (if sched.any (fun e => e.tasks.any (·.anyCompletes)) then ["any"] else [])
    return ok (Json.mkObj [
      ("clients", toJson m),
      ("rows", arr (rows.map fun r => arr (r.map entryJson))),
      ("steps", toJson (numberOfSteps sched)),
      ("join_points", toJson (joinPoints sched).length),
      ("tasks_per_joinpoint", arr ((tasksPerJoinpoint sched).map fun ts => natArr (ts.map (·.id)))),
      ("tasks_per_joinpoint_pinned", arr ((tasksPerJoinpointPinned sched).map fun ts => natArr (ts.map (·.id))))]) tags
  | "assign" =>
    let hosts ← (← getArr a "hosts").mapM fun h => do
      return (⟨← getNat h "name", ← getNat h "cores"⟩ : Host)
    let n ← getNat a "n"
    if hosts.isEmpty then return err "ZeroDivisionError"
    if hosts.any (fun h => h.cores = 0) && n > 0 then
      -- `c % workers_on_this_host` with 0 cores: only reached if that host gets a client
      let per := ceilDiv n hosts.length
      let rec firstBad : List Host → Nat → Bool
        | [], _ => false
        | h :: hs, rem => if min per rem > 0 && h.cores = 0 then true else firstBad hs (rem - min per rem)
      if firstBad hosts n then return err "ZeroDivisionError"
    let r := assign hosts n
    return ok (arr (r.map fun (h, ws) => arr [toJson h, arr (ws.map natArr)]))
      [if n % hosts.length = 0 then "even" else "uneven", if n < hosts.length then "fewer-clients-than-hosts" else "enough"]
  | _ => throw s!"unknown op {op}"

end Drivers.Alloc
