import RallyModel.Exec
import RallyModel.Dbl
import Drivers.Util
open Lean DUtil

namespace Drivers.Exec
open _root_.Exec

def inDomain (s : List Char) : Bool := s.all (fun c => c.toNat < 128)

def getObj (j : Json) (k : String) : Except String Json := j.getObjVal? k

def isNull (j : Json) (k : String) : Bool :=
  match j.getObjVal? k with
  | .ok Json.null => true
  | .ok _ => false
  | .error _ => true

/-- null | {"int": n} | {"float": "n/d"} -/
def getNum (j : Json) (k : String) : Except String (Option Rat) :=
  if isNull j k then .ok none else do
    let o ← getObj j k
    match o.getObjVal? "int" with
    | .ok v => let i ← v.getInt?; return some (i : Rat)
    | .error _ => let q ← getRat o "float"; return some q

def getOptBool (j : Json) (k : String) : Except String (Option Bool) :=
  if isNull j k then .ok none else do
    let b ← getBool j k
    return some b

def getPVal (j : Json) (k : String) : Except String PVal :=
  if isNull j k then .ok .none else do
    let o ← getObj j k
    let kind ← o.getObjValAs? String "kind"
    match kind with
    | "str" => let s ← getStr o "s"; if !inDomain s then throw "out-of-domain" else return .str s
    | "int" => let s ← o.getObjValAs? String "v" <|> (do let i ← getInt o "v"; pure (toString i))
               match s.toInt? with
               | some i => return .int i
               | none => throw "bad int"
    | "float" => let q ← getRat o "q"; return .float q
    | "bool" => let b ← getBool o "b"; return .bool b
    | "list" => let n ← getNat o "n"; return .other (n != 0)
    | _ => throw s!"bad pval kind {kind}"

def getTput (task : Json) : Except String (PVal × PVal) :=
  if isNull task "tput" then .ok (.none, .none) else do
    let o ← getObj task "tput"
    let tt ← getPVal o "tt"
    let ti ← getPVal o "ti"
    return (tt, ti)

def getOutcome (o : Json) : Except String Outcome := do
  let k ← o.getObjValAs? String "k"
  match k with
  | "tuple" => let w ← getNat o "w"; let u ← getStr o "unit"; return .tuple w u
  | "dict" =>
    let w ← getOptNat o "w"
    let u ← getOptStr o "unit"
    let s ← getOptBool o "success"
    let tp ← getOptRat o "tput"
    let et ← getOptStr o "etype"
    return .dict w u s tp et
  | "none" => return .other
  | "transport" => let st ← getOptNat o "status"; return .transportErr st
  | "connection" => return .connectionErr
  | "timeout" => return .connectionTimeout
  | "tls" => return .tlsErr
  | "api" => let st ← getNat o "status"; return .apiErr st
  | "key" => return .keyErr
  | "value" => return .otherExc
  | _ => throw s!"bad outcome {k}"

def isWire : Tok → Bool
  | .wire _ _ _ => true
  | .par _ => true
  | _ => false
def isFail : Tok → Bool
  | .wire _ _ true => true
  | .par ss => ss.any (fun st => st.any (·.2))
  | _ => false
def isPar : Tok → Bool
  | .par _ => true
  | _ => false

def getTok (j : Json) : Except String Tok := do
  let t ← j.getObjValAs? String "t"
  match t with
  | "enter" => return .enter
  | "exit" => return .exit
  | "wire" => return .wire (← getRat j "gap") (← getRat j "service") (← getBool j "fails")
  | "par" =>
    let ss ← (← getArr j "streams").mapM (fun st => do
      let ws ← st.getArr?
      ws.toList.mapM (fun w => do return ((← getRat w "service"), (← getBool w "fails"))))
    -- a failing wire request next to concurrently running sibling streams (cancellation of in-flight requests) is C18's subject
    if ss.length > 1 && ss.any (fun st => st.any (·.2)) then throw "out-of-domain: failing wire request in one of several concurrent streams"
    return .par ss
  | _ => throw s!"bad token {t}"

def raisesOutcome : Outcome → Bool
  | .tuple _ _ => false
  | .dict _ _ _ _ _ => false
  | .other => false
  | _ => true

/-- `prog` (list of tokens) or, for a plain request, `pre` + `service` = one wire request in the executor's context -/
def getReq (j : Json) : Except String Req := do
  let gen ← getRat j "gen"
  let post ← getRat j "post"
  let draw ← getRat j "draw"
  let out ← getOutcome (← getObj j "out")
  let rc ← getOptBool j "rc"
  let rp ← getOptRat j "rp"
  let sp ← getOptRat j "sp"
  let prog ← match j.getObjVal? "prog" with
    | .ok (Json.arr ts) => ts.toList.mapM getTok
    | _ => do
      let pre ← getRat j "pre"
      let service ← getRat j "service"
      pure [Tok.wire pre service false]
  if !balanced prog 0 then throw "out-of-domain: unbalanced request program"
  if prog.any isFail && !raisesOutcome out then
    throw "out-of-domain: failing wire request without an exception outcome"
  return { gen, prog, post, draw, out, rc, rp, sp }

def getMode (a : Json) : Except String (Rat → Rat) := do
  let m ← a.getObjValAs? String "mode"
  match m with
  | "exact" => return id
  | "dbl" => return Dbl.fl
  | _ => throw s!"bad mode {m}"

def errName : Err → String
  | .invalidSyntax => "InvalidSyntax"
  | .noScheduler => "NoScheduler"
  | .zeroDivision => "raised:ZeroDivisionError"

def causeName : Cause → String
  | .assertion => "assertion"
  | .setup => "setup"
  | .unitMismatch => "unit-mismatch"
  | .other => "other"
  | .zeroDivision => "zero-division"
  | .noTimestamps => "no-timestamps"

def stopName : Stop → String
  | .loopDone => "loop-done"
  | .sourceExhausted => "source-exhausted"
  | .cancelled => "cancelled"
  | .completed => "completed"
  | .raised c => "raised-" ++ causeName c

def resultName : Stop → String
  | .raised c => "RallyError:" ++ causeName c
  | _ => "ok"

def optBool : Option Bool → Json
  | none => Json.null
  | some b => toJson b

def sampleJson (s : Sample) : Json :=
  Json.mkObj [
    ("client", toJson s.client), ("warmup", toJson s.warmup), ("abs", ratStr s.absTime), ("start", ratStr s.reqStart),
    ("latency", ratStr s.latency), ("service", ratStr s.service), ("processing", ratStr s.processing),
    ("tput", optRat s.throughput), ("ops", toJson s.ops), ("unit", str s.unit), ("period", ratStr s.timePeriod),
    ("progress", optRat s.progress), ("success", toJson s.success), ("etype", optStr s.errorType),
    ("status", optNat s.httpStatus)]

def loopTag : _root_.Exec.Loop → String
  | .iter _ (some _) _ => "iter"
  | .iter _ none _ => "iter-infinite"
  | .time _ (some _) _ _ => "time"
  | .time _ none _ _ => "time-infinite"

def innerTag : Inner → String
  | .unthrottled => "unthrottled"
  | .det _ => "det"
  | .poi _ => "poi"

/-- shape of the request programs that were actually executed (the first `n` of the plan) -/
def progTags (reqs : List Req) (n : Nat) : List String :=
  let rs := reqs.take n
  (if rs.any (fun q => q.prog.contains Tok.enter) then ["nested"] else [])
  ++ (if rs.any (fun q => (q.prog.filter isWire).length > 1) then ["multi-wire"] else [])
  ++ (if rs.any (fun q => match q.prog.filter isWire with | t :: _ => isFail t | [] => false) then ["fail-first-wire"] else [])
  ++ (if rs.any (fun q => match q.prog.filter isWire with | _ :: ts => ts.any isFail | [] => false) then ["fail-later-wire"] else [])
  ++ (if rs.any (fun q => (q.prog.filter isWire).isEmpty) then ["no-wire"] else [])
  ++ (if rs.any (fun q => q.prog.any isPar) then ["streams"] else [])
  ++ (if rs.any (fun q => q.prog.any (fun t => match t with | .par ss => ss.length > 1 | _ => false)) then ["concurrent"] else [])
  ++ (if rs.any (fun q => match q.prog.filter isWire with | t :: _ => isPar t | [] => false) then ["first-send-in-stream"] else [])
  ++ (if rs.any (fun q => match (q.prog.filter isWire).getLast? with | some t => isPar t | none => false) then ["last-response-in-stream"] else [])
  ++ (if rs.any (fun q => !(q.prog.filter isWire).isEmpty && (q.prog.filter isWire).all isPar) then ["all-in-streams"] else [])

def runTags (c : Cfg) (f : Final) (cap : Nat) : List String :=
  let o := f.out
  let recs := o.recs
  let waited := recs.any (fun x => x.throttled && decide (x.procStart ≥ c.r (c.t0 + x.tup.sched)) && decide (c.r (c.t0 + x.tup.sched) > c.t0))
  let late := recs.any (fun x => x.throttled && decide (x.reqStart > c.r (c.t0 + x.tup.sched)))
  let lastInner := match recs.getLast? with | some x => innerTag x.innerAfter | none => "none"
  [ "loop:" ++ loopTag f.loop0, "stop:" ++ stopName o.stop, "inner:" ++ lastInner ]
  ++ (if recs.any (·.throttled) then ["throttled"] else [])
  ++ (if waited then ["waited"] else [])
  ++ (if late then ["behind"] else [])
  ++ (if f.rampWait > 0 then ["ramp"] else [])
  ++ (if recs.length > cap then ["queue-drop"] else [])
  ++ (if recs.any (fun x => x.sample.warmup) && recs.any (fun x => !x.sample.warmup) then ["warmup+normal"] else [])
  ++ (if recs.any (fun x => !x.sample.success) then ["errors"] else [])
  ++ (if f.completeSet then ["complete-set"] else [])

def parseSub (j : Json) : Except String Alloc.Sub := do
  return ⟨← getNat j "id", ← getNat j "clients", ← getBool j "cp", ← getBool j "acp"⟩

def parseElement (j : Json) : Except String Alloc.Element := do
  let ov ← getOptNat j "clients"
  let ts ← (← getArr j "tasks").mapM parseSub
  return ⟨ov, ts⟩

def getTaskOp (j : Json) : Except String TaskOp :=
  match j with
  | Json.str "read" => pure .readThroughput
  | Json.str "test_mode" => pure .testMode
  | _ =>
    match j.getObjVal? "set_tt" with
    | .ok _ => do return .setThroughput (← getPVal j "set_tt")
    | .error _ => do return .setInterval (← getPVal j "set_ti")

def getJVal (j : Json) (k : String) : Except String JVal :=
  match j.getObjVal? k with
  | .error _ => pure .absent
  | .ok Json.null => pure .null
  | .ok _ => do
    match ← getNum j k with
    | some q => pure (.num q)
    | none => pure .null

def getLoopSpec (j : Json) : Except String LoopSpec := do
  return ⟨← getJVal j "warmup-iterations", ← getJVal j "iterations", ← getJVal j "warmup-time-period", ← getJVal j "time-period",
    ← getJVal j "ramp-up-time-period"⟩

/-- the focus task's loop-control values as the real reader would hand them to `Task(...)`; `none` = TrackSyntaxError -/
def readTrack (tr : Json) : Except String (Option (List LoopVals)) := do
  let tasks ← (← getArr tr "tasks").mapM getLoopSpec
  match tr.getObjVal? "parallel" with
  | .ok (Json.obj _) =>
    let par ← getLoopSpec (← getObj tr "parallel")
    return parseParallelLoops par tasks
  | _ => return tasks.mapM (parseTaskLoop LoopSpec.none)

def loopValsJson (v : LoopVals) : Json :=
  arr [optRat v.warmupIt, optRat v.iters, optRat v.warmupT, optRat v.period, optRat v.rampUp]

def handle (op : String) (a : Json) : Except String Json := do
  match op with
  | "tput" =>
    let r ← getMode a
    let tt ← getPVal a "tt"
    let ti ← getPVal a "ti"
    match targetThroughput r tt ti with
    | .error e => return err (errName e) ["reject"]
    | .ok none => return ok Json.null ["none"]
    | .ok (some t) =>
      let tag := match tt, ti with
        | .str _, _ => "str"
        | _, .none => "numeric"
        | _, _ => "interval"
      return ok (arr [ratStr t.value, str t.unit]) [tag]
  | "ramp" =>
    let r ← getMode a
    let ramp ← getNum a "ramp"
    let g ← getNat a "gidx"
    let total ← getNat a "total"
    match rampUpWait r ramp g total with
    | .error e => return err (errName e)
    | .ok w => return ok (ratStr w)
  | "pacing" =>
    -- scheduler_for(task) then: next(0); for each feedback: after_request(weight, unit); next(cur)
    let r ← getMode a
    let tt ← getPVal a "tt"
    let ti ← getPVal a "ti"
    let sched ← getOptStr a "sched"
    let clients ← getNat a "clients"
    let fb ← getArr a "feedback"
    match targetThroughput r tt ti with
    | .error e => return err (errName e)
    | .ok tp =>
      match schedulerFor tp sched with
      | .error e => return err (errName e)
      | .ok s0 =>
        let mut s := s0
        let mut cur : Rat := 0
        let mut outs : Array Json := #[]
        let mut rates : Array Json := #[]
        let mut tags : List String := []
        let first ← match fb[0]? with
          | some j => getRat j "draw"
          | none => pure 0
        cur := s.next r cur first
        rates := rates ++ (s.rateLog.map ratStr).toArray
        outs := outs.push (ratStr cur)
        for j in fb do
          let w ← getNat j "w"
          let u ← getStr j "unit"
          let d ← getRat j "next_draw"
          match s.afterRequest r clients w u with
          | .error c => return err ("RallyError:" ++ causeName c) ["after-request-error"]
          | .ok s' =>
            s := s'
            rates := rates ++ (s.rateLog.map ratStr).toArray
            cur := s.next r cur d
            outs := outs.push (ratStr cur)
        tags := [innerTag s.inner]
        return ok (Json.mkObj [("sched", Json.arr outs), ("rates", Json.arr rates)]) tags
  | "sampler" =>
    -- events: "eval" | "build" | {"call": id} | "drain"
    let cap ← getNat a "cap"
    let evsJ ← getArr a "events"
    let evs ← evsJ.mapM (fun j => match j with
      | Json.str "eval" => pure (SEv.evalPut (α := Nat))
      | Json.str "build" => pure SEv.build
      | Json.str "drain" => pure SEv.drain
      | _ => do let i ← getNat j "call"; pure (SEv.call i))
    let st := srun cap evs (SState.init Nat)
    return ok (Json.mkObj [
      ("batches", arr (st.batches.map (fun b => arr (b.map (fun i => toJson i))))),
      ("queue", arr ((st.queues.getD st.cur []).map (fun i => toJson i))),
      ("dropped", arr (st.dropped.map (fun i => toJson i)))])
      ((if st.dropped.isEmpty then [] else ["dropped"]) ++ (if st.batches.any (fun b => !b.isEmpty) then ["drained"] else []))
  | "read_track" =>
    match ← readTrack a with
    | none => return err "TrackSyntaxError" ["track-syntax-error"]
    | some vs => return ok (arr (vs.map loopValsJson)) ["parsed"]
  | "loop_count" =>
    let r ← getMode a
    let t : TaskP := { warmupIt := ← getOptNat a "warmup_it", iters := ← getOptNat a "iters", warmupT := none, period := none, rampUp := none,
                       clients := 1, sched := none, completesParent := false, anyCompletesParent := false }
    let loop := scheduleLoop r t (← getBool a "runner_completion") (← getBool a "src_infinite") 0
    let (n, w, last, mx) := iterTrace r (← getNat a "fuel") loop (0, 0, none, none)
    return ok (Json.mkObj [("count", toJson n), ("warmup", toJson w), ("last", optRat last), ("max", optRat mx)])
      [loopTag loop, if n ≥ 49 then "total>=49" else "total<49"]
  | "sampler_bulk" =>
    let cap ← getNat a "cap"
    let evs ← (← getArr a "events").mapM (fun j => match j with
      | Json.str "drain" => pure SBulk.drain
      | _ => do let n ← j.getNat?; pure (SBulk.adds n))
    let st := sbulkRun cap evs
    return ok (Json.mkObj [("batches", arr (st.batches.map (fun n => toJson n))), ("queue", toJson st.queue), ("dropped", toJson st.dropped)])
      ((if st.dropped > 0 then ["dropped"] else []) ++ (if st.batches.any (· > 16384) then ["batch>16384"] else []) ++
       (if st.batches.any (· > 32768) then ["batch>32768"] else []))
  | "alloc_ramp" =>
    -- ramp-up wait of every TaskAllocation of a whole schedule; `ramps`: sub id -> ramp-up-time-period
    let r ← getMode a
    let sch ← (← getArr a "schedule").mapM parseElement
    let rampsJ ← getArr a "ramps"
    let ramps ← rampsJ.mapM (fun j => do return (← getNat j "id", ← getNum j "ramp"))
    let rows := Alloc.allocations sch
    let mut out : Array Json := #[]
    let mut ri := 0
    for row in rows do
      let mut pi := 0
      for e in row do
        match e with
        | .task sub i g total =>
          let ramp := ((ramps.find? (fun p => p.1 == sub.id)).map (·.2)).getD none
          match rampUpWait r ramp g total with
          | .ok w => out := out.push (arr [toJson ri, toJson pi, toJson sub.id, toJson i, toJson g, toJson total, ratStr w])
          | .error e => out := out.push (arr [toJson ri, toJson pi, toJson sub.id, toJson i, toJson g, toJson total, Json.str (errName e)])
        | _ => pure ()
        pi := pi + 1
      ri := ri + 1
    let m := Alloc.maxClients sch
    return ok (Json.arr out)
      ((if sch.any (fun e => e.clients < m) then ["narrower-element"] else []) ++
       (if sch.any (fun e => e.clientsOverride.isSome) then ["override"] else []) ++
       (if sch.any (fun e => e.total > e.clients) then ["overcommit"] else []) ++
       (if sch.any (fun e => e.tasks.length > 1) then ["parallel"] else []))
  | "run" =>
    let r ← getMode a
    let task ← getObj a "task"
    let cl ← getObj a "client"
    let (tt, ti) ← getTput task
    let sched ← getOptStr task "sched"
    if !((sched.map inDomain).getD true) || sched == some [] then throw "out-of-domain"   -- `schedule: ""` is falsy in Python
    let t : TaskP := {
      warmupIt := ← getOptNat task "warmup_it", iters := ← getOptNat task "iters",
      warmupT := ← getNum task "warmup_t", period := ← getNum task "period", rampUp := ← getNum task "ramp_up",
      clients := ← getNat task "clients", sched := sched,
      completesParent := ← getBool task "completes_parent", anyCompletesParent := ← getBool task "any_completes_parent" }
    -- the task's loop-control keys come from a track file through the reader
    let t ← match a.getObjVal? "track" with
      | .ok (Json.obj _) => do
        let tr ← getObj a "track"
        match ← readTrack tr with
        | none => return err "TrackSyntaxError" ["setup-error", "track-syntax-error"]
        | some vs =>
          match vs[(← getNat tr "focus")]? with
          | some v => pure (v.apply t)
          | none => throw "track: focus out of range"
      | _ => pure t
    -- the same Task object is read / rewritten / post-processed before it is scheduled
    let opsJ := match a.getObjVal? "task_ops" with
      | .ok (Json.arr xs) => xs.toList
      | _ => []
    let ops ← opsJ.mapM getTaskOp
    -- the client's TaskAllocation: hand-built (`client`) or entry (row, pos) of the allocation matrix of a whole schedule
    let (tClients, cIdx, cGidx, cTotal) ← match a.getObjVal? "alloc" with
      | .ok (Json.obj _) => do
        let al ← getObj a "alloc"
        let sch ← (← getArr al "schedule").mapM parseElement
        -- the entry of client `k` of the focus task, found in the model's own matrix
        let focus ← getNat al "focus"
        let k ← getNat al "k"
        let hit := (Alloc.allocations sch).findSome? (fun row => row.find? (fun e => match e with
          | .task sub i _ _ => sub.id == focus && i == k
          | _ => false))
        match hit.bind allocClient with
        | some x => pure x
        | none => throw "alloc: the focus task has no such client"
      | _ => pure (← getNat task "clients", ← getNat cl "idx", ← getNat cl "gidx", ← getNat cl "total")
    let _ := cIdx
    let t : TaskP := { t with clients := tClients }
    match applyOps r ops ⟨t, tt, ti⟩ with
      | .error e => return err (errName e) ["setup-error", "task-op-error"]
      | .ok _ => pure ()
    let onError ← a.getObjValAs? String "on_error"
    let c : Cfg := {
      r := r, t0 := ← getRat a "t0", epoch := ← getRat a "epoch", client := ← getNat cl "id", clients := t.clients,
      abort := onError == "abort", completesParent := t.completesParent, anyCompletesParent := t.anyCompletesParent,
      hasCompletion := ← getBool a "runner_completion", srcKnowsProgress := ← getBool a "src_progress",
      cancelAt := ← getOptNat a "cancel_at", completeAt := ← getOptNat a "complete_at" }
    let reqsJ ← getArr a "reqs"
    let reqs ← reqsJ.mapM getReq
    let cap ← getNat a "queue_cap"
    let srcInf ← getBool a "src_infinite"
    match runClientOps c ops t tt ti cGidx cTotal srcInf cap reqs with
    | .error e => return err (errName e) ["setup-error"]
    | .ok f =>
      let o := f.out
      let res := Json.mkObj [
        ("result", Json.str (resultName o.stop)),
        ("stop", Json.str (stopName o.stop)),
        ("samples", arr (f.samples.map sampleJson)),
        ("recorded", toJson o.recs.length),
        ("sched", arr (o.tuples.map (fun t => ratStr t.sched))),
        ("tuple_warmup", arr (o.tuples.map (fun t => toJson t.warmup))),
        ("tuple_pc", arr (o.tuples.map (fun t => optRat t.pc))),
        ("wire", arr (o.wire.map (fun g => arr (g.map (fun w => arr [ratStr w.1, ratStr w.2]))))),
        ("rates", arr (o.rates.map ratStr)),
        ("complete_set", toJson f.completeSet),
        ("end", ratStr o.endClock),
        ("ramp_wait", ratStr f.rampWait)]
      return ok res (runTags c f cap ++ progTags reqs o.wire.length
        ++ (if ops.isEmpty then [] else ["task-ops"])
        ++ (if ops.any (fun o => match o with | .testMode => true | _ => false) then ["test-mode"] else [])
        ++ (match a.getObjVal? "alloc" with | .ok (Json.obj _) => ["from-allocator", s!"alloc:{cIdx}/{cGidx}/{cTotal}"] | _ => [])
        ++ (match a.getObjVal? "track" with | .ok (Json.obj _) => ["from-track-file"] | _ => []))
  | _ => throw s!"unknown op {op}"

end Drivers.Exec
