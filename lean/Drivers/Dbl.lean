import RallyModel.Dbl
import Drivers.Util
open Lean DUtil

namespace Drivers.Dbl
open _root_.Dbl

def handle (op : String) (a : Json) : Except String Json := do
  let chk (q : Rat) : Except String Unit := if inRange q then pure () else throw "out-of-range"
  match op with
  | "fl" => let q ← getRat a "q"; chk q; return ok (ratStr (fl q))
  | "rhe" => let q ← getRat a "q"; return ok (toJson (rhe q))
  | "add" => let x ← getRat a "x"; let y ← getRat a "y"; chk (x + y); return ok (ratStr (fadd x y))
  | "sub" => let x ← getRat a "x"; let y ← getRat a "y"; chk (x - y); return ok (ratStr (fsub x y))
  | "mul" => let x ← getRat a "x"; let y ← getRat a "y"; chk (x * y); return ok (ratStr (fmul x y))
  | "div" => let x ← getRat a "x"; let y ← getRat a "y"
             if y = 0 then return err "ZeroDivisionError"
             chk (x / y); return ok (ratStr (fdiv x y))
  | "ceil" => let q ← getRat a "q"; return ok (toJson (fceil q))
  | "floor" => let q ← getRat a "q"; return ok (toJson (ffloor q))
  | "trunc" => let q ← getRat a "q"; return ok (toJson (ftrunc q))
  | "roundn" => let q ← getRat a "q"; let n ← getNat a "n"; return ok (ratStr (roundN q n))
  | _ => throw s!"unknown op {op}"

end Drivers.Dbl
