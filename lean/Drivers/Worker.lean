import RallyModel.Worker
import Drivers.Exec
import Drivers.Util
open Lean DUtil

namespace Drivers.Worker
open _root_.Exec
open Drivers.Exec

/-- one client of the worker, in the wire format of `exec run` (hand-built allocation only) -/
def parseClient (r : Rat → Rat) (a : Json) : Except String _root_.Worker.ClientSpec := do
  let task ← getObj a "task"
  let cl ← getObj a "client"
  let (tt, ti) ← getTput task
  let sched ← getOptStr task "sched"
  if !((sched.map inDomain).getD true) || sched == some [] then throw "out-of-domain"
  let t : TaskP := {
    warmupIt := ← getOptNat task "warmup_it", iters := ← getOptNat task "iters",
    warmupT := ← getNum task "warmup_t", period := ← getNum task "period", rampUp := ← getNum task "ramp_up",
    clients := ← getNat task "clients", sched := sched,
    completesParent := ← getBool task "completes_parent", anyCompletesParent := ← getBool task "any_completes_parent" }
  let onError ← a.getObjValAs? String "on_error"
  let c : Cfg := {
    r := r, t0 := ← getRat a "t0", epoch := ← getRat a "epoch", client := ← getNat cl "id", clients := t.clients,
    abort := onError == "abort", completesParent := t.completesParent, anyCompletesParent := t.anyCompletesParent,
    hasCompletion := ← getBool a "runner_completion", srcKnowsProgress := ← getBool a "src_progress",
    cancelAt := ← getOptNat a "cancel_at", completeAt := ← getOptNat a "complete_at" }
  let reqs ← (← getArr a "reqs").mapM getReq
  return { c := c, t := t, tt := tt, ti := ti, gidx := ← getNat cl "gidx", total := ← getNat cl "total",
           srcInfinite := ← getBool a "src_infinite", reqs := reqs }

def finalJson (client : Nat) : Except Err Final → Json
  | .error e => Json.mkObj [("client", toJson client), ("result", Json.str (errName e)), ("samples", arr []), ("wire", arr []),
                            ("sched", arr []), ("reported", arr [])]
  | .ok f =>
    let o := f.out
    Json.mkObj [
      ("client", toJson client),
      ("result", Json.str (resultName o.stop)),
      ("stop", Json.str (stopName o.stop)),
      ("samples", arr (f.samples.map sampleJson)),
      ("sched", arr (o.tuples.map (fun t => ratStr t.sched))),
      ("wire", arr (o.wire.map (fun g => arr (g.map (fun w => arr [ratStr w.1, ratStr w.2]))))),
      ("end", ratStr o.endClock),
      ("ramp_wait", ratStr f.rampWait)]

def handle (op : String) (a : Json) : Except String Json := do
  match op with
  | "run" =>
    -- `AsyncIoAdapter.run` over the (client_id, task_allocation) pairs of one worker
    let r ← getMode a
    let cap ← getNat a "queue_cap"
    let cs ← (← getArr a "clients").mapM (parseClient r)
    let rs := _root_.Worker.adapterRun cap cs
    let tags := [s!"clients:{cs.length}"] ++
      (if rs.any (fun p => match p.2 with | .ok f => f.out.recs.any (fun x => !x.sample.success) | _ => false) then ["failed-response"] else [])
    return ok (arr (rs.map (fun p => finalJson p.1 p.2))) tags
  | "reported" =>
    -- what the runner's answer says about its own weight
    let o ← getOutcome (← getObj a "out")
    match _root_.Worker.reported o with
    | some (w, u) => return ok (arr [toJson w, str u]) ["reported"]
    | none => return ok Json.null ["raised"]
  | _ => throw s!"unknown op {op}"

end Drivers.Worker
