import Lean.Data.Json
/-! JSON helpers shared by the line-protocol handlers. -/
open Lean

namespace DUtil

def str (s : List Char) : Json := Json.str (String.ofList s)
def optStr : Option (List Char) → Json
  | none => Json.null
  | some s => str s
def optNat : Option Nat → Json
  | none => Json.null
  | some n => toJson n
def getStr (j : Json) (k : String) : Except String (List Char) := do
  let s ← j.getObjValAs? String k
  return s.toList
def getOptStr (j : Json) (k : String) : Except String (Option (List Char)) :=
  match j.getObjVal? k with
  | .ok Json.null => .ok none
  | .ok (Json.str s) => .ok (some s.toList)
  | .ok _ => .error s!"field {k}: expected string or null"
  | .error _ => .ok none
def getStrList (j : Json) (k : String) : Except String (List (List Char)) := do
  let a ← j.getObjValAs? (Array String) k
  return a.toList.map String.toList
def getNat (j : Json) (k : String) : Except String Nat := j.getObjValAs? Nat k
def getInt (j : Json) (k : String) : Except String Int := j.getObjValAs? Int k
def getBool (j : Json) (k : String) : Except String Bool := j.getObjValAs? Bool k
def getArr (j : Json) (k : String) : Except String (List Json) := do
  let v ← j.getObjVal? k
  let a ← v.getArr?
  return a.toList
def getOptNat (j : Json) (k : String) : Except String (Option Nat) :=
  match j.getObjVal? k with
  | .ok Json.null => .ok none
  | .ok v => (v.getNat?).map some
  | .error _ => .ok none
def arr (xs : List Json) : Json := Json.arr xs.toArray
def ok (r : Json) (tags : List String := []) : Json :=
  Json.mkObj [("r", r), ("tags", arr (tags.map Json.str))]
def err (e : String) (tags : List String := []) : Json :=
  Json.mkObj [("err", Json.str e), ("tags", arr (tags.map Json.str))]

/-- rationals travel as "num/den" strings -/
def ratStr (q : Rat) : Json := Json.str s!"{q.num}/{q.den}"
def parseRat (s : String) : Except String Rat :=
  match s.splitOn "/" with
  | [n] => match n.toInt? with
    | some i => .ok (i : Rat)
    | none => .error s!"bad rational {s}"
  | [n, d] => match n.toInt?, d.toNat? with
    | some i, some k => if k = 0 then .error "zero denominator" else .ok ((i : Rat) / (k : Rat))
    | _, _ => .error s!"bad rational {s}"
  | _ => .error s!"bad rational {s}"
def getRat (j : Json) (k : String) : Except String Rat := do
  let s ← j.getObjValAs? String k
  parseRat s
def getOptRat (j : Json) (k : String) : Except String (Option Rat) :=
  match j.getObjVal? k with
  | .ok Json.null => .ok none
  | .ok (Json.str s) => (parseRat s).map some
  | .ok _ => .error s!"field {k}: expected rational string or null"
  | .error _ => .ok none
def optRat : Option Rat → Json
  | none => Json.null
  | some q => ratStr q

end DUtil
