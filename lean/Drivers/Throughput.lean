import RallyModel.Throughput
import Drivers.Util
open Lean DUtil

namespace Drivers.Throughput
open _root_.Throughput

/-- input domain in which `Dbl` is exact (all intermediate results stay in the normal range) -/
def okNum (q : Rat) : Bool :=
  q = 0 || (decide (Dbl.pow2 (-500) ≤ Dbl.qabs q) && decide (Dbl.qabs q ≤ Dbl.pow2 500) && decide (Dbl.fl q = q))

def getResult (j : Json) : Except String RResult := do
  let k ← j.getObjValAs? String "k"
  match k with
  | "pair" => return .pair (← getNat j "w") (← getStr j "unit")
  | "dict" =>
    let w ← getOptNat j "w"
    let unit ← getOptStr j "unit"
    let tput ← match j.getObjVal? "tput" with
      | .ok (Json.str "absent") => pure none
      | .ok Json.null => pure (some none)
      | .ok (Json.str s) => do pure (some (some (← parseRat s)))
      | _ => throw "bad tput entry"
    return .dict w unit tput
  | "other" => return .other
  | "failed" => return .failed
  | _ => throw "unknown result kind"

/-- a sample either with its fields, or (`"result"` present) as executor time stamps + the runner's result -/
def getSample (j : Json) : Except String (Nat × TSample) := do
  let k ← getNat j "task"
  let abs ← getRat j "abs"
  let rel ← getRat j "rel"
  -- time_period either given, or as the executor computes it: request_end - total_start (doubles)
  let period ← match j.getObjVal? "req_end" with
    | .ok _ => do
      let re ← getRat j "req_end"
      let ts ← getRat j "total_start"
      if !(okNum re && okNum ts) then throw "out-of-domain"
      pure (Dbl.fsub re ts)
    | .error _ => getRat j "period"
  let normal ← getBool j "normal"
  if !(okNum abs && okNum rel && okNum period) then throw "out-of-domain"
  match j.getObjVal? "result" with
  | .ok rj =>
    let r ← getResult rj
    let s := sampleOf { abs, rel, period, normal } r
    if s.ops ≥ 2 ^ 63 then throw "out-of-domain"
    return (k, s)
  | .error _ =>
    let ops ← getNat j "ops"
    let unit ← getStr j "unit"
    let tput ← getOptRat j "tput"
    if ops ≥ 2 ^ 63 then throw "out-of-domain"
    return (k, { abs, rel, period, ops, unit, normal, tput })

def outJson (o : Out) : Json :=
  arr [ratStr o.abs, ratStr o.rel, toJson o.normal, optRat o.value, str o.unit]

def statsJson (kt : Nat × TaskStats) : Json :=
  let t := kt.2
  Json.mkObj [("task", toJson kt.1), ("total", toJson t.total), ("unprocessed_ops", toJson (sumOps t.unprocessed)),
    ("unprocessed_len", toJson t.unprocessed.length), ("interval", ratStr t.interval), ("bucket", toJson t.bucket),
    ("normal", toJson t.normal), ("has_samples", toJson t.hasSamples), ("start", ratStr t.start)]

/-- branch tags of one task group in one call -/
def groupTags (stats : List (Nat × TaskStats)) (kv : Nat × List TSample) (outs : List Out) : List String :=
  let st := lookupStats kv.1 stats
  let c := carried st
  let cs := sortByAbs (kv.2 ++ c)
  let pass := match cs with
    | f :: _ => f.tput.isSome
    | [] => false
  let mixed := cs.any (fun s => s.tput.isSome) && cs.any (fun s => s.tput.isNone)
  (if pass then ["passthrough"] else ["computed"])
  ++ (if mixed then ["mixed"] else [])
  ++ (if st.isNone then ["first-call"] else [])
  ++ (if !c.isEmpty then ["carry"] else [])
  ++ (if !pass && !c.isEmpty && outs.isEmpty then ["stale-carry"] else [])
  ++ (if !pass && outs.isEmpty then ["no-emission"] else [])
  ++ (if outs.length ≥ 2 then ["multi-emission"] else [])
  ++ (if cs.any (fun s => s.normal) && cs.any (fun s => !s.normal) then ["both-types"] else [])
  ++ (if kv.2.length == 1 then ["one-sample-batch"] else [])

partial def runCalls (fix : Bool) (bi : Nat) (stats : List (Nat × TaskStats)) :
    List (List (Nat × TSample)) → List Json → List String → List (Nat × TaskStats) × List Json × List String
  | [], acc, tags => (stats, acc.reverse, tags)
  | call :: rest, acc, tags =>
    let r := calculate fix bi stats call
    let groups := groupByTask call
    let t := (groups.zip r.2).foldl (fun t (g, o) => t ++ groupTags stats g o.2) tags
    let t := if call.isEmpty then t ++ ["empty-call"] else t
    let j := arr (r.2.map fun ko => arr [toJson ko.1, arr (ko.2.map outJson)])
    runCalls fix bi r.1 rest (j :: acc) t

/-- branch tags of a sequence of post-processing batches (same tags as `run`) -/
partial def ppTags (stats : List (Nat × TaskStats)) : List (List (Nat × TSample)) → List String → List String
  | [], tags => tags
  | call :: rest, tags =>
    let r := calculate current 1 stats call
    let groups := groupByTask call
    let t := (groups.zip r.2).foldl (fun t (g, o) => t ++ groupTags stats g o.2) tags
    let t := if call.isEmpty then t ++ ["empty-batch"] else t
    ppTags r.1 rest t

def getEvent (j : Json) : Except String FEvent :=
  match j with
  | Json.str "pp" => pure .postProcess
  | Json.arr xs => do
    let ss ← xs.toList.mapM getSample
    pure (.update ss)
  | _ => do
    -- {"fault": null} = the store fails in flush(); {"fault": j} = after j throughput records of the run
    let w ← getOptNat j "fault"
    pure (.faultyRun w)

def isFault : FEvent → Bool
  | .faultyRun _ => true
  | _ => false

def handle (op : String) (a : Json) : Except String Json := do
  match op with
  | "run" =>
    let bi ← getNat a "bi"
    let variant := (a.getObjValAs? String "variant").toOption.getD "current"
    let fix ← match variant with
      | "current" => pure current
      | "fixed" => pure true
      | "unfixed" => pure false
      | _ => throw "unknown variant"
    let callsJ ← getArr a "calls"
    let calls ← callsJ.mapM fun c => do
      let xs ← c.getArr?
      xs.toList.mapM getSample
    let (stats, outs, tags) := runCalls fix bi [] calls [] []
    return ok (Json.mkObj [("calls", arr outs), ("stats", arr (stats.map statsJson))]) tags.eraseDups
  | "pp_run" =>
    -- Driver.update_samples / Driver.post_process_samples in front of SamplePostprocessor.__call__
    let evsJ ← getArr a "events"
    let evs ← evsJ.mapM getEvent
    let hevs := evs.map healed
    let tags := ppTags [] (driverBatches [] hevs) []
    let recJ := fun (runs : List (List (Nat × Out))) => arr (runs.map fun c => arr (c.map fun ko => arr [toJson ko.1, outJson ko.2]))
    if evs.any isFault then
      return ok (Json.mkObj [("runs", recJ (driverRunF [] [] evs)), ("aborted", toJson true)]) (tags ++ ["store-fault"]).eraseDups
    -- reporting/metrics.request.downsample.factor as Driver.prepare_benchmark reads it (absent / null = not set)
    let opt ← match a.getObjVal? "downsample" with
      | .ok Json.null => pure none
      | .ok _ => do pure (some (← getNat a "downsample"))
      | .error _ => pure none
    if downsampleFactor opt == 0 then throw "out-of-domain"
    let r := driverRunCfg opt [] [] hevs
    return ok (Json.mkObj [("runs", recJ (r.2.map (·.2))), ("aborted", toJson false), ("buffered", toJson r.1.1.length),
      ("kept", arr (r.2.map fun x => toJson x.1.length)),
      ("stats", arr (r.1.2.map statsJson))]) (tags ++ (if downsampleFactor opt > 1 then ["downsampled"] else [])).eraseDups
  | "throttle" =>
    -- the throttling wait of AsyncExecutor.__call__: performance counter at processing_start of each request
    let ts ← getRat a "total_start"
    let reqsJ ← getArr a "reqs"
    let reqs ← reqsJ.mapM fun j => do
      let e ← getRat j "expected"
      let f ← getRat j "free"
      pure (e, f)
    let tags := reqs.foldl (fun t (e, f) => t ++ (if e > 0 then (if ts + e - f > 0 then ["waited"] else ["behind-schedule"]) else ["unthrottled"])) []
    return ok (arr (reqs.map fun (e, f) => ratStr (throttleStart ts f e))) tags.eraseDups
  | "sort" =>
    -- stable sort by absolute time (correspondence with Python's `sorted(key=…)`); returns the permutation of ids
    let xs ← getArr a "abs"
    let qs ← xs.mapM fun j => do
      let s ← j.getStr?
      parseRat s
    let ss : List TSample := (qs.zip (List.range qs.length)).map fun (q, i) =>
      { abs := q, rel := 0, period := 0, ops := i, unit := [], normal := true, tput := none }
    return ok (arr ((sortByAbs ss).map fun s => toJson s.ops))
  | _ => throw s!"unknown op {op}"

end Drivers.Throughput
