import RallyModel.Corpus
import Drivers.Util
open Lean DUtil

namespace Drivers.Corpus
open _root_.Corpus

/-! wire format
  cid      0 = pub, n ≥ 1 = other n
  file     null | [size, cid, mtime]
  off      null | ["complete", size, cid, 0, mtime] | ["torn", size, cid, bytes, mtime] | ["junk", tag, 0, 0, mtime]
  fs       {doc, arch, tmp, off, offtmp, clock}
  attempt  ["connect"] | ["resp", status, cl|null, cid, [chunks], "clean"|"protocol"|"timeout"]
  world    {dsize, asize, lines:[[cid,size,n]], dc:[[cid,size,outcome]], tbl:[[cid,size,[n…]]], undecodable:[[cid,size]]}
  outcome  {open_fails, hits_doc, ext: null|[n, ok], cid, chunks, fails, wrapped, mtime: null|n}
-/

def cidOf (n : Nat) : Cid := if n = 0 then .pub else .other n
def cidJ : Cid → Json
  | .pub => toJson (0 : Nat)
  | .other t => toJson t

def natAt (xs : Array Json) (i : Nat) : Except String Nat :=
  match xs[i]? with
  | some v => v.getNat?
  | none => .error s!"index {i} missing"

def natList (j : Json) : Except String (List Nat) := do
  let a ← j.getArr?
  a.toList.mapM (fun v => v.getNat?)

def getFile (j : Json) (k : String) : Except String (Option File) :=
  match j.getObjVal? k with
  | .ok Json.null => .ok none
  | .error _ => .ok none
  | .ok v => do
    let a ← v.getArr?
    return some ⟨← natAt a 0, cidOf (← natAt a 1), ← natAt a 2⟩

def getOff (j : Json) (k : String) : Except String (Option OffFile) :=
  match j.getObjVal? k with
  | .ok Json.null => .ok none
  | .error _ => .ok none
  | .ok v => do
    let a ← v.getArr?
    let kind ← (a[0]?.getD Json.null).getStr?
    let x ← natAt a 1
    let c ← natAt a 2
    let b ← natAt a 3
    let m ← natAt a 4
    match kind with
    | "complete" => return some ⟨.complete x (cidOf c), m⟩
    | "torn" => return some ⟨.torn x (cidOf c) b, m⟩
    | "junk" => return some ⟨.junk x, m⟩
    | _ => throw s!"bad offset kind {kind}"

def getFS (j : Json) : Except String FS := do
  return ⟨← getFile j "doc", ← getFile j "arch", ← getFile j "tmp", ← getOff j "off", ← getOff j "offtmp", ← getNat j "clock"⟩

def fileJ : Option File → Json
  | none => Json.null
  | some f => arr [toJson f.size, cidJ f.cid, toJson f.mtime]

def offJ : Option OffFile → Json
  | none => Json.null
  | some ⟨.complete s c, m⟩ => arr [Json.str "complete", toJson s, cidJ c, toJson (0 : Nat), toJson m]
  | some ⟨.torn s c b, m⟩ => arr [Json.str "torn", toJson s, cidJ c, toJson b, toJson m]
  | some ⟨.junk t, m⟩ => arr [Json.str "junk", toJson t, toJson (0 : Nat), toJson (0 : Nat), toJson m]

def fsJ (fs : FS) : Json :=
  Json.mkObj [("doc", fileJ fs.doc), ("arch", fileJ fs.arch), ("tmp", fileJ fs.tmp), ("off", offJ fs.off), ("offtmp", offJ fs.offTmp), ("clock", toJson fs.clock)]

def getSpec (j : Json) : Except String Spec := do
  return ⟨← getBool j "has_archive", ← getOptNat j "csize", ← getOptNat j "usize", ← getNat j "nlines",
          ← getBool j "has_base_url", ← getBool j "offline", ← getBool j "test_mode"⟩

def getAttempt (j : Json) : Except String Attempt := do
  let a ← j.getArr?
  let kind ← (a[0]?.getD Json.null).getStr?
  match kind with
  | "connect" => return .connectFail
  | "resp" =>
    let status ← natAt a 1
    let cl ← match a[2]? with
      | some Json.null => pure none
      | some v => (v.getNat?).map some
      | none => throw "resp: content length missing"
    let cid ← natAt a 3
    let chunks ← natList (a[4]?.getD Json.null)
    let fin ← (a[5]?.getD Json.null).getStr?
    let fin ← match fin with
      | "clean" => pure BodyEnd.clean
      | "protocol" => pure BodyEnd.protocolError
      | "timeout" => pure BodyEnd.readTimeout
      | _ => throw s!"bad body end {fin}"
    return .resp status cl (cidOf cid) chunks fin
  | _ => throw s!"bad attempt kind {kind}"

def getOutcome (j : Json) : Except String DcOutcome := do
  let ext ← match j.getObjVal? "ext" with
    | .ok Json.null => pure none
    | .error _ => pure none
    | .ok v => do
      let a ← v.getArr?
      let n ← natAt a 0
      let ok ← (a[1]?.getD Json.null).getBool?
      pure (some (n, ok))
  let chunks ← natList (← j.getObjVal? "chunks")
  return ⟨← getBool j "open_fails", ← getBool j "hits_doc", ext, cidOf (← getNat j "cid"), chunks,
          ← getBool j "fails", ← getBool j "wrapped", ← getOptNat j "mtime"⟩

/-- lookups that miss return recognisable sentinels (the harness supplies every content it can produce) -/
def LINES_SENTINEL : Nat := 4242424242
def missingOutcome : DcOutcome := ⟨true, false, none, .pub, [], true, false, none⟩

def lookup {α : Type} (tbl : List (Nat × Nat × α)) (dflt : α) (c : Cid) (s : Nat) : α :=
  let k : Nat := match c with | .pub => 0 | .other t => t
  match tbl.find? (fun e => e.1 == k && e.2.1 == s) with
  | some e => e.2.2
  | none => dflt

def getWorld (j : Json) : Except String World := do
  let ls ← (← getArr j "lines").mapM (fun e => do
    let a ← e.getArr?
    return (← natAt a 0, ← natAt a 1, ← natAt a 2))
  let ds ← (← getArr j "dc").mapM (fun e => do
    let a ← e.getArr?
    return (← natAt a 0, ← natAt a 1, ← getOutcome (a[2]?.getD Json.null)))
  let ts ← (← getArr j "tbl").mapM (fun e => do
    let a ← e.getArr?
    return (← natAt a 0, ← natAt a 1, ← natList (a[2]?.getD Json.null)))
  let us ← (← getArr j "undecodable").mapM (fun e => do
    let a ← e.getArr?
    return (← natAt a 0, ← natAt a 1, true))
  return ⟨← getNat j "dsize", ← getNat j "asize", lookup ls LINES_SENTINEL, lookup ds missingOutcome, lookup ts [],
          lookup us false⟩

def errName : CodeErr → String
  | .noBaseUrl => "DataError:no-base-url"
  | .presentWrongSizeNoUrl => "DataError:present-wrong-size-no-url"
  | .offline => "SystemSetupError:offline"
  | .testMode404 => "DataError:test-mode-404"
  | .httpStatus c => s!"DataError:http-status-{c}"
  | .httpError c => s!"HTTPError:{c}"
  | .downloadCorrupt => "DataError:download-corrupt"
  | .downloadedCorrupt => "DataError:downloaded-corrupt"
  | .notDownloaded => "SystemSetupError:not-downloaded"
  | .protocolError => "ProtocolError"
  | .readTimeout => "ReadTimeoutError"
  | .connectError => "ConnectError"
  | .osError => "OSError"
  | .didNotCreate => "DataError:did-not-create"
  | .extractedCorrupt => "DataError:extracted-corrupt"
  | .decompressRaw => "DecompressRaw"
  | .decompressRuntime => "RuntimeError:could-not-decompress"
  | .linesMismatch => "DataError:lines-mismatch"
  | .unicodeError => "UnicodeDecodeError"
  | .bundledDocWrongSize => "DataError:bundled-doc-wrong-size"
  | .bundledArchiveWrongSize => "DataError:bundled-archive-wrong-size"

def firstTag (spec : Spec) (fs : FS) : String :=
  if fileOk fs.doc spec.usize then "first:use"
  else if spec.hasArchive && fileOk fs.arch spec.csize then "first:decompress"
  else "first:download"

def tableTag (fs0 fs1 : FS) : String :=
  match fs1.off with
  | none => if fs0.off.isSome then "table:removed" else "table:none"
  | some o => if fs0.off == some o then "table:kept" else "table:written"

def outJ (res : String) (fs : FS) (trace : List FS) (withTrace : Bool) : Json :=
  Json.mkObj [("res", Json.str res), ("fs", fsJ fs), ("trace", if withTrace then arr (trace.map fsJ) else Json.null),
              ("steps", toJson trace.length)]

def handle (op : String) (a : Json) : Except String Json := do
  match op with
  | "prepare" =>
    let w ← getWorld (← a.getObjVal? "world")
    let spec ← getSpec (← a.getObjVal? "spec")
    let fs ← getFS (← a.getObjVal? "fs")
    let plan ← (← getArr a "plan").mapM getAttempt
    let withTrace := (getBool a "trace").toOption.getD false
    let fuel := (getNat a "fuel").toOption.getD FUEL
    let r := prepareLoop w spec fuel fs plan
    let res := match r.res with
      | .done () => "ok"
      | .raised e => errName e
      | .outOfFuel => "OUT-OF-FUEL"
    return ok (outJ res r.fs r.trace withTrace) [firstTag spec fs, tableTag fs r.fs, "res:" ++ res]
  | "prepare_bundled" =>
    let w ← getWorld (← a.getObjVal? "world")
    let spec ← getSpec (← a.getObjVal? "spec")
    let fs ← getFS (← a.getObjVal? "fs")
    let withTrace := (getBool a "trace").toOption.getD false
    let fuel := (getNat a "fuel").toOption.getD BFUEL
    let r := bundledLoop w spec fuel fs
    let res := match r.res with
      | .done true => "true"
      | .done false => "false"
      | .raised e => errName e
      | .outOfFuel => "OUT-OF-FUEL"
    return ok (outJ res r.fs r.trace withTrace) ["bundled", tableTag fs r.fs, "res:" ++ res]
  | "prepare_docs" =>
    let w ← getWorld (← a.getObjVal? "world")
    let spec ← getSpec (← a.getObjVal? "spec")
    let fsT ← getFS (← a.getObjVal? "fs_track")
    let fsC ← getFS (← a.getObjVal? "fs_corpus")
    let two ← getBool a "two_roots"
    let plan ← (← getArr a "plan").mapM getAttempt
    let r := prepareDocs w spec two fsT fsC plan
    let res := match r.res with
      | .done () => "ok"
      | .raised e => errName e
      | .outOfFuel => "OUT-OF-FUEL"
    let resolved := if two && r.track.doc.isSome then "track" else if r.corpus.doc.isSome then "corpus" else "none"
    let bres := if two then (match (prepareBundled w spec fsT).res with
      | .done true => "bundled:true" | .done false => "bundled:false" | .raised _ => "bundled:raised" | .outOfFuel => "bundled:fuel")
      else "one-root"
    return ok (Json.mkObj [("res", Json.str res), ("fs_track", fsJ r.track), ("fs_corpus", fsJ r.corpus), ("resolved", Json.str resolved)])
      [bres, "resolved:" ++ resolved, "res:" ++ res]
  | "used_docsets" =>
    let docs ← (← getArr a "docs").mapM (fun j => do
      return (⟨← getNat j "id", ← getNat j "corpus", ← getOptNat j "index", ← getOptNat j "stream", ← getBool j "bulk"⟩ : DocSet))
    let tasks ← (← getArr a "tasks").mapM (fun j => do
      let cs ← match j.getObjVal? "corpora" with
        | .ok Json.null => pure none
        | .error _ => pure none
        | .ok v => (natList v).map some
      return (⟨← getBool j "has_corpora", cs, ← natList (← j.getObjVal? "indices"), ← natList (← j.getObjVal? "streams")⟩ : TaskSel))
    match usedDocsets docs tasks with
    | none => return err "RallyAssertionError" ["used:error"]
    | some u => return ok (arr (u.map (fun d => toJson d.id))) [if u.isEmpty then "used:none" else if u.length == docs.length then "used:all" else "used:some"]
  | "net_download" =>
    let fs ← getFS (← a.getObjVal? "fs")
    let plan ← (← getArr a "plan").mapM getAttempt
    let expected ← getOptNat a "expected"
    let toDoc := (getBool a "to_doc").toOption.getD false
    let r := netDownload fs (if toDoc then .doc else .arch) expected plan
    let res := match r.1.res with
      | .ok () => "ok"
      | .error e => errName e
    return ok (Json.mkObj [("res", Json.str res), ("fs", fsJ r.1.fs), ("trace", arr (r.1.trace.map fsJ)),
                           ("used", toJson (plan.length - r.2.length))]) ["res:" ++ res]
  | _ => throw s!"unknown op {op}"

end Drivers.Corpus
