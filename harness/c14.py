"""C14 — corpus preparation ends with complete, verified data or an explicit error.

Real code under test (all in-process, real files in a temp dir, real archives, real urllib3 response objects):
  loader.DocumentSetPreparator / Downloader / Decompressor, net.download / download_http / _download_http,
  io.decompress (+ library and external-tool paths), io.prepare_file_offset_table, io.skip_lines.
Only `net._request` is replaced (by a function returning a real `urllib3.HTTPResponse` over a scripted
socket-like body); PATH is a private directory with (stand-in) external decompressors or none; `download_http`'s sleep is a no-op.
"""
import bz2
import builtins
import gzip
import hashlib
import io as pyio
import json
import os
import random
import re
import shutil
import socket
import subprocess
import tarfile
import tempfile
import time
import warnings
import zipfile
import zlib
from unittest import mock

from harness.framework import Stream, HarnessError

PROPERTY = "C14"
RULE = ("scenarios = (published corpus world, archive format, declared/undeclared sizes and line count, base URL/offline/test mode, "
        "initial state of document/archive/.tmp/.offset incl. partial, wrong-sized, stale and torn files, HTTP outcome plan, "
        "decompression path); crash scenarios kill a forked child at the n-th file-system event and re-run preparation on what it left. "
        "A case is non-trivial when something is on disk or the plan is non-empty; signature = (model branch tags, outcome class, "
        "format class, decompression path, input-state classes)")
TRUSTED = [
    "urllib3.HTTPResponse over a scripted body stands for the network (status, Content-Length, chunks, reset/time-out); S3/GCS back-ends are not exercised",
    "decompression libraries / tools (gzip, bz2, zstandard, zipfile, tarfile, pigz; pbzip2/pzstd replaced by shims calling bzip2/zstd) are "
    "probed independently of rally to obtain what they do with given archive bytes; the model takes that as input",
    "content identity is abstracted to (prefix of the published bytes | other registered bytes); equality of bytes is checked on disk",
    "logical clock for mtimes: files written later have mtime >= earlier ones; initial files are stamped in the past",
]
ASSUMPTIONS = [
    "files on disk that are neither a prefix of the published file nor of the declared size are the only 'wrong' files (no checksums exist: a right-sized file with other content cannot be told apart)",
    "an .offset that was on disk before and is not older than the document is that document's table (a foreign table with a newer mtime cannot be told apart; the code itself never leaves one: theorem crash_states_keep_offset_table_sound, stream crash_then_rerun)",
    "the declared document count is the line count of the published file",
    "declared sizes, when declared, are the real sizes of the published files (theorems); untruthful declarations are exercised and lead to explicit errors",
    "a response without Content-Length and without a declared size that ends cleanly is complete (HTTP cannot tell otherwise)",
    "documents are UTF-8 with \\n or \\r\\n terminators (a lone \\r inside a document makes the text-mode line count differ; C03 territory)",
    "mtimes are not in the future and do not tie between a stale table and a later rewritten document",
]

DOC = "documents.json"
FORMATS = ["gz", "bz2", "zst", "zip", "tar", "tar.gz", "tgz", "tar.bz2"]
MANUAL = {"gz": "pigz", "bz2": "pbzip2", "zst": "pzstd"}
LINES_PER_ENTRY = 50000
BASE = 1_600_000_000  # initial files live here (seconds), far in the past


# =============================================================================================
# published worlds (deterministic from the world id)
# =============================================================================================
WORLD_IDS = ["empty", "one-nonl", "ascii40", "utf300", "mid2500", "big"]
_WORLDS = {}


def _make_doc(wid):
    rng = random.Random("c14-world-" + wid)
    if wid == "empty":
        return b""
    if wid == "one-nonl":
        return b'{"only":"line without terminator"}'
    if wid == "ascii40":
        return b"".join(b'{"id":%d,"v":"%s"}\n' % (i, b"x" * rng.randrange(0, 30)) for i in range(40))
    if wid == "utf300":
        words = ["été", "naïve", "漢字", "Ünïcode", "plain", "日本", "ß"]
        return "".join('{"id":%d,"t":"%s %s"}\n' % (i, rng.choice(words), rng.choice(words)) for i in range(300)).encode("utf-8")
    if wid == "mid2500":
        return "".join('{"id":%d,"t":"%s","u":"é%d"}\n' % (i, "%030x" % rng.getrandbits(120) * rng.randrange(1, 5), i) for i in range(2500)).encode("utf-8")
    if wid == "big":
        out = []
        for i in range(2 * LINES_PER_ENTRY + 3):
            out.append("{}\n" if i % 7 else '{"n":%d,"s":"ü"}\n' % i)
        return "".join(out).encode("utf-8")
    raise HarnessError("unknown world " + wid)


def _archive(fmt, content, member=DOC):
    if fmt == "gz":
        return gzip.compress(content, mtime=0)
    if fmt == "bz2":
        return bz2.compress(content)
    if fmt == "zst":
        import zstandard

        return zstandard.ZstdCompressor(write_checksum=True).compress(content)
    if fmt == "zip":
        b = pyio.BytesIO()
        with zipfile.ZipFile(b, "w", zipfile.ZIP_DEFLATED) as z:
            z.writestr(zipfile.ZipInfo(member, date_time=(2020, 1, 1, 0, 0, 0)), content, compress_type=zipfile.ZIP_DEFLATED)
        return b.getvalue()
    b = pyio.BytesIO()
    if fmt == "tar":
        t = tarfile.open(fileobj=b, mode="w")
    elif fmt in ("tar.gz", "tgz"):
        t = tarfile.open(fileobj=gzip.GzipFile(fileobj=b, mode="wb", mtime=0), mode="w")
    elif fmt == "tar.bz2":
        t = tarfile.open(fileobj=b, mode="w:bz2")
    else:
        raise HarnessError("format " + fmt)
    ti = tarfile.TarInfo(member)
    ti.size = len(content)
    ti.mtime = BASE
    t.addfile(ti, pyio.BytesIO(content))
    fo = t.fileobj
    t.close()
    if fmt in ("tar.gz", "tgz"):
        fo.close()
    return b.getvalue()


def _damaged_payload(fmt, content):
    """an archive of `content` whose payload has one damaged literal byte: decompressed length and line count stay the
    same, only the archive's checksum detects it (gz: stored blocks; zst: raw literals).  None if not constructible."""
    if len(content) < 64:
        return None
    try:
        if fmt == "gz":
            a = gzip.compress(content, compresslevel=0, mtime=0)
        elif fmt == "zst":
            import zstandard

            a = zstandard.ZstdCompressor(level=-5, write_checksum=True).compress(content)
        else:
            return None
        # find a letter of the payload in the second half of the archive and change it
        probe = content[len(content) * 2 // 3: len(content) * 2 // 3 + 24]
        pos = a.find(probe)
        if pos < 0:
            return None
        for i in range(pos, pos + len(probe)):
            if 97 <= a[i] <= 121:
                return a[:i] + bytes([a[i] + 1]) + a[i + 1:]
    except Exception:
        return None
    return None


class World:
    """published document + archives + registered 'other' contents"""

    def __init__(self, wid):
        self.wid = wid
        self.doc = _make_doc(wid)
        self.dsize = len(self.doc)
        rng = random.Random("c14-others-" + wid)
        other = b"".join(b'#other %d %s\n' % (i, b"y" * rng.randrange(0, 20)) for i in range(max(3, self.doc.count(b"\n") // 2 + 2)))
        if len(other) == self.dsize:
            other += b"#\n"
        filler = (b"#garbage-of-the-right-size\n" * (self.dsize // 27 + 1))[: self.dsize]
        # doc-slot registry: tag -> full bytes ; (tag, k) denotes the first k bytes
        self.doc_others = {1: other, 2: filler}
        self.arch = {}
        self.arch_others = {}
        self._probe = {}
        self._tbl = {}

    def archive(self, fmt):
        if fmt not in self.arch:
            a = _archive(fmt, self.doc)
            self.arch[fmt] = a
            rng = random.Random("c14-arch-%s-%s" % (self.wid, fmt))
            mid = len(a) // 2
            half = self.doc[: len(self.doc) // 2]
            self.arch_others[fmt] = {
                1: bytes(rng.getrandbits(8) for _ in range(1000)),  # garbage
                2: a[:mid] + bytes([a[mid] ^ 0x55]) + a[mid + 1:],  # one flipped byte, same size
                3: _archive(fmt, self.doc_others[1]),  # valid archive of other content
                4: _archive(fmt, self.doc, member="elsewhere.json") if fmt not in MANUAL else _archive(fmt, self.doc_others[1] + b"#x\n"),
                5: _archive(fmt, half),  # valid archive of half the document
                6: bytes(rng.getrandbits(8) for _ in range(len(a))),  # garbage of the published size
            }
            dmg = _damaged_payload(fmt, self.doc)
            if dmg is not None:
                self.arch_others[fmt][7] = dmg  # payload damaged so that only the archive checksum can tell (same length, same lines)
        return self.arch[fmt]

    def doc_bytes(self, cid, size):
        src = self.doc if cid == 0 else self.doc_others[cid]
        if size > len(src):
            raise HarnessError(f"doc content ({cid},{size}) longer than registered bytes {len(src)}")
        return src[:size]

    def arch_bytes(self, fmt, cid, size):
        self.archive(fmt)
        src = self.arch[fmt] if cid == 0 else self.arch_others[fmt][cid]
        if size > len(src):
            raise HarnessError(f"archive content ({cid},{size}) longer than registered bytes {len(src)}")
        return src[:size]

    def table(self, cid, size):
        """cached table_for(document bytes (cid, size))"""
        k = (cid, size)
        if k not in self._tbl:
            self._tbl[k] = table_for(self.doc_bytes(cid, size))
        return self._tbl[k]

    def abstract_doc(self, data):
        """bytes -> (cid, size); registers unknown contents"""
        if self.doc.startswith(data):
            return 0, len(data)
        for t, b in sorted(self.doc_others.items()):
            if b.startswith(data):
                return t, len(data)
        t = max(self.doc_others) + 1
        t = max(t, 10)
        self.doc_others[t] = data
        return t, len(data)

    def abstract_arch(self, fmt, data):
        self.archive(fmt)
        if self.arch[fmt].startswith(data):
            return 0, len(data)
        for t, b in sorted(self.arch_others[fmt].items()):
            if b.startswith(data):
                return t, len(data)
        raise HarnessError("archive bytes not registered")


def world(wid):
    if wid not in _WORLDS:
        _WORLDS[wid] = World(wid)
    return _WORLDS[wid]


# =============================================================================================
# independent re-implementations used as environment oracle / direct oracle
# =============================================================================================
def table_for(content):
    """(table bytes, lines counted, decode_fails, list of entry texts) for document bytes, as a reader that
    decodes UTF-8 text and treats \\n, \\r\\n as terminators would produce it (every 50000th line)."""
    decode_fails = False
    try:
        content.decode("utf-8")
        usable = content
    except UnicodeDecodeError as e:
        decode_fails = True
        # only tears inside the last character are generated: complete lines before it are processed
        usable = content[: content.rfind(b"\n") + 1]
    entries = []
    pos = 0
    n = 0
    while pos < len(usable):
        nl = usable.find(b"\n", pos)
        pos = len(usable) if nl < 0 else nl + 1
        n += 1
        if n % LINES_PER_ENTRY == 0:
            entries.append("%d;%d" % (n, pos))
    tbl = "".join(e + "\n" for e in entries).encode()
    return tbl, n, decode_fails, entries


def linear_positions(content, ks):
    """byte position after skipping k lines one by one (binary readline semantics)"""
    out = {}
    pos = 0
    n = 0
    want = sorted(set(ks))
    i = 0
    while i < len(want) and want[i] == 0:
        out[0] = 0
        i += 1
    while i < len(want):
        if pos >= len(content):
            out[want[i]] = len(content)
            i += 1
            continue
        nl = content.find(b"\n", pos)
        pos = len(content) if nl < 0 else nl + 1
        n += 1
        while i < len(want) and want[i] == n:
            out[n] = pos
            i += 1
    return out


# =============================================================================================
# external tools (real pigz; shims for pbzip2 / pzstd; failing shims)
# =============================================================================================
_BIN = {}


EXT_MODES = ["off", "on", "fail", "failfull"]


def tool_dir(mode):
    """a private PATH directory (the only PATH entry while the real code runs):
      off       empty: no external tool -> io.is_executable() is false -> library path
      on        pigz / pbzip2 / pzstd that work (real pigz if installed, else gzip; bzip2; zstd)
      fail      tools that write a few bytes and exit 1 (e.g. unreadable input)
      failfull  tools that write output of the full length and line count but with damaged bytes, then exit 1
                (what a real tool does on a payload whose damage only the archive's checksum detects)"""
    if mode in _BIN:
        return _BIN[mode]
    d = tempfile.mkdtemp(prefix="c14-bin-%s-" % mode)
    import atexit

    atexit.register(shutil.rmtree, d, True)

    def script(name, body):
        p = os.path.join(d, name)
        with open(p, "w") as f:
            f.write("#!/bin/sh\n" + body)
        os.chmod(p, 0o755)

    sysdirs = [x for x in os.environ.get("PATH", "").split(os.pathsep) if x and not x.startswith(tempfile.gettempdir())]

    def which(n):
        return shutil.which(n, path=os.pathsep.join(sysdirs))

    real = {"pigz": which("pigz") or which("gzip"), "pbzip2": which("bzip2"), "pzstd": which("zstd")}
    # the zstd stand-in must not get -f: `zstd -f -d -c` copies input that is not a zstd frame through unchanged (pzstd has no such mode)
    flags = {"pigz": "-d -k -c", "pbzip2": "-d -k -c", "pzstd": "-d -c"}
    last = 'for a; do last="$a"; done\n'
    for n in ("pigz", "pbzip2", "pzstd"):
        if mode == "on" and real[n]:
            script(n, last + 'exec %s %s "$last"\n' % (real[n], flags[n]))
        elif mode == "fail":
            script(n, 'printf "PARTIAL"\necho "simulated failure" >&2\nexit 1\n')
        elif mode == "failfull" and real[n]:
            tr = which("tr")
            script(n, last + '%s %s "$last" 2>/dev/null | %s "a-y0-8" "b-z1-9"\necho "%s: corrupted -- crc mismatch (simulated)" >&2\nexit 1\n' % (real[n], flags[n], tr, n))
    _BIN[mode] = d
    return d


def tool_available(fmt, mode):
    if mode == "off" or fmt not in MANUAL:
        return False
    return os.path.exists(os.path.join(tool_dir(mode), MANUAL[fmt]))


def path_env(mode):
    return tool_dir(mode)


TOOL_ARGS = {"gz": ["pigz", "-d", "-k", "-c"], "bz2": ["pbzip2", "-d", "-k", "-m10000", "-c"], "zst": ["pzstd", "-f", "-d", "-c"]}


def probe_decompress(W, fmt, data, ext):
    """what the decompression library / tool does with archive bytes `data` — independent of rally.
    returns (outcome dict for the model, bytes left under the document name or None)"""
    key = (fmt, hashlib.sha1(data).hexdigest(), ext)
    if key in W._probe:
        return W._probe[key]
    scratch = tempfile.mkdtemp(prefix="c14-probe-")
    try:
        ap = os.path.join(scratch, DOC + "." + fmt)
        with open(ap, "wb") as f:
            f.write(data)
        out = {"open_fails": False, "hits_doc": True, "ext": None, "cid": 0, "chunks": [], "fails": False, "wrapped": False, "mtime": None}
        content = None
        if fmt in MANUAL:
            done = False
            if tool_available(fmt, ext):
                env = dict(os.environ, PATH=path_env(ext))
                p = subprocess.run(TOOL_ARGS[fmt] + [ap], stdout=subprocess.PIPE, stderr=subprocess.PIPE, env=env)
                out["ext"] = [len(p.stdout), p.returncode == 0]
                content = p.stdout
                done = p.returncode == 0
            if not done:
                if fmt == "gz":
                    fh = gzip.open(ap)
                elif fmt == "bz2":
                    fh = bz2.open(ap)
                else:
                    import zstandard

                    raw = open(ap, "rb")
                    fh = zstandard.ZstdDecompressor().stream_reader(raw)
                buf = []
                try:
                    while True:
                        c = fh.read(100 * 1024)
                        if c == b"":
                            break
                        buf.append(c)
                except Exception:
                    out["fails"] = True
                finally:
                    try:
                        fh.close()
                    except Exception:
                        pass
                out["chunks"] = [len(c) for c in buf]
                content = b"".join(buf)
        else:
            try:
                with warnings.catch_warnings():
                    warnings.simplefilter("ignore")
                    arc = zipfile.ZipFile(ap) if fmt == "zip" else tarfile.open(ap)
            except Exception:
                out["open_fails"] = True
                arc = None
            if arc is not None:
                tgt = os.path.join(scratch, "x")
                os.makedirs(tgt)
                try:
                    with warnings.catch_warnings():
                        warnings.simplefilter("ignore")
                        arc.extractall(path=tgt)
                except Exception:
                    out["fails"] = True
                    out["wrapped"] = True
                finally:
                    arc.close()
                dp = os.path.join(tgt, DOC)
                if os.path.isfile(dp):
                    content = open(dp, "rb").read()
                    out["chunks"] = [len(content)] if content else []
                    if os.stat(dp).st_mtime_ns == BASE * 1_000_000_000:
                        out["mtime"] = 0  # tarfile restored the member's mtime
                else:
                    out["hits_doc"] = False
        if content is not None and out["hits_doc"]:
            cid, _ = W.abstract_doc(content)
            out["cid"] = cid
            if out["ext"] is not None and not out["ext"][1]:
                # the failed tool's partial output is transient (the library path rewrites the file)
                pass
        res = (out, content if out["hits_doc"] and not out["open_fails"] else None)
        W._probe[key] = res
        return res
    finally:
        shutil.rmtree(scratch, ignore_errors=True)


# =============================================================================================
# scripted HTTP: real urllib3.HTTPResponse over a fake socket file
# =============================================================================================
class _FP:
    def __init__(self, chunks, end, on_read):
        self.chunks = list(chunks)
        self.end = end
        self.closed = False
        self.on_read = on_read

    def read(self, amt=None):
        self.on_read()
        if self.chunks:
            c = self.chunks.pop(0)
            if amt is not None and len(c) > amt:
                self.chunks.insert(0, c[amt:])
                c = c[:amt]
            return c
        if self.end == "reset":
            raise ConnectionResetError("connection reset by peer (scripted)")
        if self.end == "timeout":
            raise socket.timeout("timed out (scripted)")
        return b""

    def close(self):
        self.closed = True

    def isclosed(self):
        return self.closed

    def flush(self):
        pass


class Net:
    """replacement of net._request following the outcome plan; records what it saw"""

    def __init__(self, plan_bytes, target_path):
        self.plan = list(plan_bytes)
        self.calls = 0
        self.kwargs = []
        self.target_path = target_path
        self.initial = self._stat()
        self.target_changed_during_download = False

    def _stat(self):
        try:
            st = os.stat(self.target_path)
            return (st.st_size, st.st_mtime_ns, st.st_ino)
        except OSError:
            return None

    def _on_read(self):
        if self._stat() != self.initial:
            self.target_changed_during_download = True

    def __call__(self, method, url, **kw):
        import urllib3

        self.calls += 1
        self.kwargs.append({k: (v if isinstance(v, (int, bool, str)) else str(v)) for k, v in kw.items()})
        self.last_url = url
        a = self.plan.pop(0) if self.plan else {"kind": "connect"}
        if a["kind"] == "connect":
            raise urllib3.exceptions.MaxRetryError(None, url, "scripted connection failure")
        headers = {}
        if a["cl"] is not None:
            headers["Content-Length"] = str(a["cl"])
        return urllib3.HTTPResponse(
            body=_FP(a["chunks"], a["end"], self._on_read),
            headers=headers,
            status=a["status"],
            preload_content=False,
            enforce_content_length=kw.get("enforce_content_length", False),
            request_method=method,
        )


def chunk_bytes(data, sizes):
    out, pos = [], 0
    for n in sizes:
        out.append(data[pos:pos + n])
        pos += n
    if pos != len(data):
        raise HarnessError("chunk sizes do not add up")
    return out


def effective_end(att):
    """how the body ends as seen by the caller of urllib3 with enforce_content_length=True"""
    if att[0] == "connect":
        return None
    _, status, cl, cid, chunks, end = att
    if end == "clean" and isinstance(cl, int) and sum(chunks) != cl:
        return "protocol"
    return {"clean": "clean", "reset": "protocol", "timeout": "timeout"}[end]


# =============================================================================================
# materialising abstract states, observing real ones
# =============================================================================================
JUNK_TABLES = {1: b"this is not an offset table\n", 2: b"50000;7\n", 3: b"50000"}


def off_bytes(W, off):
    kind, a, b, c, _m = off
    if kind == "junk":
        return JUNK_TABLES[a]
    t = W.table(b, a)[0]
    return t if kind == "complete" else t[:c]


class Paths:
    def __init__(self, root, fmt):
        self.root = root
        self.doc = os.path.join(root, DOC)
        self.arch = os.path.join(root, DOC + "." + fmt) if fmt else None
        self.target = self.arch if fmt else self.doc
        self.tmp = self.target + ".tmp"
        self.off = self.doc + ".offset"
        self.offtmp = self.doc + ".offset.tmp"


def stamp(path, mtime, base=BASE):
    if mtime == 0:
        base = BASE  # model time 0 = the mtime recorded inside tar archives
    t = (base + mtime) * 1_000_000_000
    os.utime(path, ns=(t, t))


def materialise(W, fmt, fs, P, base=BASE):
    def put(path, data, mtime):
        with open(path, "wb") as f:
            f.write(data)
        stamp(path, mtime, base)

    if fs["doc"] is not None:
        size, cid, m = fs["doc"]
        put(P.doc, W.doc_bytes(cid, size), m)
    if fs["arch"] is not None and fmt:
        size, cid, m = fs["arch"]
        put(P.arch, W.arch_bytes(fmt, cid, size), m)
    if fs["tmp"] is not None:
        size, cid, m = fs["tmp"]
        put(P.tmp, W.arch_bytes(fmt, cid, size) if fmt else W.doc_bytes(cid, size), m)
    if fs["off"] is not None:
        put(P.off, off_bytes(W, fs["off"]), fs["off"][4])
    if fs.get("offtmp") is not None:
        put(P.offtmp, off_bytes(W, fs["offtmp"]), fs["offtmp"][4])


def read_or_none(p):
    try:
        with open(p, "rb") as f:
            return f.read()
    except FileNotFoundError:
        return None


def observe(P):
    """bytes and mtimes of the four names"""
    out = {}
    for k in ("doc", "arch", "tmp", "off", "offtmp"):
        p = getattr(P, k)
        if p is None:
            out[k] = None
            continue
        data = read_or_none(p)
        out[k] = None if data is None else (data, os.stat(p).st_mtime_ns)
    return out


# =============================================================================================
# running the real code
# =============================================================================================
def classify_exception(e, P):
    from esrally import exceptions
    import urllib3

    msg = str(getattr(e, "message", None) or e)
    if isinstance(e, exceptions.DataError):
        if "Cannot download data because no base URL" in msg:
            return "DataError:no-base-url"
        if "cannot be downloaded because no base URL" in msg:
            return "DataError:present-wrong-size-no-url"
        if "does not support test mode" in msg:
            return "DataError:test-mode-404"
        m = re.search(r"Could not download \[.*\] to \[.*\] \(HTTP status: (\d+)", msg)
        if m:
            return "DataError:http-status-" + m.group(1)
        if msg.startswith("Download of ["):
            return "DataError:download-corrupt"
        if "is corrupt. Downloaded" in msg:
            return "DataError:downloaded-corrupt"
        if "did not create" in msg:
            return "DataError:did-not-create"
        if "is corrupt. Extracted" in msg:
            return "DataError:extracted-corrupt"
        if "are invalid. Expected" in msg:
            return "DataError:lines-mismatch"
        if "is present but does not have the expected size" in msg or "is present but does not have " in msg:
            return "DataError:bundled-doc-wrong-size" if msg.startswith("[" + P.doc + "]") else "DataError:bundled-archive-wrong-size"
        return "DataError:?" + msg[:60]
    if isinstance(e, exceptions.SystemSetupError):
        if "disable offline mode" in msg:
            return "SystemSetupError:offline"
        if "Verify data are available" in msg:
            return "SystemSetupError:not-downloaded"
        return "SystemSetupError:?" + msg[:60]
    if isinstance(e, urllib3.exceptions.ReadTimeoutError):
        return "ReadTimeoutError"
    if isinstance(e, urllib3.exceptions.ProtocolError):
        return "ProtocolError"
    if isinstance(e, urllib3.exceptions.MaxRetryError):
        return "ConnectError"
    if isinstance(e, RuntimeError) and "Could not decompress provided archive" in msg:
        return "RuntimeError:could-not-decompress"
    if isinstance(e, UnicodeDecodeError):
        return "UnicodeDecodeError"
    try:
        import zstandard

        zerr = (zstandard.ZstdError,)
    except Exception:
        zerr = ()
    if isinstance(e, (EOFError, zlib.error, zipfile.BadZipFile, tarfile.TarError, OSError) + zerr):
        return "DecompressRaw"
    return "Unexpected:" + type(e).__name__


EXPLICIT = re.compile(r"^(DataError:[a-z]|SystemSetupError:[a-z]|ReadTimeoutError|ProtocolError|ConnectError|RuntimeError:could|UnicodeDecodeError|DecompressRaw)")


def make_docs(spec, fmt):
    from esrally.track import track

    return track.Documents(
        source_format=track.Documents.SOURCE_FORMAT_BULK,
        document_file=DOC,
        document_archive=(DOC + "." + fmt) if fmt else None,
        base_url=spec["base_url"],
        includes_action_and_meta_data=False,
        number_of_documents=spec["nlines"],
        compressed_size_in_bytes=spec["csize"],
        uncompressed_size_in_bytes=spec["usize"],
    )


class LoopGuard(Exception):
    """raised by the harness when the preparation loop keeps calling download / decompress"""


def scripted_net(W, fmt, plan, target_path):
    body_src = (lambda cid, n: W.arch_bytes(fmt, cid, n)) if fmt else W.doc_bytes
    plan_bytes = []
    for a in plan:
        if a[0] == "connect":
            plan_bytes.append({"kind": "connect"})
        else:
            _, status, cl, cid, chunks, end = a
            plan_bytes.append({"kind": "resp", "status": status, "cl": cl, "chunks": chunk_bytes(body_src(cid, sum(chunks)), chunks), "end": end})
    return Net(plan_bytes, target_path)


def run_real(W, fmt, spec, plan, ext, P, bundled=False):
    """runs the real preparator; returns (result string, Net)"""
    from esrally.track import loader
    from esrally.utils import io, net

    fake = scripted_net(W, fmt, plan, P.target)
    dl, dc = loader.Downloader(offline=spec["offline"], test_mode=spec["test_mode"]), loader.Decompressor()
    calls = [0]

    def guarded(f):
        def w(*a, **k):
            calls[0] += 1
            if calls[0] > 8:  # the real loop needs at most one download and one decompression
                raise LoopGuard()
            return f(*a, **k)

        return w

    dl.download, dc.decompress = guarded(dl.download), guarded(dc.decompress)
    prep = loader.DocumentSetPreparator("c14-track", dl, dc)
    docs = make_docs(spec, fmt)
    kwd = dict(net.download_http.__kwdefaults__ or {})
    kwd["sleep"] = lambda s: None
    with mock.patch.object(net, "_request", fake), mock.patch.object(net.download_http, "__kwdefaults__", kwd), \
            mock.patch.dict(os.environ, {"PATH": path_env(ext)}), warnings.catch_warnings():
        warnings.simplefilter("ignore")
        try:
            if bundled:
                r = prep.prepare_bundled_document_set(docs, P.root)
                res = "true" if r is True else "false" if r is False else "Unexpected:return-" + repr(r)
            else:
                r = prep.prepare_document_set(docs, P.root)
                res = "ok" if r is None else "Unexpected:return-" + repr(r)
        except LoopGuard:
            res = "DOES-NOT-TERMINATE"
        except Exception as e:  # noqa
            res = classify_exception(e, P)
    return res, fake


# =============================================================================================
# model call
# =============================================================================================
def spec_json(spec, fmt):
    return {"has_archive": bool(fmt), "csize": spec["csize"], "usize": spec["usize"], "nlines": spec["nlines"],
            "has_base_url": bool(spec["base_url"]), "offline": spec["offline"], "test_mode": spec["test_mode"]}


def plan_json(plan):
    out = []
    for a in plan:
        if a[0] == "connect":
            out.append(["connect"])
        else:
            _, status, cl, cid, chunks, end = a
            out.append(["resp", status, cl if isinstance(cl, int) else None, cid, [c for c in chunks], effective_end(a)])
    return out


def build_world_json(W, fmt, spec, fs, plan, ext, split=None):
    """every content the scenario can put under the document / archive names, with what the environment does with it.
    split = (what, absolute byte position) refines the chunking of one operation (crash scenarios)."""
    lines, dc, tbl, undec = {}, {}, {}, {}

    def add_doc(cid, size):
        if size == 0:
            cid = 0  # an empty file is a prefix of the published bytes (the model's canonical form)
        if (cid, size) in lines:
            return
        t, n, bad, entries = W.table(cid, size)
        lines[(cid, size)] = n
        ch = []
        for e in entries:
            ch += [len(e), 1]  # print(text) + print's end, as separate writes
        if split and split[0] in ("off", "offtmp"):
            ch = split_at(ch, split[1])
        tbl[(cid, size)] = ch
        if bad:
            undec[(cid, size)] = True

    def add_arch(cid, size):
        if size == 0:
            cid = 0
        if not fmt or (cid, size) in dc:
            return
        out, content = probe_decompress(W, fmt, W.arch_bytes(fmt, cid, size), ext)
        out = dict(out)
        if split and split[0] == "doc":
            out["chunks"] = split_at(out["chunks"], split[1])
        dc[(cid, size)] = out
        if out["hits_doc"] and not out["open_fails"]:
            total = sum(out["chunks"])
            if out["ext"] is not None and out["ext"][1]:
                total = out["ext"][0]
            add_doc(out["cid"], total)

    for one in (fs if isinstance(fs, list) else [fs]):
        if one["doc"] is not None:
            add_doc(one["doc"][1], one["doc"][0])
        if one["arch"] is not None:
            add_arch(one["arch"][1], one["arch"][0])
    for a in plan:
        if a[0] == "resp" and a[1] <= 299:
            (add_arch if fmt else add_doc)(a[3], sum(a[4]))
    return {
        "dsize": W.dsize,
        "asize": len(W.archive(fmt)) if fmt else 0,
        "lines": [[c, s, n] for (c, s), n in sorted(lines.items())],
        "dc": [[c, s, o] for (c, s), o in sorted(dc.items())],
        "tbl": [[c, s, t] for (c, s), t in sorted(tbl.items())],
        "undecodable": [[c, s] for (c, s) in sorted(undec)],
    }


def split_at(chunks, pos):
    out, cum = [], 0
    for c in chunks:
        if cum < pos < cum + c:
            out += [pos - cum, cum + c - pos]
        else:
            out.append(c)
        cum += c
    return out


def wait_for_driver(ctx):
    """other builders relink the shared driver binary now and then: wait for it instead of failing the whole run"""
    from harness import framework

    if ctx._lean is None:
        for _ in range(180):
            if os.path.exists(framework.DRIVER):
                break
            time.sleep(1)


def call_model(ctx, W, fmt, spec, fs, plan, ext, bundled=False, trace=False, split=None, plan_split=None):
    wait_for_driver(ctx)
    pj = plan_json(plan)
    if plan_split is not None:
        i, pos = plan_split
        if i < len(pj) and pj[i][0] == "resp":
            pj[i][4] = split_at(pj[i][4], pos)
    args = {"world": build_world_json(W, fmt, spec, fs, plan, ext, split), "spec": spec_json(spec, fmt), "fs": fs, "plan": pj, "trace": trace}
    m = ctx.model("corpus", "prepare_bundled" if bundled else "prepare", args)
    if "r" not in m:
        raise HarnessError("model error: " + json.dumps(m)[:300])
    return m


# =============================================================================================
# comparison + direct oracle
# =============================================================================================
def expected_bytes(W, fmt, slot, f):
    if f is None:
        return None
    size, cid, _m = f
    if slot == "doc" or (slot == "tmp" and not fmt):
        return W.doc_bytes(cid, size)
    return W.arch_bytes(fmt, cid, size)


def compare_state(ctx, what, W, fmt, mfs, obs, clock0, t_run_ns, base=BASE):
    """model final state vs files on disk (bytes, freshness of mtimes, table-vs-document mtime order)"""
    bad = []
    for slot in ("doc", "arch", "tmp"):
        if slot == "arch" and not fmt:
            continue
        exp = expected_bytes(W, fmt, slot, mfs[slot])
        got = obs[slot]
        if (exp is None) != (got is None):
            bad.append(f"{slot}: model {'absent' if exp is None else 'present'} / disk {'absent' if got is None else 'present'}")
            continue
        if exp is None:
            continue
        if exp != got[0]:
            bad.append(f"{slot}: bytes differ (model size {len(exp)} cid {mfs[slot][1]}, disk size {len(got[0])})")
        fresh_model = mfs[slot][2] >= clock0
        fresh_disk = got[1] >= t_run_ns
        if fresh_model != fresh_disk:
            bad.append(f"{slot}: written-in-this-run model {fresh_model} disk {fresh_disk}")
        elif not fresh_model and got[1] != ((BASE if mfs[slot][2] == 0 else base) + mfs[slot][2]) * 1_000_000_000:
            bad.append(f"{slot}: old mtime changed")
    mo, do = mfs["off"], obs["off"]
    if (mo is None) != (do is None):
        bad.append(f"off: model {'absent' if mo is None else 'present'} / disk {'absent' if do is None else 'present'}")
    elif mo is not None:
        if off_bytes(W, mo) != do[0]:
            bad.append(f"off: bytes differ (model {mo[:4]}, disk {do[0][:60]!r})")
        if (mo[4] >= clock0) != (do[1] >= t_run_ns):
            bad.append("off: written-in-this-run differs")
        if mfs["doc"] is not None and obs["doc"] is not None:
            if (mo[4] >= mfs["doc"][2]) != (do[1] >= obs["doc"][1]):
                bad.append("off: mtime order relative to document differs")
    mt, dt = mfs.get("offtmp"), obs.get("offtmp")
    if (mt is None) != (dt is None):
        bad.append(f"offset.tmp: model {'absent' if mt is None else 'present'} / disk {'absent' if dt is None else 'present'}")
    elif mt is not None:
        if off_bytes(W, mt) != dt[0]:
            bad.append(f"offset.tmp: bytes differ (model {mt[:4]}, disk {dt[0][:60]!r})")
        if (mt[4] >= clock0) != (dt[1] >= t_run_ns):
            bad.append("offset.tmp: written-in-this-run differs")
    if bad:
        ctx.diff(what, {"fs": mfs}, {"differences": bad})
    return not bad


SAMPLE_LINES = [0, 1, 2, 49999, 50000, 50001, 99999, 100000, 100001, 100002]


def table_positions_ok(P, content, nlines):
    """real io.skip_lines with the on-disk table vs skipping lines one by one"""
    from esrally.utils import io

    total = content.count(b"\n") + (1 if content and not content.endswith(b"\n") else 0)
    ks = sorted(set(k for k in SAMPLE_LINES + [total - 1, total, nlines] if 0 <= k <= total))
    lin = linear_positions(content, ks)
    bad = []
    for k in ks:
        try:
            with open(P.doc, "rb") as f:
                io.skip_lines(P.doc, f, k)
                got = f.tell()
        except Exception as e:  # torn table that cannot be parsed
            got = "raises " + type(e).__name__
        if got != lin[k]:
            bad.append([k, got, lin[k]])
    return bad


def input_class(W, fmt, spec, fs):
    """names the hypotheses of the partial theorems that the scenario violates (None = inside all of them)"""
    cls = []
    for slot, real in (("doc", W.dsize), ("arch", len(W.archive(fmt)) if fmt else None)):
        f = fs[slot]
        if f is not None and f[1] != 0 and real is not None:
            declared = spec["usize"] if slot == "doc" else spec["csize"]
            if f[0] == real or (declared is not None and f[0] == declared):
                cls.append("right-sized-other-" + slot)
    if spec["usize"] is not None and spec["usize"] != W.dsize:
        cls.append("untruthful-usize")
    return cls


TAR_FAMILY = ("tar", "tar.gz", "tgz", "tar.bz2")


def forced_hypotheses_violated(W, fmt, spec, fs0):
    """which of the hypotheses forced by the proof of prepare_ok_means_verified the scenario violates"""
    v = []
    if spec["usize"] is None:
        v.append("usize-undeclared")
    off, doc = fs0["off"], fs0["doc"]
    if off is not None and doc is not None and off[4] >= doc[2] and off_bytes(W, off) != W.table(doc[1], doc[0])[0]:
        v.append("offset-valid-by-mtime-but-not-this-documents-table")
    if fmt in TAR_FAMILY and off is not None:
        v.append("format-restores-mtime")
    return v


def count_lines(content):
    return content.count(b"\n") + (1 if content and not content.endswith(b"\n") else 0)


def oracle(ctx, W, fmt, spec, fs0, plan, res, obs0, obs, fake, P, bundled=False, origin="", off_origin="generated"):
    """the property's own statement on the implementation's observable output (independent of the model).
    off_origin says who wrote the `.offset` that is on disk when this run starts: "generated" (initial state of the
    scenario / not by the code under test), "run" (an earlier completed run of the code under test, returned or raised),
    "crash-after-publish" (an earlier run of the code under test killed right after the table was published).
    Every oracle class names ONE cause, so that a known finding cannot hide a violation with a different cause."""
    excluded = input_class(W, fmt, spec, fs0)
    forced = forced_hypotheses_violated(W, fmt, spec, fs0)
    other_body = any(a[0] == "resp" and a[3] != 0 for a in plan)
    if res in ("ok", "true"):
        doc = obs["doc"]
        problems, tbl_bad, cls = [], [], None
        kept = obs0["off"] is not None and obs["off"] is not None and obs0["off"] == obs["off"]
        doc_rewritten = obs0["doc"] != obs["doc"]
        if doc is None:
            problems.append("document file missing")
            cls = "inside-hypotheses:unverified-document-accepted"
        else:
            if spec["usize"] is not None and len(doc[0]) != spec["usize"]:
                problems.append(f"document has {len(doc[0])} bytes, track declares {spec['usize']}")
            if doc[0] != W.doc:
                kind = "empty, not" if len(doc[0]) == 0 else "a strict prefix of" if W.doc.startswith(doc[0]) else "different from"
                problems.append(f"document ({len(doc[0])} bytes, {count_lines(doc[0])} lines) is {kind} the published content ({W.dsize} bytes)")
            tbl_bad = ["offset table missing"] if obs["off"] is None else table_positions_ok(P, doc[0], spec["nlines"])
        if problems and doc is not None:
            cls = "inside-hypotheses:unverified-document-accepted"
            ref = None
            if fmt and doc_rewritten and obs["arch"] is not None:
                # the document was written by this run's decompression: compare with the reference decompression
                # (library, run independently of rally) of the archive that is on disk
                ref = probe_decompress(W, fmt, obs["arch"][0], "off")
            truthful_lines = spec["nlines"] == W.table(0, W.dsize)[1]
            if ref is not None and (ref[0]["fails"] or ref[0]["open_fails"]):
                cls = "corrupt-archive-accepted-reference-decompression-fails"
                problems.append("the reference decompression of the archive on disk raises (corrupt archive), yet its output was accepted")
            elif ref is not None and ref[1] is not None and ref[1] != doc[0]:
                cls = "accepted-document-differs-from-reference-decompression"
                problems.append("the accepted document is not what the reference decompression of the archive on disk yields")
            elif W.doc.startswith(doc[0]) and spec["usize"] is None:
                if not truthful_lines:
                    cls = None  # the track declares a wrong document count: untruthful declaration
                    ctx.count("excluded:untruthful-line-count")
                elif count_lines(doc[0]) == spec["nlines"]:
                    # the only check there is (line count) cannot tell: torn inside the last line
                    cls = "partial-document-accepted-size-undeclared"
                elif kept and off_origin == "generated":
                    cls = None  # a table that was on disk before vouches for the document (the memo cannot be verified: no checksum)
                    ctx.count("excluded:pre-existing-offset-table-vouches-for-document")
                elif kept and off_origin == "run":
                    cls = "line-count-check-skipped-table-left-by-failed-run"
                elif kept and off_origin == "crash-after-publish":
                    cls = "offset-table-published-before-line-count-verified"
                else:
                    cls = "inside-hypotheses:line-count-mismatch-accepted"
            elif excluded or other_body or not W.doc.startswith(doc[0]):
                # other content of an accepted size (pre-existing file, body of other content, sound archive of other content or
                # damage that the reference decompression does not detect either) / untruthful declaration: no checksum can tell
                cls = None
                ctx.count("excluded:other-content-or-untruthful-size")
        elif tbl_bad:
            restored = doc is not None and doc[1] == BASE * 1_000_000_000
            if kept and fmt in TAR_FAMILY and doc_rewritten and restored and obs["off"][1] >= doc[1]:
                cls = "stale-offset-table-kept-because-tar-extraction-restores-mtime"
            elif kept and "offset-valid-by-mtime-but-not-this-documents-table" in forced:
                if off_origin != "generated":
                    cls = "torn-offset-table-left-by-current-code"  # must not happen any more (atomic publish)
                else:
                    cls = None  # a foreign table with a newer mtime that was on disk before: nothing can tell (no checksum)
                    ctx.count("excluded:foreign-offset-table-newer-than-document")
            else:
                cls = "inside-hypotheses:offset-table-inconsistent"
        if cls:
            ctx.fail(cls, origin + "preparation returned normally but the data are not complete/verified",
                     {"document": "published content = reference decompression of a sound archive, declared size and line count", "offset table": "positions = linear skipping"},
                     {"problems": problems, "table mismatches [line, with table, linear]": tbl_bad[:5], "result": res,
                      "offset table on disk at start written by": off_origin if obs0["off"] is not None else None, "table kept": kept,
                      "forced hypotheses violated by the scenario": forced})
        if not forced and not excluded and not other_body:
            ctx.count("inside-all-hypotheses:returned-normally")
    elif res == "DOES-NOT-TERMINATE":
        ctx.fail("does-not-terminate", origin + "the preparation loop keeps downloading / decompressing", "return or explicit error", res)
    elif res != "false" and not EXPLICIT.match(res):
        ctx.fail("non-explicit-error", origin + "preparation failed with something that is not an explicit error", "explicit error class", res)
    # download atomicity: the final name is unchanged, or holds a completely received body
    if fake.target_changed_during_download:
        ctx.fail("final-name-touched-during-download", origin + "the final name changed while the body was still being received", None, None)
    tslot = "arch" if fmt else "doc"
    final_name_check(ctx, W, fmt, spec["csize"] if fmt else spec["usize"], plan, obs0[tslot], obs[tslot], origin)


def final_name_check(ctx, W, fmt, declared, plan, before, after, origin=""):
    """the download's final name (archive, or document when there is no archive) is unchanged or holds a complete body.
    (With an archive the document name is written by decompression, which the download clause does not cover.)"""
    changed = (before is None) != (after is None) or (after is not None and before != after)
    if not changed:
        return
    if after is None:
        ctx.fail("final-name-removed", origin + "the final name was removed", None, None)
        return
    src = (lambda cid, n: W.arch_bytes(fmt, cid, n)) if fmt else W.doc_bytes
    bodies = [src(a[3], sum(a[4])) for a in plan if a[0] == "resp" and a[1] <= 299 and effective_end(a) == "clean"]
    if after[0] not in bodies:
        ctx.fail("partial-download-under-final-name", origin + "the final name holds something that is not a completely received body", None, {"size": len(after[0])})
        return
    if declared is not None and len(after[0]) != declared:
        ctx.fail("download-size-unverified", origin + "installed file does not have the declared size", declared, len(after[0]))
        return
    full = W.archive(fmt) if fmt else W.doc
    if full.startswith(after[0]) and len(after[0]) < len(full):
        if declared is not None:
            ctx.count("excluded:untruthful-declared-size")
        elif any(a[0] == "resp" and isinstance(a[2], int) and a[2] == len(after[0]) for a in plan):
            ctx.count("excluded:server-content-length-short")
        else:
            ctx.count("excluded:short-body-no-length-information")


def execute(ctx, W, fmt, spec, fs0, plan, ext, bundled=False, root=None, base=BASE, origin="", sig_extra=(), off_origin="generated"):
    """materialise (unless root is given), run model and real code, compare, apply the direct oracle"""
    own = root is None
    if own:
        root = tempfile.mkdtemp(prefix="c14-")
    try:
        P = Paths(root, fmt)
        if own:
            materialise(W, fmt, fs0, P, base)
        m = call_model(ctx, W, fmt, spec, fs0, plan, ext, bundled)
        obs0 = observe(P)
        t_run = time.time_ns() - 5_000_000_000
        res, fake = run_real(W, fmt, spec, plan, ext, P, bundled)
        obs = observe(P)
        mres = m["r"]["res"]
        if mres != res:
            ctx.diff(origin + "result", mres, res)
        compare_state(ctx, origin + "final-state", W, fmt, m["r"]["fs"], obs, fs0["clock"], t_run, base)
        if mres == "OUT-OF-FUEL":
            ctx.diff(origin + "fuel", "loop bound hit", res)
        oracle(ctx, W, fmt, spec, fs0, plan, res, obs0, obs, fake, P, bundled, origin, off_origin)
        if obs["offtmp"] is not None and obs0["offtmp"] != obs["offtmp"]:
            ctx.fail("offset-tmp-left-behind", origin + "a finished preparation left <document>.offset.tmp behind", None, res)
        # request arguments the model relies on (urllib3 must enforce Content-Length)
        for kw in fake.kwargs:
            if kw.get("enforce_content_length") is not True or kw.get("preload_content") is not False:
                ctx.count("request-kwargs-unexpected")
        nontrivial = any(fs0.get(k) is not None for k in ("doc", "arch", "tmp", "off", "offtmp")) or bool(plan)
        ctx.sig([m.get("tags"), res.split("-status-")[0], "manual" if fmt in MANUAL else "member" if fmt else "none", ext if fmt in MANUAL else "-",
                 state_class(W, fmt, spec, fs0), list(sig_extra)], nontrivial=nontrivial)
        ctx.count("res:" + res.split(":")[0])
        ctx.count("fmt:" + str(fmt))
        return m, res, obs
    finally:
        if own:
            shutil.rmtree(root, ignore_errors=True)


def state_class(W, fmt, spec, fs):
    def fc(f, real, declared):
        if f is None:
            return "absent"
        size, cid, _ = f
        k = "pub" if cid == 0 else "other"
        if cid == 0 and size == real:
            k = "complete"
        elif cid == 0 and size == 0:
            k = "empty"
        return k + ("" if declared is None else "+ok" if size == declared else "+bad")

    off = fs["off"]
    oc = "absent"
    if off is not None:
        oc = off[0]
        if fs["doc"] is not None:
            oc += ">=" if off[4] >= fs["doc"][2] else "<"
            if off[0] != "junk":
                oc += "same" if (off[1], off[2]) == (fs["doc"][0], fs["doc"][1]) else "stale"
    return [fc(fs["doc"], W.dsize, spec["usize"]), fc(fs["arch"], len(W.archive(fmt)) if fmt else None, spec["csize"]), "tmp" if fs["tmp"] else "-", oc]


# =============================================================================================
# generators
# =============================================================================================
def pick_world(rng):
    r = rng.random()
    if r < 0.08:
        return "big"
    if r < 0.20:
        return "mid2500"
    if r < 0.27:
        return "empty"
    if r < 0.34:
        return "one-nonl"
    return rng.choice(["ascii40", "utf300"])


def gen_size_decl(rng, real, alt):
    r = rng.random()
    if r < 0.55:
        return real
    if r < 0.80:
        return None
    if r < 0.90 and alt is not None:
        return alt
    return rng.choice([0, real + 1, max(0, real - 1)])


def prefix_points(rng, data):
    """interesting tear points of a byte string"""
    n = len(data)
    pts = {0, n, max(0, n - 1), n // 2, min(n, 1)}
    nl = [i + 1 for i in range(min(n, 4000)) if data[i:i + 1] == b"\n"]
    if nl:
        pts.add(rng.choice(nl))
    last_nl = data.rfind(b"\n", 0, max(0, n - 1))
    if last_nl >= 0:
        pts.add(last_nl + 1)
        if last_nl + 2 <= n:
            pts.add(rng.randrange(last_nl + 1, n))  # tear inside the last line: same number of lines
    # inside a multi-byte character
    for i in range(min(n, 3000)):
        if data[i] >= 0xC0:
            pts.add(i + 1)
            break
    for i in range(n - 1, max(-1, n - 200), -1):
        if data[i] >= 0xC0:
            pts.add(i + 1)
            break
    pts.add(rng.randrange(0, n + 1))
    return sorted(pts)


def gen_file(rng, data, others, declared, real_other_ok=True):
    """abstract (size, cid) of a file of the family of `data` (published bytes) or of registered other bytes"""
    r = rng.random()
    if r < 0.28:
        return None
    if r < 0.50:
        return [len(data), 0]
    if r < 0.80:
        return [rng.choice(prefix_points(rng, data)), 0]
    tag = rng.choice(sorted(others))
    b = others[tag]
    if rng.random() < 0.8 or len(b) == 0:
        return [len(b), tag] if len(b) else [0, 0]
    k = rng.randrange(1, len(b) + 1)
    return [k, tag]


def gen_off(rng, W, doc, mt):
    """offset-table state relative to the document state `doc` = [size, cid, mtime] or None"""
    r = rng.random()
    if r < 0.35:
        return None
    order = rng.choice(["newer", "newer", "older", "equal"])
    if doc is None:
        m = mt()
    elif order == "equal":
        m = doc[2]
    elif order == "older":
        m = max(0, doc[2] - 1 - rng.randrange(0, 3))
        if m == doc[2]:
            m = doc[2]
    else:
        m = doc[2] + 1 + rng.randrange(0, 3)
    src = [doc[0], doc[1]] if doc is not None and rng.random() < 0.7 else [W.dsize, 0]
    if src[1] != 0 and src[0] > len(W.doc_others.get(src[1], b"")):
        src = [W.dsize, 0]
    full = W.table(src[1], src[0])[0]
    k = rng.random()
    if k < 0.45:
        return ["complete", src[0], src[1], 0, m]
    if k < 0.85:
        cut = rng.choice(sorted({0, max(0, len(full) - 1), len(full) // 2, max(0, len(full) - 3), rng.randrange(0, len(full) + 1)}))
        return ["torn", src[0], src[1], cut, m]
    return ["junk", rng.choice([1, 2, 3]), 0, 0, m]


def gen_chunks(rng, total):
    if total == 0:
        return []
    mode = rng.random()
    if mode < 0.5:
        sizes = [65536] * (total // 65536) + ([total % 65536] if total % 65536 else [])
        return sizes
    out = []
    left = total
    while left > 0:
        c = min(left, rng.choice([1, 7, 100, 1000, 4096, 65536, rng.randrange(1, 65537)]))
        out.append(c)
        left -= c
        if len(out) > 40:
            out.append(left)
            break
    out = [c for c in out if c > 0]
    # the fake socket never hands out more than the 64 KiB the caller asks for
    fin = []
    for c in out:
        while c > 65536:
            fin.append(65536)
            c -= 65536
        fin.append(c)
    return fin


def gen_attempt(rng, full, others, kind=None):
    kind = kind or rng.choice(["good", "good", "good", "short-cl", "short-nocl", "reset", "timeout", "status", "connect", "other", "wrong-cl", "nocl", "badcl", "long-cl"])
    n = len(full)
    if kind == "connect":
        return ["connect"]
    if kind == "status":
        return ["resp", rng.choice([300, 301, 403, 404, 404, 416, 500, 503]), rng.choice([None, 0]), 0, [], "clean"]
    if kind == "good":
        return ["resp", rng.choice([200, 200, 200, 206, 299]), n, 0, gen_chunks(rng, n), "clean"]
    if kind == "nocl":
        return ["resp", 200, None, 0, gen_chunks(rng, n), "clean"]
    if kind == "badcl":
        return ["resp", 200, "chunked?", 0, gen_chunks(rng, n), "clean"]
    k = rng.choice(prefix_points(rng, full)) if n else 0
    if kind == "short-cl":
        return ["resp", 200, n, 0, gen_chunks(rng, min(k, max(0, n - 1))), "clean"]
    if kind == "short-nocl":
        return ["resp", 200, None, 0, gen_chunks(rng, min(k, max(0, n - 1))), "clean"]
    if kind == "reset":
        return ["resp", 200, rng.choice([n, None]), 0, gen_chunks(rng, min(k, max(0, n - 1))), "reset"]
    if kind == "timeout":
        return ["resp", 200, rng.choice([n, None]), 0, gen_chunks(rng, min(k, max(0, n - 1))), "timeout"]
    if kind == "wrong-cl":
        return ["resp", 200, max(0, n - 1 - rng.randrange(0, 3)) if rng.random() < 0.5 else n + 1 + rng.randrange(0, 3), 0, gen_chunks(rng, n), "clean"]
    if kind == "long-cl":
        kk = max(0, n - 1)
        return ["resp", 200, kk, 0, gen_chunks(rng, kk), "clean"]  # server serves a consistent but shorter file
    if kind == "other":
        tag = rng.choice(sorted(others))
        b = others[tag]
        return ["resp", 200, rng.choice([len(b), None]), tag, gen_chunks(rng, len(b)), "clean"]
    raise HarnessError(kind)


def gen_plan(rng, full, others):
    r = rng.random()
    if r < 0.30:
        return [gen_attempt(rng, full, others, "good")]
    if r < 0.45:
        k = rng.choice([1, 2, 9, 10, 11, 12])
        return [gen_attempt(rng, full, others, rng.choice(["reset", "timeout", "short-cl"])) for _ in range(k)] + [gen_attempt(rng, full, others, "good")]
    if r < 0.50:
        return []
    return [gen_attempt(rng, full, others) for _ in range(rng.choice([1, 1, 2, 3]))]


def gen_fs(rng, W, fmt, spec):
    """an initial state of one data directory"""
    full_arch = W.archive(fmt) if fmt else None
    clock = [rng.randrange(0, 5)]

    def mt():
        clock[0] += rng.randrange(1, 4)
        return clock[0]

    fs = {"doc": None, "arch": None, "tmp": None, "off": None, "offtmp": None, "clock": 0}
    d = gen_file(rng, W.doc, {1: W.doc_others[1], 2: W.doc_others[2]}, spec["usize"])
    if d is not None:
        fs["doc"] = d + [mt()]
    if fmt:
        a = gen_file(rng, full_arch, W.arch_others[fmt], spec["csize"])
        if a is not None:
            fs["arch"] = a + [mt()]
    if rng.random() < 0.2:
        src = full_arch if fmt else W.doc
        fs["tmp"] = [rng.randrange(0, len(src) + 1), 0, mt()]
    fs["off"] = gen_off(rng, W, fs["doc"], mt)
    if rng.random() < 0.12:  # left by a crash inside an earlier table build (or anything else under that name)
        fs["offtmp"] = gen_off(rng, W, fs["doc"], mt)
    fs["clock"] = max([clock[0]] + [f[-1] for f in (fs["doc"], fs["arch"], fs["tmp"], fs["off"], fs["offtmp"]) if f is not None]) + 1
    return fs


def gen_scenario(rng, bundled=False, fmt_choice=None):
    wid = pick_world(rng)
    W = world(wid)
    fmt = rng.choice(FORMATS + [None, None]) if fmt_choice is None else fmt_choice
    full_arch = W.archive(fmt) if fmt else None
    real_lines = W.table(0, W.dsize)[1]
    spec = {
        "csize": gen_size_decl(rng, len(full_arch), None) if fmt else None,
        "usize": gen_size_decl(rng, W.dsize, None),
        "nlines": real_lines if rng.random() < 0.75 else rng.choice([0, real_lines + 1, max(0, real_lines - 1), 7]),
        "base_url": rng.choice(["http://corpora.example.org/c14", "http://corpora.example.org/c14/", "https://corpora.example.org/x"]) if rng.random() < 0.85 else rng.choice([None, ""]),
        "offline": rng.random() < 0.07,
        "test_mode": rng.random() < 0.2,
    }
    if spec["test_mode"] and rng.random() < 0.7:
        spec["csize"] = spec["usize"] = None  # what the loader does in test mode
    fs = gen_fs(rng, W, fmt, spec)
    plan = gen_plan(rng, full_arch if fmt else W.doc, W.arch_others[fmt] if fmt else {1: W.doc_others[1], 2: W.doc_others[2]})
    ext = rng.choice(["off", "on", "on", "fail", "failfull", "failfull"]) if fmt in MANUAL else "off"
    return {"world": wid, "fmt": fmt, "spec": spec, "fs": fs, "plan": plan, "ext": ext, "bundled": bundled}


def gen_prepare(ctx):
    for _ in range(ctx.budget):
        yield gen_scenario(ctx.rng)


def gen_bundled(ctx):
    for _ in range(ctx.budget):
        yield gen_scenario(ctx.rng, bundled=True)


def run_scenario(ctx, case):
    W = world(case["world"])
    if case["fmt"]:
        W.archive(case["fmt"])
    execute(ctx, W, case["fmt"], case["spec"], case["fs"], [list(a) for a in case["plan"]], case["ext"], bundled=case.get("bundled", False))


def gen_history(ctx):
    """several events on one data directory: runs (any outcome), runs killed at a file-system event, files replaced or
    removed between runs; the last event is a run"""
    rng = ctx.rng
    for _ in range(ctx.budget):
        sc = gen_scenario(rng)
        W = world(sc["world"])
        fmt = sc["fmt"]
        full = W.archive(fmt) if fmt else W.doc
        others = W.arch_others[fmt] if fmt else {1: W.doc_others[1], 2: W.doc_others[2]}
        if rng.random() < 0.5:
            sc["spec"]["nlines"] = W.table(0, W.dsize)[1]  # truthful line count: the interesting half for the memo
        steps = [{"op": "run", "plan": sc.pop("plan"), "ext": sc["ext"]}]
        for _k in range(rng.choice([1, 1, 2, 3])):
            r = rng.random()
            plan = [gen_attempt(rng, full, {}, "good")] if rng.random() < 0.6 else gen_plan(rng, full, others)
            if r < 0.55:
                steps.append({"op": "run", "plan": plan, "ext": rng.choice(EXT_MODES) if fmt in MANUAL else "off"})
            elif r < 0.80:
                steps.append({"op": "crash", "plan": plan, "at_seed": rng.randrange(0, 10 ** 6), "frac": rng.choice([0.0, 0.5, 1.0, round(rng.random(), 3)])})
            else:
                slot = rng.choice(["doc", "arch"] if fmt else ["doc"])
                f = gen_file(rng, W.doc if slot == "doc" else full, {1: W.doc_others[1], 2: W.doc_others[2]} if slot == "doc" else W.arch_others[fmt], None)
                steps.append({"op": "replace", "slot": slot, "file": f})
        if steps[-1]["op"] != "run":
            steps.append({"op": "run", "plan": [gen_attempt(rng, full, {}, "good")], "ext": rng.choice(EXT_MODES) if fmt in MANUAL else "off"})
        sc["steps"] = steps
        yield sc


def restamp(P, fs, base):
    for slot in ("doc", "arch", "tmp", "off", "offtmp"):
        if fs.get(slot) is not None and getattr(P, slot) and os.path.exists(getattr(P, slot)):
            stamp(getattr(P, slot), fs[slot][-1], base)


def crash_and_match(ctx, W, fmt, spec, fs0, plan, at_seed, frac, P, base, what):
    """kills a real run at one of its file-system events; returns (matched model state, crash info) or (None, info)
    when the scenario has no event, or (False, info) when the crash state is not an intermediate state of the model"""
    dry = tempfile.mkdtemp(prefix="c14-dry-")
    try:
        Pd = Paths(os.path.join(dry, "d"), fmt)
        shutil.copytree(P.root, Pd.root)  # copy2 keeps mtimes
        _st, info = crash_child(W, fmt, spec, plan, Pd, 0, 0.0, False)
    finally:
        shutil.rmtree(dry, ignore_errors=True)
    events = info.get("events", 0)
    if events == 0:
        return None, info
    at = 1 + at_seed % events
    t_run = time.time_ns() - 5_000_000_000
    status, info = crash_child(W, fmt, spec, plan, P, at, frac, False)
    if status != "crashed":
        raise HarnessError(f"crash point {at}/{events} not reached: {info}")
    obs = observe(P)
    split = plan_split = None
    if info.get("pos"):
        if info["slot"] == "tmp":
            plan_split = (info["requests"] - 1, info["pos"])
        else:
            split = (info["slot"], info["pos"])
    m = call_model(ctx, W, fmt, spec, fs0, plan, "off", trace=True, split=split, plan_split=plan_split)
    for st in [fs0] + m["r"]["trace"]:
        if all(same_file(W, fmt, slot, st.get(slot), obs[slot], fs0["clock"], t_run) for slot in ("doc", "arch", "tmp", "off", "offtmp") if slot != "arch" or fmt):
            return st, info
    ctx.diff(what + "crash state is not an intermediate state of the model", {"trace_len": len(m["r"]["trace"]) + 1},
             {"crash": info, "at": at, "events": events, "disk": {k: (None if v is None else [len(v[0]), v[1] >= t_run]) for k, v in obs.items()}})
    return False, info


def run_history(ctx, case):
    W = world(case["world"])
    fmt = case["fmt"]
    if fmt:
        W.archive(fmt)
    spec = case["spec"]
    root = tempfile.mkdtemp(prefix="c14-hist-")
    try:
        P = Paths(os.path.join(root, "data"), fmt)
        os.makedirs(P.root)
        state = dict(case["fs"])
        state.setdefault("offtmp", None)
        base = BASE
        materialise(W, fmt, state, P, base)
        off_origin = "generated"
        hist = []
        for i, step in enumerate(case["steps"]):
            tag = "step %d (%s after [%s]): " % (i + 1, step["op"], ", ".join(hist) or "initial state")
            if step["op"] == "replace":
                slot, f = step["slot"], step["file"]
                path = getattr(P, slot)
                if f is None:
                    if os.path.exists(path):
                        os.remove(path)
                    state[slot] = None
                else:
                    data = W.doc_bytes(f[1], f[0]) if slot == "doc" else W.arch_bytes(fmt, f[1], f[0])
                    with open(path, "wb") as fh:
                        fh.write(data)
                    state[slot] = [f[0], f[1] if f[0] else 0, state["clock"]]
                    stamp(path, state["clock"], base)
                state["clock"] += 1
                hist.append("file replaced" if f is not None else "file removed")
                continue
            disk_off_before = observe(P)["off"]
            plan = [list(a) for a in step["plan"]]
            if step["op"] == "run":
                m, res, _ = execute(ctx, W, fmt, spec, state, plan, step["ext"], root=P.root, base=base, origin=tag,
                                    sig_extra=("history", tuple(hist[-2:])), off_origin=off_origin)
                if m["r"]["res"] != res:
                    return  # reported; the model state is no longer what is on disk
                new = m["r"]["fs"]
                hist.append(res.split(":")[0] if res != "ok" else "ok")
                how = "run"
            else:
                st, info = crash_and_match(ctx, W, fmt, spec, state, plan, step["at_seed"], step["frac"], P, base, tag)
                if st is None:
                    hist.append("crash(no event)")
                    continue
                if st is False:
                    return
                new = dict(st)
                hist.append("killed at %s%s" % (info.get("slot"), "/" + info["op"] if info.get("op") else ""))
                how = "crash-after-publish" if (info.get("op") == "replace" and info.get("slot") == "off") else "crash"
                ctx.count("history:crash-" + str(info.get("slot")) + ("-" + info["op"] if info.get("op") else ""))
            new.setdefault("offtmp", None)
            disk_off = observe(P)["off"]  # provenance follows what is really on disk, not what the model expects
            if disk_off is not None and disk_off != disk_off_before:
                off_origin = how
            state = new
            base += 1_000_000
            restamp(P, state, base)
        ctx.count("history:len-%d" % len(case["steps"]))
    finally:
        shutil.rmtree(root, ignore_errors=True)


# ---------------------------------------------------------------------------------------------
# the caller: DefaultTrackPreparator.on_prepare_track / prepare_docs with one or two data directories, then
# loader.set_absolute_data_path: the file the challenge will read must be the verified one
# ---------------------------------------------------------------------------------------------
EMPTY_FS = {"doc": None, "arch": None, "tmp": None, "off": None, "offtmp": None, "clock": 1}


def gen_docs(ctx):
    rng = ctx.rng
    for _ in range(ctx.budget):
        sc = gen_scenario(rng)
        W = world(sc["world"])
        fmt, spec = sc["fmt"], sc["spec"]
        two = rng.random() < 0.75
        sc["two_roots"] = two
        sc["fs_corpus"] = sc.pop("fs")
        sc["fs_track"] = gen_fs(rng, W, fmt, spec) if two else dict(EMPTY_FS)
        if two and rng.random() < 0.5:
            # the corpus directory can provide the data (complete archive / document cached there, or a good download)
            full = W.archive(fmt) if fmt else W.doc
            if rng.random() < 0.5:
                sc["fs_corpus"]["arch" if fmt else "doc"] = [len(full), 0, 1]
                sc["fs_corpus"]["clock"] = max(sc["fs_corpus"]["clock"], 2)
            else:
                sc["plan"] = [gen_attempt(rng, full, {}, "good")]
                spec["base_url"], spec["offline"] = "http://corpora.example.org/c14", False
            spec["nlines"] = W.table(0, W.dsize)[1]
            for k in ("csize", "usize"):
                real = (len(W.archive(fmt)) if fmt else None) if k == "csize" else W.dsize
                if spec[k] is not None and spec[k] != real:
                    spec[k] = real
        yield sc


def run_docs(ctx, case):
    import copy

    from esrally import config
    from esrally.track import loader, track
    from esrally.utils import net

    W = world(case["world"])
    fmt, spec, two, ext = case["fmt"], case["spec"], case["two_roots"], case["ext"]
    if fmt:
        W.archive(fmt)
    plan = [list(a) for a in case["plan"]]
    fsT, fsC = case["fs_track"], case["fs_corpus"]
    root = tempfile.mkdtemp(prefix="c14-docs-")
    try:
        track_dir, cache = os.path.join(root, "c14track"), os.path.join(root, "cache")
        Pt, Pc = Paths(track_dir, fmt), Paths(os.path.join(cache, "c14corpus"), fmt)
        os.makedirs(Pt.root)
        os.makedirs(Pc.root)
        with open(os.path.join(track_dir, "track.json"), "w") as f:
            f.write("{}")
        materialise(W, fmt, fsT, Pt)
        materialise(W, fmt, fsC, Pc)
        wait_for_driver(ctx)
        m = ctx.model("corpus", "prepare_docs", {"world": build_world_json(W, fmt, spec, [fsT, fsC], plan, ext), "spec": spec_json(spec, fmt),
                                                 "fs_track": fsT, "fs_corpus": fsC, "two_roots": two, "plan": plan_json(plan)})
        if "r" not in m:
            raise HarnessError("model error: " + json.dumps(m)[:300])
        cfg = config.Config()
        if two:
            cfg.add(config.Scope.application, "track", "track.path", track_dir)
        cfg.add(config.Scope.application, "benchmarks", "local.dataset.cache", cache)
        ds = make_docs(spec, fmt)
        ds.target_index = "c14idx"
        corpus = track.DocumentCorpus("c14corpus", [ds])
        op = track.Operation("bulk", track.OperationType.Bulk.to_hyphenated_string(), params={"bulk-size": 5})
        t = track.Track(name="c14track", corpora=[corpus], challenges=[track.Challenge("c", default=True, schedule=[track.Task("bulk", op)])],
                        indices=[track.Index("c14idx")])
        dtp = loader.DefaultTrackPreparator()
        dtp.cfg = cfg
        dtp.downloader, dtp.decompressor = loader.Downloader(offline=spec["offline"], test_mode=spec["test_mode"]), loader.Decompressor()
        calls = [0]
        real_download = dtp.downloader.download

        def guarded(*a, **k):
            calls[0] += 1
            if calls[0] > 8:
                raise LoopGuard()
            return real_download(*a, **k)

        dtp.downloader.download = guarded
        fake = scripted_net(W, fmt, plan, Pc.target)
        kwd = dict(net.download_http.__kwdefaults__ or {})
        kwd["sleep"] = lambda s_: None
        obs0 = {"track": observe(Pt), "corpus": observe(Pc)}
        t_run = time.time_ns() - 5_000_000_000
        resolved_path = None
        with mock.patch.object(net, "_request", fake), mock.patch.object(net.download_http, "__kwdefaults__", kwd), \
                mock.patch.dict(os.environ, {"PATH": path_env(ext)}), warnings.catch_warnings():
            warnings.simplefilter("ignore")
            try:
                if spec["nlines"] > 0:
                    for fn, params in dtp.on_prepare_track(t, None):
                        fn(**params)
                else:
                    # a corpus that declares zero documents is not "used" by any bulk task (used_corpora): call what
                    # on_prepare_track would yield directly
                    loader.DefaultTrackPreparator.prepare_docs(cfg, t, corpus, loader.DocumentSetPreparator(t.name, dtp.downloader, dtp.decompressor))
                res = "ok"
                rt = copy.deepcopy(t)
                loader.set_absolute_data_path(cfg, rt)  # what Rally does right after preparation
                resolved_path = rt.corpora[0].documents[0].document_file
            except LoopGuard:
                res = "DOES-NOT-TERMINATE"
            except Exception as e:  # noqa
                res = classify_exception(e, Pt if (two and str(Pt.root) in str(getattr(e, "message", e))) else Pc)
        obs = {"track": observe(Pt), "corpus": observe(Pc)}
        if m["r"]["res"] != res:
            ctx.diff("prepare_docs result", m["r"]["res"], res)
        compare_state(ctx, "prepare_docs track directory", W, fmt, m["r"]["fs_track"], obs["track"], fsT["clock"], t_run)
        compare_state(ctx, "prepare_docs corpus directory", W, fmt, m["r"]["fs_corpus"], obs["corpus"], fsC["clock"], t_run)
        which = None
        if res == "ok":
            which = "track" if (resolved_path and os.path.dirname(resolved_path) == Pt.root) else "corpus" if (resolved_path and os.path.dirname(resolved_path) == Pc.root) else "none"
            if m["r"]["resolved"] != which:
                ctx.diff("directory the document file is resolved to", m["r"]["resolved"], which)
            # direct oracle: the file the challenge will read is the verified one, with a valid table next to it
            if which == "none":
                ctx.fail("prepared-but-no-document-file-resolvable", "prepare_docs returned but set_absolute_data_path finds no document file", None, None)
            else:
                Pr, fs0r = (Pt, fsT) if which == "track" else (Pc, fsC)
                other = "corpus" if which == "track" else "track"
                data = obs[which]["doc"][0]
                unverified = data != W.doc or obs[which]["off"] is None or bool(table_positions_ok(Pr, data, spec["nlines"]))
                prepared_elsewhere = obs[other]["doc"] is not None and obs[other]["doc"] != obs0[other]["doc"]
                if unverified and prepared_elsewhere:
                    ctx.fail("resolved-document-file-is-not-the-one-that-was-prepared",
                             "prepare_docs prepared the document file in the %s directory but the challenge reads the unverified one in the %s directory" % (other, which),
                             {"resolved file": "published content, declared size, valid offset table"},
                             {"resolved": resolved_path, "size": len(data), "declared": spec["usize"], "lines": count_lines(data), "declared lines": spec["nlines"],
                              "offset table present": obs[which]["off"] is not None})
                else:
                    oracle(ctx, W, fmt, spec, fs0r, plan, res, obs0[which], obs[which], fake, Pr, origin="resolved to the %s directory: " % which)
        elif res == "DOES-NOT-TERMINATE":
            ctx.fail("does-not-terminate", "prepare_docs keeps downloading", None, res)
        elif not EXPLICIT.match(res):
            ctx.fail("non-explicit-error", "prepare_docs failed with something that is not an explicit error", "explicit error class", res)
        ctx.sig([m.get("tags"), res.split("-status-")[0], two, which, "manual" if fmt in MANUAL else "member" if fmt else "none",
                 state_class(W, fmt, spec, fsT)[:2], state_class(W, fmt, spec, fsC)[:2]])
        ctx.count("docs:" + ("two-roots" if two else "one-root"))
        ctx.count("docs:res:" + res.split(":")[0])
        if which:
            ctx.count("docs:resolved:" + which)
    finally:
        shutil.rmtree(root, ignore_errors=True)


# ---------------------------------------------------------------------------------------------
# which document sets a track USES: raw track specification -> TrackSpecificationReader -> on_prepare_track (used_corpora,
# prepare_docs) -> set_absolute_data_path.  Every document set that some task of the selected challenge reads must be
# prepared and verified; the expected set is derived from the raw specification, independently of used_corpora.
# ---------------------------------------------------------------------------------------------
NON_CORPUS_OPS = [{"operation-type": "search", "index": "_all", "body": {"query": {"match_all": {}}}}, {"operation-type": "force-merge"},
                  {"operation-type": "refresh"}, {"operation-type": "sleep", "duration": 1}]


def gen_usage(ctx):
    rng = ctx.rng
    for _ in range(ctx.budget):
        streams_mode = rng.random() < 0.25
        targets = ["t%d" % i for i in range(rng.choice([1, 2, 3, 4]))]
        corpora = []
        n = 0
        for c in range(rng.choice([1, 2, 2, 3, 3, 4])):
            docs = []
            for _d in range(rng.choice([1, 1, 2, 3])):
                n += 1
                docs.append({"id": n, "target": rng.choice(targets), "lines": rng.randrange(1, 30), "archive": rng.choice([None, "bz2", "gz"]),
                             "declare": rng.random() < 0.7, "present": rng.random() < 0.93})
            corpora.append({"name": "c%d" % c, "documents": docs})

        def bulk_op():
            op = {"operation-type": "bulk", "bulk-size": rng.choice([1, 5, 100])}
            if rng.random() < 0.6:
                op["data-streams" if streams_mode else "indices"] = rng.sample(targets, rng.randrange(1, len(targets) + 1))
            if rng.random() < 0.4:
                names = rng.sample([c["name"] for c in corpora], rng.randrange(1, len(corpora) + 1))
                op["corpora"] = names[0] if (len(names) == 1 and rng.random() < 0.5) else names
            return op

        named = {}
        for i in range(rng.choice([0, 1, 2, 3])):
            named["op%d" % i] = bulk_op() if rng.random() < 0.6 else dict(rng.choice(NON_CORPUS_OPS))
        tcount = [0]

        def task():
            tcount[0] += 1
            r = rng.random()
            t = {"name": "task%d" % tcount[0]}
            if named and r < 0.4:
                t["operation"] = rng.choice(sorted(named))  # named operation, possibly reused by several tasks
            else:
                op = bulk_op() if rng.random() < 0.75 else dict(rng.choice(NON_CORPUS_OPS))
                if r < 0.6:
                    op["name"] = "inline%d" % tcount[0] if rng.random() < 0.7 else "shared-inline-name-%s" % op["operation-type"]
                t["operation"] = op  # inline, named or unnamed (then named after its operation-type)
            if rng.random() < 0.3:
                t["clients"] = rng.choice([1, 2])
            return t

        def schedule():
            out = []
            for _k in range(rng.choice([1, 2, 2, 3, 4])):
                if rng.random() < 0.2:
                    out.append({"parallel": {"tasks": [task() for _j in range(rng.choice([2, 3]))]}})
                else:
                    out.append(task())
            return out

        challenges = [{"name": "ch0", "schedule": schedule()}]
        if rng.random() < 0.4:
            challenges.append({"name": "ch1", "schedule": schedule()})
        selected = rng.randrange(len(challenges))
        yield {"streams_mode": streams_mode, "targets": targets, "corpora": corpora, "operations": named, "challenges": challenges, "selected": selected,
               "two_roots": rng.random() < 0.2,
               # how the (func, params) pairs of on_prepare_track are consumed: executed while iterating, or collected first by the
               # real TrackPreparationActor._seed_tasks and then handed out (popped / in another order, as pickled DoTask messages)
               "consume": rng.choice(["iterate", "seed-pop", "seed-pop-pickle", "seed-shuffle-pickle", "seed-pop-pickle"]),
               "order_seed": rng.randrange(10 ** 6)}


def consume_prepare_tasks(processor, t, data_root_dir, cfg, mode, order_seed):
    """drives on_prepare_track the way its consumers do"""
    if mode == "iterate":
        for fn, params in processor.on_prepare_track(t, data_root_dir):
            fn(**params)
        return
    import pickle

    from esrally.driver import driver

    seeder = object.__new__(driver.TrackPreparationActor)  # the real class: _seed_tasks and whatever helpers it uses
    seeder.track, seeder.data_root_dir, seeder.cfg, seeder.tasks = t, data_root_dir, cfg, []
    driver.TrackPreparationActor._seed_tasks(seeder, processor)  # collects ALL tasks first
    tasks = seeder.tasks
    if "shuffle" in mode:
        random.Random(order_seed).shuffle(tasks)
    while tasks:
        task = tasks.pop()  # receiveMsg_ReadyForWork
        msg = driver.DoTask(task, cfg)
        if "pickle" in mode:
            msg = pickle.loads(pickle.dumps(msg))  # the actor system delivers a copy
        msg.task.func(**msg.task.params)  # TaskExecutionActor.receiveMsg_DoTask


def usage_doc_bytes(ds):
    return b"".join(b'{"ds":%d,"line":%d}\n' % (ds["id"], i) for i in range(ds["lines"]))


def leaf_tasks(schedule):
    for el in schedule:
        if "parallel" in el:
            for t in el["parallel"]["tasks"]:
                yield t
        else:
            yield el


def expected_usage(case):
    """from the RAW specification (docs/track.rst: bulk operation parameters `indices`, `data-streams`, `corpora`):
    ids of the document sets read by some task of the selected challenge; None when some bulk task matches nothing"""
    key = "data-streams" if case["streams_mode"] else "indices"
    all_sets = [(c["name"], d) for c in case["corpora"] for d in c["documents"]]
    used = set()
    for t in leaf_tasks(case["challenges"][case["selected"]]["schedule"]):
        op = t["operation"]
        if isinstance(op, str):
            op = case["operations"][op]
        if op["operation-type"] != "bulk":
            continue
        names = op.get("corpora")
        if isinstance(names, str):
            names = [names]
        sel = [d["id"] for cname, d in all_sets if (names is None or cname in names) and (not op.get(key) or d["target"] in op[key])]
        if not sel:
            return None
        used.update(sel)
    return used


def run_usage(ctx, case):
    import copy

    from esrally import config
    from esrally.track import loader

    key, tkey = ("data-streams", "target-data-stream") if case["streams_mode"] else ("indices", "target-index")
    root = tempfile.mkdtemp(prefix="c14-usage-")
    try:
        cache = os.path.join(root, "cache")
        track_dir = os.path.join(root, "usagetrack")
        os.makedirs(track_dir)
        with open(os.path.join(track_dir, "track.json"), "w") as f:
            f.write("{}")
        content, spec_corpora = {}, []
        for c in case["corpora"]:
            cdir = os.path.join(cache, c["name"])
            os.makedirs(cdir)
            docs = []
            for d in c["documents"]:
                data = usage_doc_bytes(d)
                fname = "docs-%d.json" % d["id"]
                content[d["id"]] = (c["name"], fname, data)
                src = fname + ("." + d["archive"] if d["archive"] else "")
                blob = _archive(d["archive"], data) if d["archive"] else data
                if d["present"]:
                    with open(os.path.join(cdir, src), "wb") as f:
                        f.write(blob)
                ds = {"source-file": src, "document-count": d["lines"], tkey: d["target"]}
                if d["declare"]:
                    ds["uncompressed-bytes"] = len(data)
                    if d["archive"]:
                        ds["compressed-bytes"] = len(blob)
                docs.append(ds)
            spec_corpora.append({"name": c["name"], "documents": docs})
        spec = {"description": "c14 usage", key: [{"name": t} for t in case["targets"]], "corpora": spec_corpora,
                "operations": [dict(v, name=k) for k, v in sorted(case["operations"].items())],
                "challenges": [dict(copy.deepcopy(ch), default=(i == 0)) for i, ch in enumerate(case["challenges"])]}
        sel_name = case["challenges"][case["selected"]]["name"]
        # model: what used_corpora hands to preparation
        tid = {t: i for i, t in enumerate(case["targets"])}
        cid = {c["name"]: i for i, c in enumerate(case["corpora"])}
        mdocs = [{"id": d["id"], "corpus": cid[c["name"]], "index": None if case["streams_mode"] else tid[d["target"]],
                  "stream": tid[d["target"]] if case["streams_mode"] else None, "bulk": True} for c in case["corpora"] for d in c["documents"]]
        mtasks = []
        for t in leaf_tasks(case["challenges"][case["selected"]]["schedule"]):
            op = t["operation"] if not isinstance(t["operation"], str) else case["operations"][t["operation"]]
            names = op.get("corpora")
            if isinstance(names, str):
                names = [names]
            mtasks.append({"has_corpora": op["operation-type"] == "bulk", "corpora": None if names is None else [cid[x] for x in names],
                           "indices": [] if case["streams_mode"] else [tid[x] for x in op.get("indices", [])],
                           "streams": [tid[x] for x in op.get("data-streams", [])] if case["streams_mode"] else []})
        wait_for_driver(ctx)
        m = ctx.model("corpus", "used_docsets", {"docs": mdocs, "tasks": mtasks})
        expected = expected_usage(case)
        cfg = config.Config()
        cfg.add(config.Scope.application, "benchmarks", "local.dataset.cache", cache)
        if case["two_roots"]:
            cfg.add(config.Scope.application, "track", "track.path", track_dir)
        res, t = None, None
        with mock.patch.dict(os.environ, {"PATH": path_env("off")}), warnings.catch_warnings():
            warnings.simplefilter("ignore")
            try:
                t = loader.TrackSpecificationReader(selected_challenge=sel_name)("usagetrack", spec, "/mappings")
                dtp = loader.DefaultTrackPreparator()
                dtp.cfg, dtp.track = cfg, t
                dtp.downloader, dtp.decompressor = loader.Downloader(offline=True, test_mode=False), loader.Decompressor()
                consume_prepare_tasks(dtp, t, cache, cfg, case.get("consume", "iterate"), case.get("order_seed", 0))
                res = "ok"
                rt = copy.deepcopy(t)
                loader.set_absolute_data_path(cfg, rt)
            except Exception as e:  # noqa
                from esrally import exceptions

                res = classify_exception(e, Paths(root, None))
                if isinstance(e, exceptions.RallyAssertionError):
                    res = "RallyAssertionError"
                elif res.startswith("Unexpected:") and isinstance(e, exceptions.RallyError):
                    res = "RallyError:" + type(e).__name__  # an explicit error of the track loader / parameter sources
        prepared = set(i for i, (cname, fname, _d) in content.items() if os.path.exists(os.path.join(cache, cname, fname + ".offset")))
        if "err" in m:
            if res == "ok":
                ctx.diff("used_corpora: a bulk task that matches nothing", m["err"], res)
        elif res == "ok" and set(m["r"]) != prepared:
            ctx.diff("document sets handed to preparation", sorted(m["r"]), sorted(prepared))
        # direct oracle
        if res == "ok":
            if expected is None:
                ctx.count("usage:returned-although-a-bulk-task-matches-nothing")
            else:
                resolved = {}
                for corpus in rt.corpora:
                    for dset in corpus.documents:
                        for i, (cname, fname, _d) in content.items():
                            if cname == corpus.name and dset.document_file is not None and os.path.basename(dset.document_file) == fname:
                                resolved[i] = dset.document_file
                bad = []
                for i in sorted(expected):
                    cname, fname, data = content[i]
                    path = resolved.get(i)
                    if path is None or not os.path.isfile(path):
                        bad.append([i, "resolved to " + repr(path) + ": no document file"])
                    elif read_or_none(path) != data:
                        bad.append([i, "content differs from the published file"])
                    elif not os.path.isfile(path + ".offset"):
                        bad.append([i, "no offset table"])
                    else:
                        for k in (0, 1, len(data.splitlines())):
                            with open(path, "rb") as f:
                                from esrally.utils import io as rio

                                rio.skip_lines(path, f, k)
                                if f.tell() != linear_positions(data, [k])[k]:
                                    bad.append([i, "reader positioned at the wrong byte for line %d" % k])
                if bad:
                    ctx.fail("document-set-read-by-a-task-was-not-prepared",
                             "preparation returned normally but a document set that a task of the selected challenge reads is not prepared / verified",
                             {"document sets read by the tasks of the selected challenge (from the raw specification)": sorted(expected)},
                             {"not prepared": bad[:5], "prepared": sorted(prepared)})
        elif not (EXPLICIT.match(res) or res == "RallyAssertionError" or res.startswith("RallyError:")):
            ctx.fail("non-explicit-error", "track preparation failed with something that is not an explicit error", "explicit error class", res)
        kinds = sorted(set(("named" if isinstance(t_["operation"], str) else "inline-named" if "name" in t_["operation"] else "inline-unnamed")
                           for t_ in leaf_tasks(case["challenges"][case["selected"]]["schedule"])))
        used_corpora_n = len(set(content[i][0] for i in expected)) if expected else 0
        ctx.sig([m.get("tags"), res.split(":")[0], kinds, len(mtasks), len(mdocs), None if expected is None else len(expected), case["streams_mode"],
                 case.get("consume", "iterate"), min(used_corpora_n, 3)], nontrivial=len(mtasks) > 1)
        ctx.count("usage:res:" + res.split(":")[0])
        ctx.count("usage:consume:%s:used-corpora-%s" % (case.get("consume", "iterate"), "0" if not used_corpora_n else "1" if used_corpora_n == 1 else ">=2"))
    finally:
        shutil.rmtree(root, ignore_errors=True)


# ---------------------------------------------------------------------------------------------
# the reader side of the offset table across re-preparations in ONE process: io.skip_lines (plain file and
# io.MmapSource) must position at the true byte of that line in the CURRENT file, whatever was prepared / read before
# ---------------------------------------------------------------------------------------------
def make_edition(seed, nlines):
    rng = random.Random("c14-edition-%s" % seed)
    pad = rng.randrange(0, 40)
    lines = []
    for i in range(nlines):
        lines.append('{"id":%d,"e":"%s","p":"%s"}\n' % (i, seed, "x" * ((i * 7 + pad) % (pad + 3))))
    data = "".join(lines).encode("utf-8")
    starts = [0]
    pos = 0
    for ln in lines:
        pos += len(ln)
        starts.append(pos)
    return data, starts


def gen_reader(ctx):
    rng = ctx.rng
    for _ in range(ctx.budget):
        n_ed = rng.choice([2, 2, 3])
        editions = [[rng.randrange(10 ** 6), rng.choice([49999, 50000, 50001, 60000, 100000, 100001, 120000])] for _ in range(n_ed)]
        fmt = rng.choice([None, "gz", "zst", "zip", "tar"])
        ops = [["install", 0, "fresh"], ["prepare"], ["read"]]
        for _k in range(rng.choice([2, 3, 4])):
            r = rng.random()
            if r < 0.6:
                ops += [["install", rng.randrange(n_ed), rng.choice(["archive", "document", "both"]) if fmt else "document"], ["prepare"], ["read"]]
            elif r < 0.75:
                ops += [["touch"], ["prepare"], ["read"]]
            elif r < 0.9:
                ops += [["rmtable"], ["read"], ["prepare"], ["read"]]
            else:
                ops += [["read"]]
        yield {"editions": editions, "fmt": fmt, "declare": rng.random() < 0.7, "ops": ops, "targets_seed": rng.randrange(10 ** 6), "ext": rng.choice(["off", "on"])}


def run_reader(ctx, case):
    from esrally.track import loader, track
    from esrally.utils import io

    fmt = case["fmt"]
    eds = [make_edition(seed, n) for seed, n in case["editions"]]
    trng = random.Random(case["targets_seed"])
    root = tempfile.mkdtemp(prefix="c14-read-")
    try:
        P = Paths(root, fmt)
        cur = None  # edition whose bytes are in the document file
        want = None  # edition the track currently declares
        prepared = False
        reads = mism = 0
        prep = loader.DocumentSetPreparator("c14-track", loader.Downloader(offline=True, test_mode=False), loader.Decompressor())

        def age():
            for fn in os.listdir(root):
                st = os.stat(os.path.join(root, fn))
                os.utime(os.path.join(root, fn), ns=(st.st_mtime_ns - 10 ** 10, st.st_mtime_ns - 10 ** 10))

        for op in case["ops"]:
            if op[0] == "install":
                age()
                want = op[1]
                data = eds[want][0]
                how = op[2] if fmt else "document"
                if how in ("fresh", "archive", "both"):
                    with open(P.arch if fmt else P.doc, "wb") as f:
                        f.write(_archive(fmt, data) if fmt else data)
                    if not fmt:
                        cur = want
                if how in ("document", "both") and fmt:
                    with open(P.doc, "wb") as f:
                        f.write(data)
                    cur = want
                    if how == "document":  # keep the archive consistent with what the track declares
                        with open(P.arch, "wb") as f:
                            f.write(_archive(fmt, data))
                prepared = False
            elif op[0] == "touch":
                age()
                if os.path.exists(P.doc):
                    os.utime(P.doc, None)
                prepared = False
            elif op[0] == "rmtable":
                if os.path.exists(P.off):
                    os.remove(P.off)
            elif op[0] == "prepare":
                data = eds[want][0]
                arch_size = os.path.getsize(P.arch) if fmt and os.path.exists(P.arch) else None
                ds = track.Documents("bulk", document_file=DOC, document_archive=(DOC + "." + fmt) if fmt else None, base_url=None,
                                     number_of_documents=len(eds[want][1]) - 1,
                                     compressed_size_in_bytes=arch_size if case["declare"] else None,
                                     uncompressed_size_in_bytes=len(data) if case["declare"] else None)
                with mock.patch.dict(os.environ, {"PATH": path_env(case["ext"])}), warnings.catch_warnings():
                    warnings.simplefilter("ignore")
                    try:
                        prep.prepare_document_set(ds, root)
                        prepared = True
                    except Exception as e:  # noqa
                        prepared = False
                        ctx.count("reader:prepare-raised:" + classify_exception(e, P).split(":")[0])
                if prepared:
                    on_disk = read_or_none(P.doc)
                    cur = next((k for k, (d, _s) in enumerate(eds) if d == on_disk), None)
            elif op[0] == "read":
                on_disk = read_or_none(P.doc)
                if on_disk is None:
                    continue
                k = next((i for i, (d, _s) in enumerate(eds) if d == on_disk), None)
                if k is None:
                    continue
                starts = eds[k][1]
                total = len(starts) - 1
                targets = sorted(set(x for x in [0, 1, 49999, 50000, 50001, 99999, 100000, 100001, total - 1, total,
                                                 trng.randrange(0, total + 1), trng.randrange(0, total + 1)] if 0 <= x <= total))
                for n in targets:
                    exp_next = on_disk[starts[n]:starts[n + 1]] if n < total else b""
                    try:
                        with open(P.doc, "rb") as f:
                            io.skip_lines(P.doc, f, n)
                            got = f.tell()
                        src = io.MmapSource(P.doc, "rt").open()
                        try:
                            io.skip_lines(P.doc, src, n)
                            nxt = src.readline()
                        finally:
                            src.close()
                    except Exception as e:  # e.g. seek beyond the end of the file
                        got, nxt = "raises " + type(e).__name__, b""
                    reads += 1
                    if got != starts[n] or nxt != exp_next:
                        mism += 1
                        if mism <= 1:
                            table_now = read_or_none(P.off)
                            table_true = table_for(on_disk)[0]
                            st_doc = os.stat(P.doc)
                            if table_now is not None and table_now != table_true:
                                # the table ON DISK does not belong to the current file: a preparation-side cause
                                if fmt in TAR_FAMILY and st_doc.st_mtime_ns == BASE * 1_000_000_000 and os.stat(P.off).st_mtime_ns >= st_doc.st_mtime_ns and prepared:
                                    cls = "stale-offset-table-kept-because-tar-extraction-restores-mtime"
                                elif prepared:
                                    cls = "inside-hypotheses:offset-table-inconsistent"
                                else:
                                    cls = None  # the file was changed and not prepared again: nothing is promised
                                    ctx.count("reader:excluded:not-prepared-since-change")
                            else:
                                cls = "reader-positioned-at-wrong-byte"  # the table on disk is right (or absent): the reader side is wrong
                            if cls:
                                ctx.fail(cls, "io.skip_lines positions the reader at another byte than skipping lines one by one in the current document file",
                                         {"line": n, "byte": starts[n]}, {"io.skip_lines (file)": got, "next line via MmapSource": repr(nxt[:50]),
                                                                          "expected next line": repr(exp_next[:50]), "prepared since last change": prepared,
                                                                          "offset table on disk": (table_now or b"")[:80].decode("ascii", "replace"),
                                                                          "table of the current file": table_true[:80].decode("ascii", "replace")})
        ctx.sig([fmt, case["declare"], [o[0] + (":" + str(o[2]) if o[0] == "install" else "") for o in case["ops"]][:12], [n for _s, n in case["editions"]]], nontrivial=reads > 0)
        ctx.count("reader:reads", reads)
    finally:
        shutil.rmtree(root, ignore_errors=True)


# ---------------------------------------------------------------------------------------------
# net.download alone: many fault plans, the final name is watched at every read
# ---------------------------------------------------------------------------------------------
def gen_download(ctx):
    rng = ctx.rng
    for _ in range(ctx.budget):
        wid = rng.choice(["ascii40", "utf300", "mid2500", "empty", "one-nonl"])
        W = world(wid)
        to_doc = rng.random() < 0.3
        fmt = None if to_doc else rng.choice(FORMATS)
        full = W.doc if to_doc else W.archive(fmt)
        others = {1: W.doc_others[1], 2: W.doc_others[2]} if to_doc else W.arch_others[fmt]
        expected = gen_size_decl(rng, len(full), None)
        tgt0 = None
        if rng.random() < 0.5:
            tgt0 = [rng.choice(prefix_points(rng, full)), 0, 1]
        tmp0 = [rng.randrange(0, len(full) + 1), 0, 2] if rng.random() < 0.3 else None
        n = rng.choice([1, 1, 1, 2, 3, 11, 12])
        if n >= 11:
            plan = [gen_attempt(rng, full, others, rng.choice(["reset", "timeout", "short-cl", "wrong-cl"])) for _ in range(n - 1)] + [gen_attempt(rng, full, others)]
        else:
            plan = [gen_attempt(rng, full, others) for _ in range(n)]
        yield {"world": wid, "fmt": fmt, "expected": expected, "target": tgt0, "tmp": tmp0, "plan": plan}


def run_download(ctx, case):
    from esrally.utils import net
    from esrally import exceptions
    import urllib.error

    W = world(case["world"])
    fmt = case["fmt"]
    root = tempfile.mkdtemp(prefix="c14-dl-")
    try:
        P = Paths(root, fmt)
        fs = {"doc": None, "arch": None, "tmp": case["tmp"], "off": None, "offtmp": None, "clock": 5}
        fs["arch" if fmt else "doc"] = case["target"]
        materialise(W, fmt, fs, P)
        plan = [list(a) for a in case["plan"]]
        wait_for_driver(ctx)
        m = ctx.model("corpus", "net_download", {"fs": fs, "plan": plan_json(plan), "expected": case["expected"], "to_doc": not fmt})
        src = (lambda cid, n: W.arch_bytes(fmt, cid, n)) if fmt else W.doc_bytes
        pb = [{"kind": "connect"} if a[0] == "connect" else {"kind": "resp", "status": a[1], "cl": a[2], "chunks": chunk_bytes(src(a[3], sum(a[4])), a[4]), "end": a[5]} for a in plan]
        fake = Net(pb, P.target)
        kwd = dict(net.download_http.__kwdefaults__ or {})
        kwd["sleep"] = lambda s: None
        obs0 = observe(P)
        t_run = time.time_ns() - 5_000_000_000
        with mock.patch.object(net, "_request", fake), mock.patch.object(net.download_http, "__kwdefaults__", kwd):
            try:
                net.download("http://corpora.example.org/c14/" + os.path.basename(P.target), P.target, case["expected"])
                res = "ok"
            except urllib.error.HTTPError as e:
                res = "HTTPError:%d" % e.code
            except Exception as e:  # noqa
                res = classify_exception(e, P)
        obs = observe(P)
        if m["r"]["res"] != res:
            ctx.diff("net.download result", m["r"]["res"], res)
        if m["r"]["used"] != min(fake.calls, len(plan)):  # requests beyond the plan are scripted connection failures
            ctx.diff("net.download number of requests", m["r"]["used"], fake.calls)
        compare_state(ctx, "net.download final state", W, fmt, m["r"]["fs"], obs, fs["clock"], t_run)
        # direct oracle
        if obs["tmp"] is not None and res != "ok":
            ctx.fail("tmp-left-behind", "net.download raised but left the .tmp file", None, res)
        tslot = "arch" if fmt else "doc"
        oracle_download_only(ctx, W, fmt, case["expected"], plan, res, obs0[tslot], obs[tslot], fake)
        kinds = sorted(set("connect" if a[0] == "connect" else ("status" if a[1] > 299 else str(effective_end(a)) + ("+cl" if isinstance(a[2], int) else "")) for a in plan))
        ctx.sig([res.split(":")[0] if res.startswith("HTTPError") else res, kinds, case["expected"] is None, case["target"] is not None, case["tmp"] is not None, min(fake.calls, 12)])
    finally:
        shutil.rmtree(root, ignore_errors=True)


def oracle_download_only(ctx, W, fmt, expected, plan, res, before, after, fake):
    if fake.target_changed_during_download:
        ctx.fail("final-name-touched-during-download", "the final name changed while the body was still being received", None, None)
    changed = (before is None) != (after is None) or (after is not None and before != after)
    if res != "ok" and changed:
        ctx.fail("final-name-changed-by-failed-download", "net.download raised but the final name changed", None, res)
    if res == "ok" and not changed:
        ctx.fail("download-ok-without-file", "net.download returned but the final name was not (re)written", None, None)
    final_name_check(ctx, W, fmt, expected, plan, before, after)


# ---------------------------------------------------------------------------------------------
# crash scenarios: forked child killed at the n-th file-system event, then preparation re-run
# ---------------------------------------------------------------------------------------------
CRASH = 99


class _W:
    """write-through file wrapper: every write() is a file-system event; may tear the fatal one"""

    def __init__(self, ctl, raw, slot, text):
        self.ctl, self.raw, self.slot, self.text, self.pos = ctl, raw, slot, text, 0

    def write(self, data):
        b = data.encode("utf-8") if self.text else bytes(data)
        if self.ctl.event(("write", self.slot)):
            cut = int(len(b) * self.ctl.frac)
            self.raw.write(b[:cut])
            self.ctl.die({"slot": self.slot, "pos": self.pos + cut, "torn": 0 < cut < len(b)})
        self.raw.write(b)
        self.pos += len(b)
        return len(data)

    def flush(self):
        pass

    def close(self):
        self.raw.close()

    def fileno(self):
        return self.raw.fileno()

    def __enter__(self):
        return self

    def __exit__(self, *a):
        self.close()
        return False


class _Ctl:
    def __init__(self, at, frac, P, report_fd, fake_ref):
        self.at, self.frac, self.P, self.fd, self.n, self.fake_ref = at, frac, P, report_fd, 0, fake_ref

    def event(self, what):
        self.n += 1
        return self.n == self.at

    def die(self, info):
        info["event"] = self.n
        info["requests"] = self.fake_ref[0].calls if self.fake_ref[0] else 0
        os.write(self.fd, json.dumps(info).encode())
        os._exit(CRASH)

    def slot_of(self, path):
        p = os.path.abspath(path)
        for k in ("doc", "arch", "tmp", "off", "offtmp"):
            if getattr(self.P, k) and p == getattr(self.P, k):
                return k
        return None


def crash_child(W, fmt, spec, plan, P, at, frac, bundled):
    """forks; the child runs the real preparation with counting wrappers and dies at event `at`.
    returns (status, info): status 'crashed' | 'finished' | 'raised'"""
    r, wfd = os.pipe()
    pid = os.fork()
    if pid == 0:
        try:
            os.close(r)
            fake_ref = [None]
            ctl = _Ctl(at, frac, P, wfd, fake_ref)
            real_open, real_remove, real_rename, real_replace = builtins.open, os.remove, os.rename, os.replace

            def c_open(file, mode="r", *a, **kw):
                slot = ctl.slot_of(file) if isinstance(file, str) else None
                if slot is None or not any(ch in mode for ch in "wax+"):
                    return real_open(file, mode, *a, **kw)
                raw = real_open(file, "wb" if "w" in mode else "ab", buffering=0)
                if ctl.event(("open", slot)):
                    ctl.die({"slot": slot, "pos": 0, "torn": False})
                return _W(ctl, raw, slot, "b" not in mode)

            def c_remove(p, *a, **kw):
                real_remove(p, *a, **kw)
                if ctl.slot_of(p) and ctl.event(("remove",)):
                    ctl.die({"slot": ctl.slot_of(p), "pos": 0, "torn": False, "op": "remove"})

            def c_rename(a_, b_, *a, **kw):
                real_rename(a_, b_, *a, **kw)
                if ctl.slot_of(b_) and ctl.event(("rename",)):
                    ctl.die({"slot": ctl.slot_of(b_), "pos": 0, "torn": False, "op": "rename"})

            def c_replace(a_, b_, *a, **kw):
                real_replace(a_, b_, *a, **kw)
                if ctl.slot_of(b_) and ctl.event(("replace",)):
                    ctl.die({"slot": ctl.slot_of(b_), "pos": 0, "torn": False, "op": "replace"})

            builtins.open, os.remove, os.rename, os.replace = c_open, c_remove, c_rename, c_replace
            orig_net = Net.__init__

            def grab(self, *a, **kw):
                orig_net(self, *a, **kw)
                fake_ref[0] = self

            Net.__init__ = grab
            res, fake = run_real(W, fmt, spec, plan, "off", P, bundled)
            os.write(wfd, json.dumps({"res": res, "events": ctl.n}).encode())
            os._exit(0)
        except BaseException as e:  # noqa
            try:
                os.write(wfd, json.dumps({"harness": repr(e)}).encode())
            finally:
                os._exit(7)
    os.close(wfd)
    buf = b""
    while True:
        c = os.read(r, 65536)
        if not c:
            break
        buf += c
    os.close(r)
    _, st = os.waitpid(pid, 0)
    code = os.waitstatus_to_exitcode(st)
    info = json.loads(buf.decode()) if buf else {}
    if code == CRASH:
        return "crashed", info
    if code == 0:
        return "finished", info
    raise HarnessError(f"crash child failed: exit {code} {info}")


def gen_crash(ctx):
    rng = ctx.rng
    for _ in range(ctx.budget):
        sc = gen_scenario(rng, fmt_choice=rng.choice(["gz", "bz2", "zst", "zip", None, "gz", "zst"]))
        # mostly scenarios that get somewhere: a good download at the end of the plan, truthful or undeclared sizes
        W = world(sc["world"])
        fmt = sc["fmt"]
        full = W.archive(fmt) if fmt else W.doc
        if rng.random() < 0.8:
            sc["plan"] = sc["plan"][:2] + [gen_attempt(rng, full, {}, "good")]
            sc["spec"]["base_url"] = "http://corpora.example.org/c14"
            sc["spec"]["offline"] = False
            if sc["spec"]["usize"] not in (None, W.dsize):
                sc["spec"]["usize"] = W.dsize
            if fmt and sc["spec"]["csize"] not in (None, len(W.archive(fmt))):
                sc["spec"]["csize"] = len(W.archive(fmt))
            sc["spec"]["nlines"] = W.table(0, W.dsize)[1]
        sc["ext"] = "off"
        sc["at_seed"] = rng.randrange(0, 10 ** 6)  # crash event = 1 + at_seed % (number of events of the uncrashed run)
        sc["frac"] = rng.choice([0.0, 0.5, 1.0, round(rng.random(), 3)])
        sc["plan2"] = [gen_attempt(rng, full, {}, "good")] if rng.random() < 0.8 else gen_plan(rng, full, W.arch_others[fmt] if fmt else {1: W.doc_others[1], 2: W.doc_others[2]})
        yield sc


def same_file(W, fmt, slot, mf, of, clock0, t_run):
    """model file vs observed (bytes, mtime_ns): same bytes, same written-in-this-run flag"""
    if (mf is None) != (of is None):
        return False
    if mf is None:
        return True
    exp = off_bytes(W, mf) if slot in ("off", "offtmp") else expected_bytes(W, fmt, slot, mf)
    return exp == of[0] and (mf[-1] >= clock0) == (of[1] >= t_run)


def run_crash(ctx, case):
    W = world(case["world"])
    fmt = case["fmt"]
    if fmt:
        W.archive(fmt)
    spec, fs0, plan = case["spec"], case["fs"], [list(a) for a in case["plan"]]
    root = tempfile.mkdtemp(prefix="c14-crash-")
    try:
        # dry run in a child to count the file-system events of this scenario
        P = Paths(os.path.join(root, "dry"), fmt)
        os.makedirs(P.root)
        materialise(W, fmt, fs0, P)
        status, info = crash_child(W, fmt, spec, plan, P, 0, 0.0, False)
        events = info.get("events", 0)
        if events == 0:
            ctx.sig(["no-file-system-event", info.get("res")], nontrivial=False)
            ctx.count("crash:no-event")
            return
        at = 1 + case["at_seed"] % events
        P = Paths(os.path.join(root, "run"), fmt)
        os.makedirs(P.root)
        materialise(W, fmt, fs0, P)
        t_run = time.time_ns() - 5_000_000_000
        status, info = crash_child(W, fmt, spec, plan, P, at, case["frac"], False)
        if status != "crashed":
            raise HarnessError(f"crash point {at}/{events} not reached: {info}")
        obs = observe(P)
        # 1. the state the crash left is one of the model's intermediate states
        split = plan_split = None
        if info.get("pos"):  # refine the model's chunking so that the crash position is a chunk boundary
            if info["slot"] == "tmp":
                plan_split = (info["requests"] - 1, info["pos"])
            else:
                split = (info["slot"], info["pos"])
        m = call_model(ctx, W, fmt, spec, fs0, plan, "off", trace=True, split=split, plan_split=plan_split)
        states = [fs0] + m["r"]["trace"]
        match = None
        for s in states:
            if all(same_file(W, fmt, slot, s.get(slot), obs[slot], fs0["clock"], t_run) for slot in ("doc", "arch", "tmp", "off", "offtmp") if slot != "arch" or fmt):
                match = s
                break
        if match is None:
            ctx.diff("crash state is not an intermediate state of the model", {"trace_len": len(states), "trace_tail": states[-3:]},
                     {"crash": info, "at": at, "events": events, "disk": {k: (None if v is None else [len(v[0]), v[1] >= t_run]) for k, v in obs.items()}})
            # failing-input search without the model: does a re-run accept what this crash left?
            off_by_code = obs["off"] is not None and obs["off"][1] >= t_run
            for slot in ("doc", "arch", "tmp", "off", "offtmp"):
                if obs[slot] is not None:
                    os.utime(getattr(P, slot), ns=(obs[slot][1] - 10 ** 15, obs[slot][1] - 10 ** 15))
            res2, _ = run_real(W, fmt, spec, [list(a) for a in case["plan2"]], "off", P)
            after = observe(P)
            if res2 == "ok" and after["doc"] is not None and after["off"] is not None:
                bad = table_positions_ok(P, after["doc"][0], spec["nlines"])
                if bad and off_by_code and after["off"][0] == obs["off"][0]:
                    ctx.fail("torn-offset-table-left-by-current-code", "after-crash: the table left by the crashed run is accepted by the next run",
                             "positions = linear skipping", {"crash": info, "table mismatches": bad[:3]})
                elif len(after["doc"][0]) < W.dsize and W.doc.startswith(after["doc"][0]) and spec["usize"] == W.dsize:
                    ctx.fail("inside-hypotheses:unverified-document-accepted", "after-crash: re-run accepted an unverified document", None, {"crash": info})
            return
        ctx.count("crash:slot-" + str(info.get("slot")) + ("-torn" if info.get("torn") else "") + ("-" + info["op"] if info.get("op") else ""))
        # 2. download atomicity at the crash instant: final name unchanged or a complete body
        tslot = "arch" if fmt else "doc"
        b0 = expected_bytes(W, fmt, tslot, fs0[tslot])
        before = None if b0 is None else (b0, (BASE + fs0[tslot][2]) * 1_000_000_000)
        final_name_check(ctx, W, fmt, spec["csize"] if fmt else spec["usize"], plan, before, obs[tslot], "crash instant: ")
        # 3. re-run preparation on what the crash left (mtimes re-stamped in the past, order kept)
        base2 = BASE + 1_000_000
        for slot in ("doc", "arch", "tmp", "off", "offtmp"):
            f = match.get(slot)
            if f is not None and getattr(P, slot):
                stamp(getattr(P, slot), f[-1], base2)
        plan2 = [list(a) for a in case["plan2"]]
        execute(ctx, W, fmt, spec, match, plan2, "off", root=P.root, base=base2, origin="after-crash: ",
                sig_extra=("crash", info.get("slot"), bool(info.get("torn")), info.get("op", "")),
                off_origin="crash-after-publish" if (match["off"] is not None and match["off"] != fs0["off"]) else "generated")
    finally:
        shutil.rmtree(root, ignore_errors=True)


STREAMS = [
    Stream("prepare_states", gen_prepare, run_scenario, quick=960, thorough=20000, shards=16),
    Stream("prepare_bundled", gen_bundled, run_scenario, quick=240, thorough=4000, shards=8),
    Stream("histories", gen_history, run_history, quick=640, thorough=12000, shards=16),
    Stream("prepare_docs", gen_docs, run_docs, quick=640, thorough=12000, shards=16),
    Stream("track_usage", gen_usage, run_usage, quick=640, thorough=10000, shards=16),
    Stream("reader_histories", gen_reader, run_reader, quick=48, thorough=600, shards=16),
    Stream("net_download", gen_download, run_download, quick=1200, thorough=30000, shards=8),
    Stream("crash_then_rerun", gen_crash, run_crash, quick=480, thorough=10000, shards=16),
]
